//! C25 — Control flow lands exactly where the specification says.
//!
//! Statement (properties.jsonl): every jump instruction either moves $pc to the specified
//! target (absolute from $is, relative forward/backward from the current instruction, or
//! register-plus-offset for jump-and-link, with the return address stored) or panics when
//! the target would fall outside memory; untaken conditional jumps advance by one
//! instruction. An instruction is executed only if its address lies in the executable
//! region [$is, $ssp), and every non-jump instruction that succeeds advances $pc by 4.
//!
//! Space (every element is executed; nothing is sampled) — three parts:
//!
//!  Part 1 "jump" (target arithmetic): the 12 jump opcodes of fuel-asm (JI JNEI JNZI JMP
//!   JNE JMPF JMPB JNZF JNZB JNEF JNEB JAL), ONE injected instruction (no fetch) on a
//!   clone of a prepared VM, at 4 placements of ($is,$pc) {script start, mid-script, last
//!   executable word $ssp-4, inside called contract A} (6 in thorough: + last script
//!   instruction, + first contract instruction) x register words from a boundary set
//!   B(p) (small, 2^k edges, 2^61/2^62/u64::MAX/4/u64::MAX edges, and per placement the
//!   exact in/out-of-memory edges (MEM-$is)/4, (MEM-$pc)/4, $pc/4 and the values at which
//!   a wrapping multiplication/addition would come back into memory) x ALL 4096 imm12
//!   (JNEI JNZF JNZB JAL), ALL 64 imm06 (JNEF JNEB), ALL 2^18 imm18 (JNZI JMPF JMPB;
//!   reduced register set in quick, full B in thorough), imm24 (JI: boundary/stride set
//!   of ~33k values per placement incl. +-64 around (MEM-$is)/4, plus in quick ALL imm24
//!   in [0,2^21) and [2^24-2^21,2^24) at one placement, in thorough ALL 2^24 everywhere)
//!   x condition operands making the jump taken / untaken x register layouts (distinct,
//!   aliased, system registers as sources, all 15 reserved link registers for JAL), plus
//!   a dense grid (dynamic register 0..4095 x small immediates) for every register form.
//!   The exact products and their sizes are listed in the evidence (`part1_spaces`).
//!  Part 2 "exec_region" (real fetch, `vmkit::step`): contexts {script, inside contract A,
//!   script after LDC appended code} x stack extension {0, 8, 64 bytes} x heap allocation
//!   {0, 8, 65536, all but 64 bytes (with the 8-byte stack extension only)} x $pc over
//!   every byte address in windows around $is, $ssp, $sp, $hp, MEM (and the old $ssp after
//!   LDC) and far-out values; a marker instruction (MOVI) is written to the fetched word
//!   wherever memory is allocated.
//!  Part 3 "prog" (programs): all programs of length <= k (3 quick / 4 thorough) over a
//!   27-letter alphabet of loops, skips, conditional jumps, three JAL subroutines, CALL
//!   into a contract that itself loops/jumps/links, LDC + jump into the loaded code, run
//!   step by step (at most MAX_STEPS steps) under a control-flow reference interpreter.
//!
//! Oracle (independent of flow.rs; integers are mathematical, i128):
//!   JI: $is+imm*4 | JNEI: $rA!=$rB ? $is+imm*4 | JNZI: $rA!=0 ? $is+imm*4 |
//!   JMP: $is+$rA*4 | JNE: $rA!=$rB ? $is+$rC*4 | JMPF/JMPB: $pc±($rA+imm+1)*4 |
//!   JNZF/JNZB: $rA!=0 ? $pc±($rB+imm+1)*4 | JNEF/JNEB: $rA!=$rB ? $pc±($rC+imm+1)*4 |
//!   JAL: $rA=$pc+4 unless $rA is $zero, THEN $pc=$rB+imm*4; reserved $rA other than $zero
//!   => ReservedRegisterNotWritable. The two JAL assignments are sequential: the Fuel
//!   specification gives the operation as `$rA = $pc + 4; $pc = $rB + imm * 4;` and the
//!   opcode doc comment in fuel-asm reads "Store return address and jump to an absolute
//!   address" (store first). So `jal r, r, imm` with a writable r lands at ($pc+4)+imm*4
//!   (enforced; layouts (0x10,0x10) and (0x3f,0x3f) x ALL imm12, letter `jal.self`).
//!   Taken, 0 <= target <= MEM-4: Proceed, $pc == target, link stored, every other
//!   register (except $cgas/$ggas) unchanged. Taken, target < 0 or >= MEM: panic
//!   MemoryOverflow. MEM-3..MEM-1: don't-care (either). Untaken: Proceed, $pc+4, all
//!   other registers unchanged.
//!   Fetch: $pc outside [$is,$ssp) => the instruction there is NOT executed and the step
//!   panics MemoryNotExecutable (or, when the 4 bytes are not allocated memory, also
//!   MemoryOverflow / UninitalizedMemoryAccess); aligned $pc inside the region holding the
//!   marker => executed. Non-jump opcode + Proceed => $pc+4 (CALL exempt: C34).

#[path = "../progkit.rs"]
mod progkit;

use fuel_asm::{
    op,
    Instruction,
    PanicReason,
    RegId,
};
use progkit::{
    World,
    WorldCfg,
};
use std::collections::{
    BTreeMap,
    BTreeSet,
    HashSet,
};
use vcore::{
    json,
    run::hash64,
    run_check,
    space,
    vmkit::{
        self,
        Step,
        Vm,
        REGS,
    },
    Ctx,
    Level,
    Value,
};

// ------------------------------------------------------------------ constants

/// VM_MAX_RAM (64 MiB); cross-checked against fuel_vm::consts in `sanity`.
const MEM: u64 = 1 << 26;
const R_ZERO: usize = 0x00;
const R_ONE: usize = 0x01;
const R_PC: usize = 0x03;
const R_SSP: usize = 0x04;
const R_SP: usize = 0x05;
const R_FP: usize = 0x06;
const R_HP: usize = 0x07;
const R_GGAS: usize = 0x09;
const R_CGAS: usize = 0x0a;
const R_IS: usize = 0x0c;
const FIRST_WRITABLE: u8 = 0x10;
const GAS: u64 = 1_000_000;

fn is_gas(i: usize) -> bool {
    i == R_GGAS || i == R_CGAS
}

// ------------------------------------------------------------------ opcode table

#[derive(Clone, Copy, PartialEq, Eq, Debug, Hash)]
enum Form {
    /// imm24
    I24,
    /// rA, rB, imm12
    Rri12,
    /// rA, imm18
    Ri18,
    /// rA
    R,
    /// rA, rB, rC
    Rrr,
    /// rA, rB, rC, imm06
    Rrri6,
}

#[allow(clippy::upper_case_acronyms)]
#[derive(Clone, Copy, PartialEq, Eq, Debug, Hash, PartialOrd, Ord)]
enum Op {
    JI,
    JNEI,
    JNZI,
    JMP,
    JNE,
    JMPF,
    JMPB,
    JNZF,
    JNZB,
    JNEF,
    JNEB,
    JAL,
}
const N_OPS: usize = 12;

/// (op, mnemonic, opcode byte, argument form) from the `impl_instructions!` table of
/// fuel-asm/src/lib.rs; cross-checked against `fuel_asm::Opcode` at start-up.
const OPS: [(Op, &str, u8, Form); N_OPS] = [
    (Op::JI, "JI", 0x90, Form::I24),
    (Op::JNEI, "JNEI", 0x5b, Form::Rri12),
    (Op::JNZI, "JNZI", 0x73, Form::Ri18),
    (Op::JMP, "JMP", 0x4a, Form::R),
    (Op::JNE, "JNE", 0x4b, Form::Rrr),
    (Op::JMPF, "JMPF", 0x74, Form::Ri18),
    (Op::JMPB, "JMPB", 0x75, Form::Ri18),
    (Op::JNZF, "JNZF", 0x76, Form::Rri12),
    (Op::JNZB, "JNZB", 0x77, Form::Rri12),
    (Op::JNEF, "JNEF", 0x78, Form::Rrri6),
    (Op::JNEB, "JNEB", 0x79, Form::Rrri6),
    (Op::JAL, "JAL", 0x99, Form::Rri12),
];

fn info(op: Op) -> (&'static str, u8, Form) {
    let e = &OPS[op as usize];
    (e.1, e.2, e.3)
}

fn op_by_name(n: &str) -> Option<Op> {
    OPS.iter().find(|e| e.1 == n).map(|e| e.0)
}

/// One jump instruction: opcode and its fields (unused fields are zero).
#[derive(Clone, Copy, Debug, PartialEq, Eq)]
struct Jump {
    op: Op,
    a: u8,
    b: u8,
    c: u8,
    imm: u32,
}

impl Jump {
    fn new(op: Op) -> Jump {
        Jump { op, a: 0, b: 0, c: 0, imm: 0 }
    }

    /// 32-bit word: opcode byte, then 6-bit register ids from the top, immediate in the
    /// low bits, unused bits zero.
    fn raw(&self) -> u32 {
        let (_, code, form) = info(self.op);
        let (a, b, c) = (self.a as u32 & 63, self.b as u32 & 63, self.c as u32 & 63);
        let args = match form {
            Form::I24 => self.imm & 0xff_ffff,
            Form::Rri12 => a << 18 | b << 12 | (self.imm & 0xfff),
            Form::Ri18 => a << 18 | (self.imm & 0x3_ffff),
            Form::R => a << 18,
            Form::Rrr => a << 18 | b << 12 | c << 6,
            Form::Rrri6 => a << 18 | b << 12 | c << 6 | (self.imm & 0x3f),
        };
        (code as u32) << 24 | args
    }

    /// Inverse of `raw` for the jump opcodes; None for every other word (including jump
    /// opcodes with non-zero reserved bits, whose treatment belongs to C08).
    fn decode(raw: u32) -> Option<Jump> {
        let code = (raw >> 24) as u8;
        let e = OPS.iter().find(|e| e.2 == code)?;
        let (a, b, c) = (((raw >> 18) & 63) as u8, ((raw >> 12) & 63) as u8, ((raw >> 6) & 63) as u8);
        let j = match e.3 {
            Form::I24 => Jump { op: e.0, a: 0, b: 0, c: 0, imm: raw & 0xff_ffff },
            Form::Rri12 => Jump { op: e.0, a, b, c: 0, imm: raw & 0xfff },
            Form::Ri18 => Jump { op: e.0, a, b: 0, c: 0, imm: raw & 0x3_ffff },
            Form::R => Jump { op: e.0, a, b: 0, c: 0, imm: 0 },
            Form::Rrr => Jump { op: e.0, a, b, c, imm: 0 },
            Form::Rrri6 => Jump { op: e.0, a, b, c, imm: raw & 0x3f },
        };
        if j.raw() == raw {
            Some(j)
        } else {
            None
        }
    }
}

// ------------------------------------------------------------------ reference

struct JRef {
    taken: bool,
    /// admissible targets as mathematical integers (currently always exactly one)
    targets: [Option<i128>; 2],
    /// JAL: writable register that must receive $pc + 4
    link: Option<usize>,
    /// JAL whose link register is reserved and not $zero
    reserved: bool,
}

/// The specification of the 12 jumps (see the header), evaluated on the register file
/// observed before the instruction.
fn jump_ref(j: &Jump, pre: &[u64; REGS]) -> JRef {
    let r = |i: u8| pre[i as usize] as i128;
    let imm = j.imm as i128;
    let pc = pre[R_PC] as i128;
    let is = pre[R_IS] as i128;
    let (a, b, c) = (j.a, j.b, j.c);
    let plain = |taken: bool, t: i128| JRef { taken, targets: [Some(t), None], link: None, reserved: false };
    match j.op {
        Op::JI => plain(true, is + imm * 4),
        Op::JNEI => plain(r(a) != r(b), is + imm * 4),
        Op::JNZI => plain(r(a) != 0, is + imm * 4),
        Op::JMP => plain(true, is + r(a) * 4),
        Op::JNE => plain(r(a) != r(b), is + r(c) * 4),
        Op::JMPF => plain(true, pc + (r(a) + imm + 1) * 4),
        Op::JMPB => plain(true, pc - (r(a) + imm + 1) * 4),
        Op::JNZF => plain(r(a) != 0, pc + (r(b) + imm + 1) * 4),
        Op::JNZB => plain(r(a) != 0, pc - (r(b) + imm + 1) * 4),
        Op::JNEF => plain(r(a) != r(b), pc + (r(c) + imm + 1) * 4),
        Op::JNEB => plain(r(a) != r(b), pc - (r(c) + imm + 1) * 4),
        Op::JAL => {
            let t = r(b) + imm * 4;
            if a as usize == R_ZERO {
                plain(true, t)
            } else if a < FIRST_WRITABLE {
                JRef { taken: true, targets: [Some(t), None], link: None, reserved: true }
            } else {
                // the assignments are sequential (`$rA = $pc + 4; $pc = $rB + imm * 4`):
                // with link register == target register the target uses the stored value
                let t = if a == b { pc + 4 + imm * 4 } else { t };
                JRef { taken: true, targets: [Some(t), None], link: Some(a as usize), reserved: false }
            }
        }
    }
}

#[derive(Clone, Copy, PartialEq, Eq, Debug)]
enum Tgt {
    /// a whole instruction fits at the target
    In(u64),
    /// MEM-3 ..= MEM-1: address inside memory, instruction not entirely (don't-care)
    Edge(u64),
    Out,
}

fn classify(t: i128) -> Tgt {
    if t < 0 || t >= MEM as i128 {
        Tgt::Out
    } else if t <= (MEM - 4) as i128 {
        Tgt::In(t as u64)
    } else {
        Tgt::Edge(t as u64)
    }
}

fn unchanged_except(pre: &[u64; REGS], post: &[u64; REGS], skip: &[usize]) -> Option<String> {
    for i in 0..REGS {
        if is_gas(i) || skip.contains(&i) {
            continue
        }
        if pre[i] != post[i] {
            return Some(format!("register {i:#04x} changed {:#x} -> {:#x}", pre[i], post[i]))
        }
    }
    None
}

/// Checks of a taken jump that must land at `t`.
fn landed(j: &Jump, link: Option<usize>, t: u64, pre: &[u64; REGS], step: &Step, post: &[u64; REGS]) -> Option<(&'static str, String)> {
    if *step != Step::Proceed {
        return Some(("taken:expected_land", format!("target {t:#x} is inside memory, expected $pc = target but observed {}", step.label())))
    }
    if post[R_PC] != t {
        return Some(("taken:pc", format!("$pc expected {t:#x}, observed {:#x}", post[R_PC])))
    }
    let mut skip = vec![R_PC];
    if let Some(l) = link {
        let want = pre[R_PC] + 4;
        if post[l] != want {
            return Some(("link", format!("link register {l:#04x} expected $pc+4 = {want:#x}, observed {:#x}", post[l])))
        }
        skip.push(l);
    }
    let _ = j;
    unchanged_except(pre, post, &skip).map(|w| ("taken:other_register", w))
}

fn taken_at(j: &Jump, link: Option<usize>, t: i128, pre: &[u64; REGS], step: &Step, post: &[u64; REGS]) -> Option<(&'static str, String)> {
    let overflow = *step == Step::Panic(PanicReason::MemoryOverflow);
    match classify(t) {
        Tgt::Out => {
            if overflow {
                None
            } else {
                let obs = if *step == Step::Proceed { format!("proceed with $pc = {:#x}", post[R_PC]) } else { step.label() };
                Some(("taken:expected_panic", format!("target {t:#x} is outside memory, expected panic MemoryOverflow but observed {obs}")))
            }
        }
        Tgt::In(t) => landed(j, link, t, pre, step, post),
        Tgt::Edge(t) => {
            if overflow {
                None
            } else {
                landed(j, link, t, pre, step, post)
            }
        }
    }
}

/// First disagreement between the observed step and the reference: (aspect, description).
fn judge_jump(j: &Jump, pre: &[u64; REGS], step: &Step, post: &[u64; REGS]) -> Option<(&'static str, String)> {
    let e = jump_ref(j, pre);
    if let Step::HostPanic(m) = step {
        return Some(("host_panic", format!("the interpreter unwound: {m}")))
    }
    if e.reserved {
        let t = e.targets[0].expect("target");
        let ok = match step {
            Step::Panic(PanicReason::ReservedRegisterNotWritable) => true,
            Step::Panic(PanicReason::MemoryOverflow) => !matches!(classify(t), Tgt::In(_)),
            _ => false,
        };
        if !ok {
            return Some(("reserved_link", format!("link register {:#04x} is reserved: expected panic ReservedRegisterNotWritable, observed {}", j.a, step.label())))
        }
        return None
    }
    if !e.taken {
        if *step != Step::Proceed {
            return Some(("untaken:outcome", format!("condition false: expected to proceed, observed {}", step.label())))
        }
        let want = pre[R_PC] + 4;
        if post[R_PC] != want {
            return Some(("untaken:pc", format!("condition false: $pc expected {want:#x}, observed {:#x}", post[R_PC])))
        }
        return unchanged_except(pre, post, &[R_PC]).map(|w| ("untaken:other_register", w))
    }
    let first = taken_at(j, e.link, e.targets[0].expect("target"), pre, step, post);
    match (first, e.targets[1]) {
        (None, _) => None,
        (Some(f), None) => Some(f),
        (Some(f), Some(alt)) => taken_at(j, e.link, alt, pre, step, post).map(|_| f),
    }
}

// ------------------------------------------------------------------ part 1: cases

#[derive(Clone, Copy, Debug)]
struct Case {
    place: u8,
    j: Jump,
    sets: [(u8, u64); 3],
    nsets: u8,
}

impl Case {
    fn new(place: usize, op: Op) -> Case {
        Case { place: place as u8, j: Jump::new(op), sets: [(0, 0); 3], nsets: 0 }
    }

    /// Load `v` into register `r` before the instruction (system registers keep their
    /// natural value).
    fn set(mut self, r: u8, v: u64) -> Case {
        if r >= FIRST_WRITABLE {
            self.sets[self.nsets as usize] = (r, v);
            self.nsets += 1;
        }
        self
    }

    fn sets(&self) -> &[(u8, u64)] {
        &self.sets[..self.nsets as usize]
    }

    fn to_json(&self, places: &[Place]) -> Value {
        json!({
            "part": 1, "placement": places[self.place as usize].name,
            "op": info(self.j.op).0, "a": self.j.a, "b": self.j.b, "c": self.j.c, "imm": self.j.imm,
            "sets": self.sets().iter().map(|(r, v)| json!([r, v])).collect::<Vec<_>>(),
            "raw": format!("{:#010x}", self.j.raw()),
        })
    }

    fn from_json(v: &Value, places: &[Place]) -> Case {
        let name = v["placement"].as_str().expect("placement");
        let place = places.iter().position(|p| p.name == name).expect("known placement");
        let mut c = Case::new(place, op_by_name(v["op"].as_str().expect("op")).expect("known op"));
        c.j.a = v["a"].as_u64().expect("a") as u8;
        c.j.b = v["b"].as_u64().expect("b") as u8;
        c.j.c = v["c"].as_u64().expect("c") as u8;
        c.j.imm = v["imm"].as_u64().expect("imm") as u32;
        for s in v["sets"].as_array().expect("sets") {
            c = c.set(s[0].as_u64().expect("reg") as u8, s[1].as_u64().expect("val"));
        }
        c
    }
}

/// A prepared VM with `$pc` placed; `$is`, `$ssp` are the VM's own.
struct Place {
    name: &'static str,
    vm: Vm,
    pc: u64,
    is: u64,
    ssp: u64,
    /// register words B(p), simplest first (fixed recipe: same length for every placement)
    b: Vec<u64>,
    /// B(p) plus byte-address words for JAL
    bjal: Vec<u64>,
    /// reduced set for the full imm18 sweeps of the quick tier
    bred: Vec<u64>,
    /// imm24 boundary + stride set
    i24: Vec<u32>,
}

const W62: u64 = 1 << 62;

fn words_for(pc: u64, is: u64) -> Vec<u64> {
    let mut v: Vec<u64> = vec![0, 1, 2, 3, 4, 5, 7, 8, 63, 64, 0xfff, 0x1000, 0x3_ffff, 0x4_0000];
    // instruction-count edges of memory for the three addressing modes
    let (qa, qf, qb) = ((MEM - is) / 4, (MEM - pc) / 4, pc / 4);
    for q in [qa, qf, qb, (pc - is) / 4] {
        v.extend([q.wrapping_sub(2), q.wrapping_sub(1), q, q + 1]);
    }
    v.extend([(1 << 24) - 1, 1 << 24, (1 << 24) + 1, MEM - 1, MEM, MEM + 1]);
    v.extend([(1 << 31) - 1, 1 << 32, (1 << 32) + 1, 1 << 61, W62 - 1, W62, W62 + 1, W62 + 2]);
    // x*4 wraps to a small multiple / is + x*4 wraps back into memory
    v.extend([W62 - is / 4, W62 - is / 4 + 1, W62 - pc / 4, W62 - pc / 4 + 1, W62 + qb, W62 + qb + 1]);
    v.extend([1 << 63, (1 << 63) + 1, u64::MAX / 4 - 1, u64::MAX / 4, u64::MAX / 4 + 1]);
    v.extend([u64::MAX - 4096, u64::MAX - 4, u64::MAX - 1, u64::MAX, 0x0102_0304_0506_0708]);
    v
}

fn words_jal(pc: u64, is: u64, ssp: u64) -> Vec<u64> {
    let mut v = vec![is, is + 4, pc - 4, pc, pc + 1, pc + 2, pc + 4, ssp - 4, ssp, ssp + 4];
    v.extend((MEM - 16400..MEM - 16380).step_by(4)); // +4095*4 crosses MEM
    v.extend([MEM - 12, MEM - 8, MEM - 7, MEM - 5, MEM - 4, MEM - 3, MEM - 2, MEM - 1, MEM, MEM + 1, MEM + 4]);
    // rB + imm*4 wraps around 2^64
    v.extend([u64::MAX - 16383, u64::MAX - 16379, u64::MAX - 7, u64::MAX - 3, u64::MAX - 2]);
    v.extend(words_for(pc, is));
    v
}

fn words_red(pc: u64, is: u64) -> Vec<u64> {
    let qf = (MEM - pc) / 4;
    let _ = is;
    vec![0, 1, qf - 0x2_0000, W62, W62 - pc / 4, u64::MAX / 4 + 1, u64::MAX - 1, u64::MAX]
}

fn imm24_set(is: u64) -> Vec<u32> {
    let mut s: BTreeSet<u32> = (0..1u32 << 14).collect();
    let q = ((MEM - is) / 4) as u32;
    s.extend(q - 64..=(q + 64).min(0xff_ffff));
    for k in 14..24 {
        s.extend([(1u32 << k) - 1, 1 << k, (1 << k) + 1]);
    }
    s.extend((0..1u32 << 24).step_by(1021));
    s.extend([0xff_fffe, 0xff_ffff]);
    s.into_iter().collect()
}

fn imm12_boundary() -> Vec<u32> {
    vec![0, 1, 2, 3, 7, 8, 63, 64, 255, 256, 1023, 1024, 2047, 2048, 4094, 4095]
}

fn imm18_boundary() -> Vec<u32> {
    vec![0, 1, 2, 3, 63, 64, 4095, 4096, 4097, 65535, 65536, 131071, 131072, 0x2_aaaa, 0x3_fffe, 0x3_ffff]
}

/// Condition operand values and pairs, simplest first.
const CV: [u64; 8] = [0, 1, 2, 1 << 32, 1 << 63, u64::MAX - 1, u64::MAX, 0x0102_0304_0506_0708];

fn digits<const N: usize>(mut i: u64, radices: [u64; N]) -> [usize; N] {
    let mut d = [0usize; N];
    for k in 0..N {
        d[k] = (i % radices[k]) as usize;
        i /= radices[k];
    }
    d
}

// ------------------------------------------------------------------ part 1: run + judge

struct Obs {
    pre: [u64; REGS],
    post: [u64; REGS],
    step: Step,
}

fn run_case(places: &[Place], case: &Case) -> Obs {
    let mut vm = places[case.place as usize].vm.clone();
    for (r, v) in case.sets() {
        vmkit::set_reg(&mut vm, *r as usize, *v);
    }
    let pre = vmkit::regs(&vm);
    let step = vmkit::inject_raw(&mut vm, case.j.raw());
    let post = vmkit::regs(&vm);
    Obs { pre, post, step }
}

const OUTCOME_NAMES: [&str; 7] = [
    "jump:taken:landed",
    "jump:taken:panic:MemoryOverflow",
    "jump:taken:edge_target(MEM-3..MEM-1)",
    "jump:untaken:+4",
    "jump:reserved_link:panic",
    "jump:reserved_link:panic(other applicable reason)",
    "jump:other",
];

fn outcome_of(j: &Jump, o: &Obs) -> usize {
    let e = jump_ref(j, &o.pre);
    if e.reserved {
        return match o.step {
            Step::Panic(PanicReason::ReservedRegisterNotWritable) => 4,
            Step::Panic(_) => 5,
            _ => 6,
        }
    }
    if !e.taken {
        return if o.step == Step::Proceed { 3 } else { 6 }
    }
    match (classify(e.targets[0].expect("target")), &o.step) {
        (Tgt::Edge(_), _) => 2,
        (_, Step::Proceed) => 0,
        (_, Step::Panic(PanicReason::MemoryOverflow)) => 1,
        _ => 6,
    }
}

fn describe(case: &Case, o: &Obs, places: &[Place]) -> String {
    let srcs: Vec<String> = case.sets().iter().map(|(r, v)| format!("r{r:#04x}={v:#x}")).collect();
    format!(
        "{} raw={:#010x} a={:#04x} b={:#04x} c={:#04x} imm={:#x} @{} $is={:#x} $pc={:#x} [{}]",
        info(case.j.op).0,
        case.j.raw(),
        case.j.a,
        case.j.b,
        case.j.c,
        case.j.imm,
        places[case.place as usize].name,
        o.pre[R_IS],
        o.pre[R_PC],
        srcs.join(" ")
    )
}

fn key_of(part: &str, op: Op, aspect: &str) -> String {
    format!("C25:{part}:{}:{aspect}", info(op).0)
}

struct Acc {
    outcomes: [u64; 7],
    per_op: [u64; N_OPS],
    fps: HashSet<u64>,
    viols: BTreeMap<String, (Value, String, u64)>,
    panic_pc_kept: u64,
    panic_pc_moved: u64,
    n: u64,
}

impl Acc {
    fn new() -> Acc {
        Acc { outcomes: [0; 7], per_op: [0; N_OPS], fps: HashSet::new(), viols: BTreeMap::new(), panic_pc_kept: 0, panic_pc_moved: 0, n: 0 }
    }
}

fn bitlen(v: u64) -> u32 {
    64 - v.leading_zeros()
}

fn eval(places: &[Place], case: &Case, acc: &mut Acc) {
    let o = run_case(places, case);
    acc.n += 1;
    acc.per_op[case.j.op as usize] += 1;
    let oc = outcome_of(&case.j, &o);
    acc.outcomes[oc] += 1;
    if let Some((aspect, what)) = judge_jump(&case.j, &o.pre, &o.step, &o.post) {
        let e = acc
            .viols
            .entry(key_of("jump", case.j.op, aspect))
            .or_insert_with(|| (case.to_json(places), format!("{}: {}", describe(case, &o, places), what), 0));
        e.2 += 1;
    }
    match &o.step {
        Step::Proceed => {
            // non-trivial = executed without panic; fingerprint = behaviour class
            let delta = o.post[R_PC] as i128 - o.pre[R_PC] as i128;
            acc.fps.insert(hash64(&(
                case.j.op as u8,
                case.place,
                oc as u8,
                delta.signum() as i8,
                bitlen(delta.unsigned_abs() as u64),
                bitlen(case.j.imm as u64),
                case.j.a < FIRST_WRITABLE,
                case.j.b < FIRST_WRITABLE,
            )));
        }
        Step::Panic(_) => {
            if o.post[R_PC] == o.pre[R_PC] {
                acc.panic_pc_kept += 1;
            } else {
                acc.panic_pc_moved += 1;
            }
        }
        _ => {}
    }
}

struct Totals {
    viol_counts: BTreeMap<String, u64>,
    spaces: Vec<Value>,
    per_op: [u64; N_OPS],
    panic_pc_kept: u64,
    panic_pc_moved: u64,
}

fn run_space(ctx: &Ctx, places: &[Place], totals: &mut Totals, name: &str, desc: &str, n: u64, at: impl Fn(u64) -> Case + Sync) {
    if ctx.out_of_time() {
        ctx.cap(format!("time budget used up before space '{name}' ({n} cases skipped)"));
        return
    }
    let t0 = ctx.elapsed();
    let mut outcomes = [0u64; 7];
    let mut done = 0u64;
    const SLICE: u64 = 1 << 22;
    let mut lo = 0u64;
    while lo < n {
        if lo > 0 && ctx.out_of_time() {
            ctx.cap(format!("time budget used up inside space '{name}' after {lo} of {n} cases"));
            break
        }
        let len = SLICE.min(n - lo);
        space::par_chunks(
            len,
            8192,
            Acc::new,
            |i, acc: &mut Acc| {
                let case = at(lo + i);
                eval(places, &case, acc);
            },
            |acc| {
                done += acc.n;
                for (i, c) in acc.outcomes.iter().enumerate() {
                    outcomes[i] += c;
                }
                ctx.fps_merge(acc.fps);
                for (key, (case, what, cnt)) in acc.viols {
                    ctx.violation(key.clone(), what, case);
                    *totals.viol_counts.entry(key).or_insert(0) += cnt;
                }
                totals.panic_pc_kept += acc.panic_pc_kept;
                totals.panic_pc_moved += acc.panic_pc_moved;
                for (k, v) in acc.per_op.iter().enumerate() {
                    totals.per_op[k] += v;
                }
            },
        );
        lo += len;
    }
    ctx.evals(done);
    let mut h = serde_json::Map::new();
    for (i, c) in outcomes.iter().enumerate() {
        if *c > 0 {
            ctx.outcome(OUTCOME_NAMES[i], *c);
            h.insert(OUTCOME_NAMES[i].to_string(), json!(c));
        }
    }
    totals.spaces.push(json!({
        "space": name, "what": desc, "cases": done, "outcomes": Value::Object(h),
        "wall_s": ((ctx.elapsed() - t0) * 100.0).round() / 100.0,
    }));
}

// ------------------------------------------------------------------ part 1: placements + spaces

const SCRIPT_NOOPS: usize = 30;

fn part1_world() -> World {
    let mut code_a = vec![op::noop(); 16];
    code_a.push(op::ret(RegId::ONE));
    World::new(WorldCfg { code_a, ..WorldCfg::default() })
}

fn make_places(all: bool) -> Vec<Place> {
    let w = part1_world();
    let mut body = vec![op::noop(); SCRIPT_NOOPS];
    body.push(op::call(progkit::r::CALL_A, RegId::ZERO, progkit::r::ASSET_BASE, RegId::CGAS));
    body.push(op::ret(RegId::ONE));
    let script = w.vm_after_prelude(&body, GAS);
    let mut call = script.clone();
    let mut n = 0;
    while vmkit::reg(&call, RegId::FP) == 0 {
        assert_eq!(vmkit::step(&mut call), Step::Proceed, "script must reach the call");
        n += 1;
        assert!(n < 100, "contract A not entered");
    }
    let sis = vmkit::reg(&script, RegId::IS);
    let sssp = vmkit::reg(&script, RegId::SSP);
    let cis = vmkit::reg(&call, RegId::IS);
    let last_instr = sis + 4 * (w.body_start() + SCRIPT_NOOPS + 1) as u64;
    let mut specs: Vec<(&'static str, &Vm, u64)> = vec![
        ("script_start", &script, sis),
        ("script_mid", &script, sis + 80),
        ("script_last_executable_word", &script, sssp - 4),
        ("contract_mid", &call, cis + 12),
    ];
    if all {
        specs.push(("script_last_instruction", &script, last_instr));
        specs.push(("contract_start", &call, cis));
    }
    let mut places = specs
        .into_iter()
        .map(|(name, vm, pc)| {
            let mut vm = vm.clone();
            vmkit::set_reg(&mut vm, R_PC, pc);
            let (is, ssp) = (vmkit::reg(&vm, RegId::IS), vmkit::reg(&vm, RegId::SSP));
            Place { name, vm, pc, is, ssp, b: words_for(pc, is), bjal: words_jal(pc, is, ssp), bred: words_red(pc, is), i24: imm24_set(is) }
        })
        .collect::<Vec<_>>();
    // equal lengths (the sets differ where windows overlap): pad with the largest imm24
    let m = places.iter().map(|p| p.i24.len()).max().expect("places");
    for p in places.iter_mut() {
        p.i24.resize(m, 0xff_ffff);
    }
    places
}

/// Register layouts (fields a, b, c); system registers keep their natural value.
const L_COND2: [(u8, u8); 6] = [(0x10, 0x11), (0x3f, 0x20), (0x10, 0x10), (0x00, 0x11), (0x10, 0x01), (0x0c, 0x03)];
const L_ONE: [u8; 8] = [0x10, 0x3f, 0x00, 0x01, 0x03, 0x0c, 0x04, 0x07];
/// (cond, dynamic)
const L_NZ: [(u8, u8); 6] = [(0x10, 0x11), (0x3f, 0x20), (0x10, 0x10), (0x01, 0x11), (0x10, 0x00), (0x00, 0x11)];
/// (lhs, rhs, dynamic)
const L_NE3: [(u8, u8, u8); 7] = [
    (0x10, 0x11, 0x12),
    (0x3f, 0x20, 0x31),
    (0x10, 0x11, 0x10),
    (0x10, 0x11, 0x11),
    (0x10, 0x10, 0x12),
    (0x00, 0x01, 0x12),
    (0x10, 0x11, 0x00),
];
/// (link, target)
const L_JAL: [(u8, u8); 10] = [
    (0x10, 0x11),
    (0x3f, 0x20),
    (0x00, 0x11),
    (0x10, 0x10), // link == target
    (0x10, 0x03),
    (0x3f, 0x3f), // link == target
    (0x00, 0x03),
    (0x10, 0x0c),
    (0x10, 0x00),
    (0x00, 0x04),
];

fn mk(place: usize, op: Op, a: u8, b: u8, c: u8, imm: u32) -> Case {
    let mut k = Case::new(place, op);
    k.j.a = a;
    k.j.b = b;
    k.j.c = c;
    k.j.imm = imm;
    k
}

fn part1(ctx: &Ctx, places: &[Place], t: &mut Totals) {
    let np = places.len() as u64;
    let thorough = ctx.thorough();
    let nb = places[0].b.len() as u64;
    let nbj = places[0].bjal.len() as u64;
    let nbr = places[0].bred.len() as u64;
    for p in places {
        assert_eq!((p.b.len() as u64, p.bjal.len() as u64, p.bred.len() as u64), (nb, nbj, nbr), "word recipes have a fixed length");
    }
    let i12 = imm12_boundary();
    let i18 = imm18_boundary();
    let ncv = CV.len() as u64;
    let fb = [Op::JMPF, Op::JMPB];
    let nz = [Op::JNZF, Op::JNZB];
    let ne = [Op::JNEF, Op::JNEB];

    // --- boundary spaces first: every opcode is covered before the big sweeps
    {
        let n24 = places[0].i24.len() as u64;
        let rad = [n24, np];
        run_space(ctx, places, t, "ji_boundary", "JI x imm24 {0..2^14, +-64 around (MEM-$is)/4, 2^k edges, stride 1021} x placements", rad.iter().product(), |i| {
            let d = digits(i, rad);
            mk(d[1], Op::JI, 0, 0, 0, places[d[1]].i24[d[0]])
        });
        let rad = [nb, L_ONE.len() as u64, np];
        run_space(ctx, places, t, "jmp", "JMP x B(p) x 8 source registers (writable and system) x placements", rad.iter().product(), |i| {
            let d = digits(i, rad);
            mk(d[2], Op::JMP, L_ONE[d[1]], 0, 0, 0).set(L_ONE[d[1]], places[d[2]].b[d[0]])
        });
        let rad = [nb, ncv, ncv, L_NE3.len() as u64, np];
        run_space(ctx, places, t, "jne", "JNE x CV^2 condition pairs x B(p) x 7 layouts x placements", rad.iter().product(), |i| {
            let d = digits(i, rad);
            let l = L_NE3[d[3]];
            mk(d[4], Op::JNE, l.0, l.1, l.2, 0).set(l.0, CV[d[2]]).set(l.1, CV[d[1]]).set(l.2, places[d[4]].b[d[0]])
        });
        let ncq: u64 = ctx.pick(4, ncv);
        let rad = [4096, ncq, ncq, L_COND2.len() as u64, np];
        run_space(ctx, places, t, "jnei", &format!("JNEI x ALL 4096 imm12 x (first {ncq} of CV)^2 condition pairs x 6 layouts x placements"), rad.iter().product(), |i| {
            let d = digits(i, rad);
            let l = L_COND2[d[3]];
            mk(d[4], Op::JNEI, l.0, l.1, 0, d[0] as u32).set(l.0, CV[d[2]]).set(l.1, CV[d[1]])
        });
        let rad = [i18.len() as u64, ncv, L_ONE.len() as u64, np];
        run_space(ctx, places, t, "jnzi_boundary", "JNZI x boundary imm18 x CV x 8 condition registers x placements", rad.iter().product(), |i| {
            let d = digits(i, rad);
            mk(d[3], Op::JNZI, L_ONE[d[2]], 0, 0, i18[d[0]]).set(L_ONE[d[2]], CV[d[1]])
        });
        let rad = [i18.len() as u64, nb, L_ONE.len() as u64, 2, np];
        run_space(ctx, places, t, "jmpf_jmpb_boundary", "JMPF, JMPB x boundary imm18 x B(p) x 8 source registers x placements", rad.iter().product(), |i| {
            let d = digits(i, rad);
            mk(d[4], fb[d[3]], L_ONE[d[2]], 0, 0, i18[d[0]]).set(L_ONE[d[2]], places[d[4]].b[d[1]])
        });
        let rad = [i12.len() as u64, nb, ncv, L_NZ.len() as u64, 2, np];
        run_space(ctx, places, t, "jnzf_jnzb_boundary", "JNZF, JNZB x boundary imm12 x B(p) x CV x 6 layouts x placements", rad.iter().product(), |i| {
            let d = digits(i, rad);
            let l = L_NZ[d[3]];
            mk(d[5], nz[d[4]], l.0, l.1, 0, i12[d[0]]).set(l.0, CV[d[2]]).set(l.1, places[d[5]].b[d[1]])
        });
        let ncp: u64 = ctx.pick(4, ncv);
        let rad = [64, nb, ncp, ncp, L_NE3.len() as u64, 2, np];
        run_space(ctx, places, t, "jnef_jneb", &format!("JNEF, JNEB x ALL 64 imm06 x B(p) x (first {ncp} of CV)^2 x 7 layouts x placements"), rad.iter().product(), |i| {
            let d = digits(i, rad);
            let l = L_NE3[d[4]];
            mk(d[6], ne[d[5]], l.0, l.1, l.2, d[0] as u32).set(l.0, CV[d[3]]).set(l.1, CV[d[2]]).set(l.2, places[d[6]].b[d[1]])
        });
        let rad = [i12.len() as u64, nbj, 15, np];
        run_space(ctx, places, t, "jal_reserved_boundary", "JAL x ALL 15 reserved link registers x boundary imm12 x Bjal(p) x placements", rad.iter().product(), |i| {
            let d = digits(i, rad);
            mk(d[3], Op::JAL, 1 + d[2] as u8, 0x11, 0, i12[d[0]]).set(0x11, places[d[3]].bjal[d[1]])
        });
        // dense grid: dynamic register 0..4095 x small immediates, all register forms
        let ops = [Op::JMP, Op::JNE, Op::JMPF, Op::JMPB, Op::JNZF, Op::JNZB, Op::JNEF, Op::JNEB, Op::JAL];
        let im = [0u32, 1, 2, 3, 63];
        let rad = [4096, im.len() as u64, ops.len() as u64, np];
        run_space(ctx, places, t, "dense", "9 register forms x dynamic register 0..4095 (JAL: $is + 4*that, and unaligned +1) x imm {0,1,2,3,63} x placements, condition true", rad.iter().product(), |i| {
            let d = digits(i, rad);
            let (x, op, pl) = (d[0] as u64, ops[d[2]], d[3]);
            let imm = im[d[1]];
            match op {
                Op::JMP => mk(pl, op, 0x10, 0, 0, 0).set(0x10, x + imm as u64 * 4096),
                Op::JNE => mk(pl, op, 0x01, 0x00, 0x12, 0).set(0x12, x + imm as u64 * 4096),
                Op::JMPF | Op::JMPB => mk(pl, op, 0x10, 0, 0, imm).set(0x10, x),
                Op::JNZF | Op::JNZB => mk(pl, op, 0x01, 0x11, 0, imm).set(0x11, x),
                Op::JNEF | Op::JNEB => mk(pl, op, 0x01, 0x00, 0x12, imm).set(0x12, x),
                _ => mk(pl, op, 0x10, 0x11, 0, imm).set(0x11, places[pl].is + 4 * x + (imm == 63) as u64),
            }
        });
    }
    // --- full immediate sweeps
    {
        let nlj: u64 = ctx.pick(6, L_JAL.len() as u64);
        let rad = [4096, nbj, nlj, np];
        run_space(ctx, places, t, "jal", &format!("JAL x ALL 4096 imm12 x Bjal(p) x first {nlj} (link,target) layouts x placements"), rad.iter().product(), |i| {
            let d = digits(i, rad);
            let l = L_JAL[d[2]];
            mk(d[3], Op::JAL, l.0, l.1, 0, d[0] as u32).set(l.1, places[d[3]].bjal[d[1]])
        });
        let (ncond, nlay): (u64, u64) = ctx.pick((2, 2), (ncv, L_NZ.len() as u64));
        let rad = [4096, nb, ncond, nlay, 2, np];
        run_space(ctx, places, t, "jnzf_jnzb", &format!("JNZF, JNZB x ALL 4096 imm12 x B(p) x first {ncond} of CV x first {nlay} layouts x placements"), rad.iter().product(), |i| {
            let d = digits(i, rad);
            let l = L_NZ[d[3]];
            mk(d[5], nz[d[4]], l.0, l.1, 0, d[0] as u32).set(l.0, CV[d[2]]).set(l.1, places[d[5]].b[d[1]])
        });
        let (ncond, nlay): (u64, u64) = ctx.pick((3, 1), (ncv, 4));
        let rad = [1 << 18, ncond, nlay, np];
        run_space(ctx, places, t, "jnzi", &format!("JNZI x ALL 2^18 imm18 x first {ncond} of CV x first {nlay} condition registers x placements"), rad.iter().product(), |i| {
            let d = digits(i, rad);
            mk(d[3], Op::JNZI, L_ONE[d[2]], 0, 0, d[0] as u32).set(L_ONE[d[2]], CV[d[1]])
        });
        if thorough {
            let rad = [1 << 18, nb, 2, np];
            run_space(ctx, places, t, "jmpf_jmpb", "JMPF, JMPB x ALL 2^18 imm18 x B(p) x placements", rad.iter().product(), |i| {
                let d = digits(i, rad);
                mk(d[3], fb[d[2]], 0x10, 0, 0, d[0] as u32).set(0x10, places[d[3]].b[d[1]])
            });
            let rad = [1 << 24, np];
            run_space(ctx, places, t, "ji", "JI x ALL 2^24 imm24 x placements", rad.iter().product(), |i| {
                let d = digits(i, rad);
                mk(d[1], Op::JI, 0, 0, 0, d[0] as u32)
            });
            let rad = [4096, nbj, 15, np];
            run_space(ctx, places, t, "jal_reserved", "JAL x ALL 15 reserved link registers x ALL 4096 imm12 x Bjal(p) x placements", rad.iter().product(), |i| {
                let d = digits(i, rad);
                mk(d[3], Op::JAL, 1 + d[2] as u8, 0x11, 0, d[0] as u32).set(0x11, places[d[3]].bjal[d[1]])
            });
        } else {
            let rad = [1 << 18, nbr, 2, np];
            run_space(ctx, places, t, "jmpf_jmpb", "JMPF, JMPB x ALL 2^18 imm18 x reduced set Bred(p) x placements", rad.iter().product(), |i| {
                let d = digits(i, rad);
                mk(d[3], fb[d[2]], 0x10, 0, 0, d[0] as u32).set(0x10, places[d[3]].bred[d[1]])
            });
            // all imm24 at the placement inside the contract ($is far from the script's)
            let pl = places.iter().position(|p| p.name == "contract_mid").expect("contract placement");
            run_space(ctx, places, t, "ji", "JI x ALL imm24 in [0,2^21) and [2^24-2^21,2^24) at placement contract_mid", 1 << 22, |i| {
                let imm = if i < 1 << 21 { i } else { (1 << 24) - (1 << 22) + i };
                mk(pl, Op::JI, 0, 0, 0, imm as u32)
            });
        }
    }
}

// ------------------------------------------------------------------ part 2: executable region

/// Marker instruction `MOVI 0x15, 0xC25` (opcode 0x72, rA, imm18), written wherever
/// the fetched word is allocated memory; executed <=> register 0x15 receives 0xC25.
const MARK_REG: usize = 0x15;
const MARK_VAL: u64 = 0xc25;
const MARKER: u32 = 0x72 << 24 | (MARK_REG as u32) << 18 | MARK_VAL as u32;

const CTX_NAMES: [&str; 3] = ["script", "contract", "script_after_ldc"];
const CFEI: [u32; 3] = [0, 8, 64];
const ALOC_NAMES: [&str; 4] = ["0", "8", "65536", "all_but_64"];
const LDC_WORDS: usize = 6;

fn marker_ins() -> Instruction {
    Instruction::try_from(MARKER.to_be_bytes()).expect("marker is a valid instruction")
}

fn part2_world() -> World {
    let mut code_a = vec![marker_ins(); 6];
    code_a.push(op::ret(RegId::ONE));
    World::new(WorldCfg { code_a, code_b: vec![marker_ins(); LDC_WORDS], ..WorldCfg::default() })
}

#[derive(Clone, Copy, Debug, PartialEq, Eq)]
struct Scen {
    ctx: usize,
    cfei: usize,
    aloc: usize,
}

fn must_proceed(vm: &mut Vm, ins: Instruction, what: &str) {
    vmkit::set_reg(vm, R_CGAS, 1 << 40);
    vmkit::set_reg(vm, R_GGAS, 1 << 40);
    let s = vmkit::inject(vm, ins);
    assert_eq!(s, Step::Proceed, "scenario set-up instruction failed: {what}");
}

/// Build the scenario VM (deterministic). `$pc` is set per case afterwards.
fn build_scen(w: &World, s: Scen) -> Vm {
    let mut vm = match s.ctx {
        0 => {
            let mut body = vec![marker_ins(); 8];
            body.push(op::ret(RegId::ONE));
            w.vm_after_prelude(&body, GAS)
        }
        1 => {
            let body = vec![op::call(progkit::r::CALL_A, RegId::ZERO, progkit::r::ASSET_BASE, RegId::CGAS), op::ret(RegId::ONE)];
            let mut vm = w.vm_after_prelude(&body, GAS);
            assert_eq!(vmkit::step(&mut vm), Step::Proceed, "call A");
            assert!(vmkit::reg(&vm, RegId::FP) != 0, "inside contract A");
            vm
        }
        _ => {
            let body = vec![
                op::movi(0x10, (LDC_WORDS * 4) as u32),
                op::ldc(progkit::r::CALL_B, RegId::ZERO, 0x10, 0),
                marker_ins(),
                op::ret(RegId::ONE),
            ];
            let mut vm = w.vm_after_prelude(&body, GAS);
            let ssp0 = vmkit::reg(&vm, RegId::SSP);
            assert_eq!(vmkit::step(&mut vm), Step::Proceed, "movi");
            assert_eq!(vmkit::step(&mut vm), Step::Proceed, "ldc");
            assert_eq!(vmkit::reg(&vm, RegId::SSP), ssp0 + (LDC_WORDS * 4) as u64, "LDC must extend the code region");
            vm
        }
    };
    if CFEI[s.cfei] > 0 {
        must_proceed(&mut vm, op::cfei(CFEI[s.cfei]), "cfei");
    }
    let amount = match s.aloc {
        0 => 0,
        1 => 8,
        2 => 65536,
        _ => vmkit::reg(&vm, RegId::HP) - vmkit::reg(&vm, RegId::SP) - 64,
    };
    if amount > 0 {
        vmkit::set_reg(&mut vm, 0x16, amount);
        must_proceed(&mut vm, op::aloc(0x16), "aloc");
    }
    vmkit::set_reg(&mut vm, MARK_REG, 0);
    vm
}

/// `$pc` values of a scenario: every byte address in windows around the landmarks
/// (`dense`) or the landmarks and their word neighbours only.
fn positions(vm: &Vm, dense: bool, after_ldc: bool) -> Vec<u64> {
    let g = |id: RegId| vmkit::reg(vm, id);
    let (is, ssp, sp, hp) = (g(RegId::IS), g(RegId::SSP), g(RegId::SP), g(RegId::HP));
    let mut s: BTreeSet<u64> = BTreeSet::new();
    let mut win = |c: u64, lo: u64, hi: u64| {
        if dense {
            s.extend(c.saturating_sub(lo)..=c + hi);
        } else {
            s.extend([c.saturating_sub(4), c.saturating_sub(2), c, c + 2, c + 4]);
        }
    };
    win(is, 8, 16);
    win(ssp, 16, 24);
    win(sp, 8, 8);
    win(hp, 8, 8);
    win(MEM, 8, 8);
    if after_ldc {
        win(ssp - (LDC_WORDS * 4) as u64, 8, 8);
    }
    s.extend([0, 4, (is + ssp) / 8 * 4, (sp + hp) / 8 * 4, 1 << 32, 1 << 63, u64::MAX - 4, u64::MAX - 3, u64::MAX]);
    s.into_iter().collect()
}

struct Obs2 {
    pre: [u64; REGS],
    post: [u64; REGS],
    step: Step,
    /// the marker could be written at $pc (4 allocated bytes)
    marked: bool,
}

fn run_fetch(base: &Vm, pc: u64) -> Obs2 {
    let mut vm = base.clone();
    run_fetch_inplace(&mut vm, pc)
}

/// One fetch+execute at `pc` on `vm` itself; registers and the marked word are restored
/// afterwards (used where cloning the 64 MiB heap per case is too expensive; a refused
/// fetch takes `&self` and the marker instruction only writes registers).
fn run_fetch_inplace(vm: &mut Vm, pc: u64) -> Obs2 {
    let saved = vmkit::regs(vm);
    vmkit::set_reg(vm, R_PC, pc);
    let pre = vmkit::regs(vm);
    let inside = pre[R_IS] <= pc && pc < pre[R_SSP];
    // unaligned addresses inside the region are a don't-care and keep the code intact
    let mut old_word: Option<[u8; 4]> = None;
    if !(inside && pc % 4 != 0) {
        if let Ok(m) = vm.memory_mut().write_noownerchecks(pc, 4usize) {
            let mut w = [0u8; 4];
            w.copy_from_slice(m);
            old_word = Some(w);
            m.copy_from_slice(&MARKER.to_be_bytes());
        }
    }
    let step = vmkit::step(vm);
    let post = vmkit::regs(vm);
    if let Some(w) = old_word {
        if let Ok(m) = vm.memory_mut().write_noownerchecks(pc, 4usize) {
            m.copy_from_slice(&w);
        }
    }
    vm.registers_mut().copy_from_slice(&saved);
    Obs2 { pre, post, step, marked: old_word.is_some() }
}

/// Where `$pc` lies relative to the landmarks (class used in keys and histograms).
fn pc_class(pre: &[u64; REGS]) -> &'static str {
    let pc = pre[R_PC];
    let (is, ssp, sp, hp) = (pre[R_IS], pre[R_SSP], pre[R_SP], pre[R_HP]);
    if pc >= MEM {
        "beyond_memory"
    } else if pc < is {
        "below_is"
    } else if pc < ssp {
        if pc % 4 == 0 { "inside_aligned" } else { "inside_unaligned" }
    } else if pc == ssp {
        "at_ssp"
    } else if pc < sp {
        "stack_above_ssp"
    } else if pc < hp {
        "gap_sp_hp"
    } else {
        "heap"
    }
}

/// (class, description) of a disagreement with the executable-region rule.
fn judge_fetch(o: &Obs2) -> Option<(String, String)> {
    let pre = &o.pre;
    let pc = pre[R_PC];
    let inside = pre[R_IS] <= pc && pc < pre[R_SSP];
    let class = pc_class(pre);
    let ctx = format!("$pc={pc:#x} $is={:#x} $ssp={:#x} $sp={:#x} $hp={:#x}", pre[R_IS], pre[R_SSP], pre[R_SP], pre[R_HP]);
    if let Step::HostPanic(m) = &o.step {
        return Some((format!("host_panic:{class}"), format!("{ctx}: the interpreter unwound: {m}")))
    }
    let executed = o.post[MARK_REG] == MARK_VAL || o.step == Step::Proceed;
    if !inside {
        if executed {
            return Some((format!("executed_outside:{class}"), format!("{ctx}: the word at $pc was executed (step {}, marker register {:#x}) although $pc is outside [$is,$ssp)", o.step.label(), o.post[MARK_REG])))
        }
        // the 4 bytes are allocated memory iff they lie in the stack or in the heap
        let readable = pc.checked_add(4).is_some_and(|e| e <= pre[R_SP] || (pc >= pre[R_HP] && e <= MEM));
        let ok = match o.step {
            Step::Panic(PanicReason::MemoryNotExecutable) => true,
            Step::Panic(PanicReason::MemoryOverflow) | Step::Panic(PanicReason::UninitalizedMemoryAccess) => !readable,
            _ => false,
        };
        if !ok {
            return Some((format!("wrong_outcome_outside:{class}"), format!("{ctx}: expected panic MemoryNotExecutable{}, observed {}", if readable { "" } else { " (or a memory read panic)" }, o.step.label())))
        }
        return None
    }
    if pc % 4 == 0 && o.marked {
        if o.step != Step::Proceed || o.post[MARK_REG] != MARK_VAL || o.post[R_PC] != pc + 4 {
            return Some((format!("not_executed_inside:{class}"), format!("{ctx}: the instruction inside the executable region was not executed normally: step {}, marker register {:#x}, $pc {:#x}", o.step.label(), o.post[MARK_REG], o.post[R_PC])))
        }
    }
    None
}

fn fetch_case_json(s: Scen, pc: u64) -> Value {
    json!({"part": 2, "context": CTX_NAMES[s.ctx], "cfei": CFEI[s.cfei], "aloc": ALOC_NAMES[s.aloc], "pc": pc})
}

fn scen_from_json(v: &Value) -> (Scen, u64) {
    let pos = |names: &[&str], k: &str| names.iter().position(|n| Some(*n) == v[k].as_str()).expect("known name");
    let cfei = CFEI.iter().position(|c| Some(*c as u64) == v["cfei"].as_u64()).expect("cfei");
    (Scen { ctx: pos(&CTX_NAMES, "context"), cfei, aloc: pos(&ALOC_NAMES, "aloc") }, v["pc"].as_u64().expect("pc"))
}

fn part2(ctx: &Ctx) {
    let w = part2_world();
    let mut scens = vec![];
    for c in 0..3 {
        for f in 0..CFEI.len() {
            for a in 0..ALOC_NAMES.len() {
                // building the 64 MiB heap is slow: one stack extension only
                if a == 3 && f != 1 {
                    continue
                }
                scens.push(Scen { ctx: c, cfei: f, aloc: a });
            }
        }
    }
    let mut total = 0u64;
    let mut hist: BTreeMap<String, u64> = BTreeMap::new();
    let mut per_scen = vec![];
    for s in &scens {
        if ctx.out_of_time() {
            ctx.cap("time budget used up inside part 2");
            break
        }
        let mut base = build_scen(&w, *s);
        let pcs = positions(&base, true, s.ctx == 2);
        let mut res: Vec<(Obs2, Option<(String, String)>)> = Vec::new();
        if s.aloc == 3 {
            // 64 MiB heap: one VM, cases run in place one after the other
            for pc in &pcs {
                let o = run_fetch_inplace(&mut base, *pc);
                let j = judge_fetch(&o);
                res.push((o, j));
            }
        } else {
            space::par_chunks(
                pcs.len() as u64,
                16,
                Vec::new,
                |i, acc: &mut Vec<(Obs2, Option<(String, String)>)>| {
                    let o = run_fetch(&base, pcs[i as usize]);
                    let j = judge_fetch(&o);
                    acc.push((o, j));
                },
                |acc| res.extend(acc),
            );
        }
        let mut executed = 0;
        for (o, j) in res {
            total += 1;
            let label = format!("fetch:{}:{}", pc_class(&o.pre), o.step.label());
            *hist.entry(label).or_insert(0) += 1;
            if o.step == Step::Proceed {
                executed += 1;
                ctx.fp_of(&("fetch", s.ctx, s.cfei, s.aloc, o.pre[R_PC] - o.pre[R_IS], o.pre[R_SSP] - o.pre[R_PC]));
            }
            if let Some((class, what)) = j {
                ctx.violation(format!("C25:exec_region:{class}"), format!("{} cfei={} aloc={}: {what}", CTX_NAMES[s.ctx], CFEI[s.cfei], ALOC_NAMES[s.aloc]), fetch_case_json(*s, o.pre[R_PC]));
            }
        }
        per_scen.push(json!({"context": CTX_NAMES[s.ctx], "cfei": CFEI[s.cfei], "aloc": ALOC_NAMES[s.aloc], "pcs": pcs.len(), "executed": executed,
            "$is": vmkit::reg(&base, RegId::IS), "$ssp": vmkit::reg(&base, RegId::SSP), "$sp": vmkit::reg(&base, RegId::SP), "$hp": vmkit::reg(&base, RegId::HP)}));
    }
    ctx.evals(total);
    for (k, v) in &hist {
        ctx.outcome(k, *v);
    }
    ctx.set("part2_scenarios", json!(per_scen));
    ctx.set("part2_cases", json!(total));
    // one written-out sample: the word at $ssp after a stack extension
    let s = Scen { ctx: 0, cfei: 1, aloc: 1 };
    let base = build_scen(&w, s);
    let o = run_fetch(&base, vmkit::reg(&base, RegId::SSP));
    ctx.sample(json!({"case": fetch_case_json(s, o.pre[R_PC]), "observed": {"step": o.step.label(), "marker_written": o.marked, "marker_register": o.post[MARK_REG]},
        "expected": "panic MemoryNotExecutable, marker not executed", "agrees": judge_fetch(&o).is_none()}));
}

fn replay_fetch(case: &Value, ctx: &Ctx) {
    let (s, pc) = scen_from_json(case);
    let base = build_scen(&part2_world(), s);
    let o = run_fetch(&base, pc);
    if let Some((class, what)) = judge_fetch(&o) {
        ctx.violation(format!("C25:exec_region:{class}"), format!("{} cfei={} aloc={}: {what}", CTX_NAMES[s.ctx], CFEI[s.cfei], ALOC_NAMES[s.aloc]), fetch_case_json(s, pc));
    }
}

// ------------------------------------------------------------------ part 3: programs

/// Steps executed at most per program (prelude and fixed head included).
const MAX_STEPS: u64 = 64;
/// Script layout (instruction indices from $is): 0..9 progkit prelude, then HEAD, then
/// the body (k letters), then `ret $one`.
const SUB1: u16 = 10;
const SUB2: u16 = 12;
const BODY: u16 = 22;

fn head() -> Vec<Instruction> {
    vec![
        op::ji(15),                       //  9: skip the subroutines
        op::addi(0x12, 0x12, 1),          // 10: sub1
        op::jal(RegId::ZERO, 0x11, 0),    // 11:   return through the link register
        op::sub(0x13, 0x11, RegId::IS),   // 12: sub2: return with JMP (link - $is) / 4
        op::srli(0x13, 0x13, 2),          // 13
        op::jmp(0x13),                    // 14
        op::movi(0x14, 2),                // 15: loop counter
        op::addi(0x18, RegId::IS, SUB1 * 4), // 16: address of sub1
        op::addi(0x19, RegId::IS, SUB2 * 4), // 17: address of sub2
        op::movi(0x1a, BODY as u32 + 1),  // 18: instruction index of the 2nd body instruction
        op::move_(0x1c, RegId::SSP),      // 19: where LDC will append code
        op::movi(0x1d, 8),                // 20: LDC length
        op::noop(),                       // 21
    ]
}

fn letters() -> Vec<progkit::Letter> {
    use progkit::{letter, r};
    let z = RegId::ZERO;
    let one = RegId::ONE;
    vec![
        letter("noop", vec![op::noop()]),
        letter("inc", vec![op::addi(0x10, 0x10, 1)]),
        letter("dec", vec![op::subi(0x14, 0x14, 1)]),
        letter("jnzb.1", vec![op::jnzb(0x14, z, 0)]),
        letter("jmpf.1", vec![op::jmpf(z, 0)]),
        letter("jal.sub1", vec![op::jal(0x11, 0x18, 0)]),
        letter("ji.body+1", vec![op::ji(BODY as u32 + 1)]),
        letter("jnzb.2", vec![op::jnzb(0x14, z, 1)]),
        letter("jnzb.r", vec![op::jnzb(0x14, one, 0)]),
        letter("jmpb.1", vec![op::jmpb(z, 0)]),
        letter("jmpf.r", vec![op::jmpf(one, 0)]),
        letter("jnzf", vec![op::jnzf(0x10, z, 0)]),
        letter("jnef", vec![op::jnef(0x10, 0x14, z, 0)]),
        letter("jneb", vec![op::jneb(0x10, 0x14, z, 0)]),
        letter("jal.sub2", vec![op::jal(0x11, 0x19, 0)]),
        letter("jal.sub1+1", vec![op::jal(0x11, 0x18, 1)]),
        letter("jnei", vec![op::jnei(0x10, 0x14, BODY + 2)]),
        letter("jnzi", vec![op::jnzi(0x14, BODY as u32)]),
        letter("jmp", vec![op::jmp(0x1a)]),
        letter("jne", vec![op::jne(0x10, z, 0x1a)]),
        letter("call.A", vec![op::call(r::CALL_A, z, r::ASSET_BASE, RegId::CGAS)]),
        letter("ldc.B", vec![op::ldc(r::CALL_B, z, 0x1d, 0)]),
        letter("jal.loaded", vec![op::jal(0x11, 0x1c, 0)]),
        letter("cfei", vec![op::cfei(8)]),
        letter("jal.pc", vec![op::jal(z, RegId::PC, 2)]),
        letter("jal.self", vec![op::jal(0x11, 0x11, 1)]), // link == target: lands at ($pc+4)+4
        letter("ret", vec![op::ret(one)]),
    ]
}

fn part3_world() -> World {
    // contract A loops, jumps absolutely (from ITS $is) and links internally
    let code_a = vec![
        op::movi(0x10, 2),              // 0
        op::subi(0x10, 0x10, 1),        // 1
        op::jnzb(0x10, RegId::ZERO, 0), // 2: back to 1 while != 0
        op::ji(5),                      // 3
        op::rvrt(RegId::ONE),           // 4: skipped
        op::jal(0x11, RegId::PC, 2),    // 5: to 7, link = 6
        op::ret(RegId::ONE),            // 6
        op::jal(RegId::ZERO, 0x11, 0),  // 7: back to 6
    ];
    // blob appended by LDC: a subroutine returning through the link register
    let code_b = vec![op::addi(0x12, 0x12, 16), op::jal(RegId::ZERO, 0x11, 0)];
    World::new(WorldCfg { code_a, code_b, ..WorldCfg::default() })
}

fn opcode_name(byte: u8) -> String {
    match fuel_asm::Opcode::try_from(byte) {
        Ok(o) => format!("{o:?}"),
        Err(_) => format!("invalid_{byte:#04x}"),
    }
}

/// Context-switching instructions whose `$pc` effect is specified by C34, not here.
const EXEMPT: [u8; 1] = [0x2d]; // CALL

#[derive(Default)]
struct ProgStats {
    /// opcode name -> steps that proceeded with $pc + 4 verified
    plus4: BTreeMap<String, u64>,
    /// "OP:taken"/"OP:untaken"/"OP:panic" -> count
    jumps: BTreeMap<String, u64>,
    fetch_refused: u64,
    steps: u64,
    steps_in_call: u64,
}

struct ProgResult {
    /// (key, description) of the first disagreement
    violation: Option<(String, String)>,
    trace: Vec<u64>,
    last: String,
    taken_landed: u64,
    capped: bool,
}

fn run_program(w: &World, body: &[Instruction], stats: &mut ProgStats) -> ProgResult {
    let mut all = head();
    all.extend_from_slice(body);
    all.push(op::ret(RegId::ONE));
    let mut vm = w.vm(w.script_bytes(&all), GAS);
    let mut res = ProgResult { violation: None, trace: vec![], last: String::new(), taken_landed: 0, capped: false };
    let mut n = 0u64;
    loop {
        let pre = vmkit::regs(&vm);
        let pc = pre[R_PC];
        let inside = pre[R_IS] <= pc && pc < pre[R_SSP];
        let word: Option<u32> = vm.memory().read_bytes::<_, 4>(pc).ok().map(u32::from_be_bytes);
        let (step, in_call) = vmkit::step_ctx(&mut vm);
        let post = vmkit::regs(&vm);
        n += 1;
        stats.steps += 1;
        stats.steps_in_call += in_call as u64;
        res.trace.push(pc);
        res.last = step.label();
        let at = format!("step {n} at instruction index {} ($pc={pc:#x} $is={:#x})", (pc as i128 - pre[R_IS] as i128) / 4, pre[R_IS]);
        if let Step::HostPanic(m) = &step {
            res.violation = Some(("C25:prog:host_panic".into(), format!("{at}: the interpreter unwound: {m}")));
            return res
        }
        if !inside {
            stats.fetch_refused += 1;
            let readable = pc.checked_add(4).is_some_and(|e| e <= pre[R_SP] || (pc >= pre[R_HP] && e <= MEM));
            let ok = match step {
                Step::Panic(PanicReason::MemoryNotExecutable) => true,
                Step::Panic(PanicReason::MemoryOverflow) | Step::Panic(PanicReason::UninitalizedMemoryAccess) => !readable,
                _ => false,
            };
            if !ok {
                res.violation = Some((
                    format!("C25:prog:fetch_outside:{}", pc_class(&pre)),
                    format!("{at}: $pc is outside [$is,$ssp)=[{:#x},{:#x}); expected panic MemoryNotExecutable, observed {}", pre[R_IS], pre[R_SSP], step.label()),
                ));
            }
            return res
        }
        let word = word.expect("memory inside the executable region is readable");
        match Jump::decode(word) {
            Some(j) if pc % 4 == 0 => {
                let name = info(j.op).0;
                if let Some((aspect, what)) = judge_jump(&j, &pre, &step, &post) {
                    res.violation = Some((key_of("prog", j.op, aspect), format!("{at}: {name} raw={word:#010x}: {what}")));
                    return res
                }
                let kind = match &step {
                    Step::Proceed if jump_ref(&j, &pre).taken => {
                        res.taken_landed += 1;
                        "taken"
                    }
                    Step::Proceed => "untaken",
                    _ => "panic",
                };
                *stats.jumps.entry(format!("{name}:{kind}")).or_insert(0) += 1;
            }
            _ => {
                let code = (word >> 24) as u8;
                if step == Step::Proceed && !EXEMPT.contains(&code) {
                    if post[R_PC] != pc + 4 {
                        res.violation = Some((
                            format!("C25:prog:nonjump:{}:pc", opcode_name(code)),
                            format!("{at}: non-jump {} raw={word:#010x} succeeded but $pc went {pc:#x} -> {:#x}", opcode_name(code), post[R_PC]),
                        ));
                        return res
                    }
                    *stats.plus4.entry(opcode_name(code)).or_insert(0) += 1;
                }
            }
        }
        if vmkit::is_final(&step, in_call) {
            return res
        }
        if n >= MAX_STEPS {
            res.capped = true;
            res.last = "step_cap".into();
            return res
        }
    }
}

struct Acc3 {
    stats: ProgStats,
    fps: HashSet<u64>,
    finals: BTreeMap<String, u64>,
    viols: BTreeMap<String, (Value, String, u64)>,
    capped: u64,
    n: u64,
}

fn prog_case_json(alpha: &[progkit::Letter], seq: &[u64]) -> Value {
    json!({"part": 3, "letters": seq, "names": progkit::program_names(alpha, seq)})
}

fn part3(ctx: &Ctx) {
    let w = part3_world();
    let alpha = letters();
    let k: u32 = ctx.pick(3, 4);
    let total = space::seq_count(alpha.len() as u64, k);
    let mut stats = ProgStats::default();
    let mut finals: BTreeMap<String, u64> = BTreeMap::new();
    let (mut capped, mut done) = (0u64, 0u64);
    const SLICE: u64 = 1 << 16;
    let mut lo = 0;
    while lo < total {
        if ctx.out_of_time() {
            ctx.cap(format!("time budget used up in part 3 after {lo} of {total} programs"));
            break
        }
        let len = SLICE.min(total - lo);
        space::par_chunks(
            len,
            256,
            || Acc3 { stats: ProgStats::default(), fps: HashSet::new(), finals: BTreeMap::new(), viols: BTreeMap::new(), capped: 0, n: 0 },
            |i, acc: &mut Acc3| {
                let (seq, body) = progkit::program_at(&alpha, k, lo + i);
                let r = run_program(&w, &body, &mut acc.stats);
                acc.n += 1;
                acc.capped += r.capped as u64;
                *acc.finals.entry(format!("prog:end:{}", r.last)).or_insert(0) += 1;
                if r.taken_landed > 0 {
                    acc.fps.insert(hash64(&("prog", &r.trace)));
                }
                if let Some((key, what)) = r.violation {
                    let names = progkit::program_names(&alpha, &seq).join(" ");
                    acc.viols.entry(key).or_insert_with(|| (prog_case_json(&alpha, &seq), format!("program [{names}]: {what}"), 0)).2 += 1;
                }
            },
            |acc| {
                done += acc.n;
                capped += acc.capped;
                ctx.fps_merge(acc.fps);
                for (k, v) in acc.finals {
                    *finals.entry(k).or_insert(0) += v;
                }
                for (k, v) in acc.stats.plus4 {
                    *stats.plus4.entry(k).or_insert(0) += v;
                }
                for (k, v) in acc.stats.jumps {
                    *stats.jumps.entry(k).or_insert(0) += v;
                }
                stats.fetch_refused += acc.stats.fetch_refused;
                stats.steps += acc.stats.steps;
                stats.steps_in_call += acc.stats.steps_in_call;
                for (key, (case, what, _)) in acc.viols {
                    ctx.violation(key, what, case);
                }
            },
        );
        lo += len;
    }
    ctx.evals(done);
    for (k, v) in &finals {
        ctx.outcome(k, *v);
    }
    ctx.set(
        "part3",
        json!({
            "alphabet": alpha.iter().map(|l| l.name.clone()).collect::<Vec<_>>(),
            "k": k, "programs": done, "steps": stats.steps, "steps_inside_contract_A": stats.steps_in_call, "max_steps_per_program": MAX_STEPS, "programs_cut_at_step_cap": capped,
            "nonjump_opcodes_with_pc_plus_4_verified": stats.plus4,
            "jump_steps": stats.jumps,
            "fetches_outside_region_refused": stats.fetch_refused,
        }),
    );
    // written-out samples
    for names in [vec!["dec", "jnzb.1"], vec!["jal.self", "inc", "noop"], vec!["ldc.B", "jal.loaded"], vec!["cfei", "jal.loaded"]] {
        let seq: Vec<u64> = names.iter().map(|n| alpha.iter().position(|l| l.name == *n).expect("letter") as u64).collect();
        let body: Vec<Instruction> = seq.iter().flat_map(|i| alpha[*i as usize].ins.iter().copied()).collect();
        let r = run_program(&w, &body, &mut ProgStats::default());
        ctx.sample(json!({"case": prog_case_json(&alpha, &seq), "observed": {"instruction_index_trace_after_head": r.trace.iter().skip(BODY as usize - 5).map(|p| (*p as i128 - r.trace[0] as i128) / 4).collect::<Vec<_>>(), "end": r.last},
            "agrees": r.violation.is_none()}));
    }
}

fn replay_prog(case: &Value, ctx: &Ctx) {
    let alpha = letters();
    let seq: Vec<u64> = case["letters"].as_array().expect("letters").iter().map(|v| v.as_u64().expect("index")).collect();
    let body: Vec<Instruction> = seq.iter().flat_map(|i| alpha[*i as usize].ins.iter().copied()).collect();
    let r = run_program(&part3_world(), &body, &mut ProgStats::default());
    if let Some((key, what)) = r.violation {
        let names = progkit::program_names(&alpha, &seq).join(" ");
        ctx.violation(key, format!("program [{names}]: {what}"), prog_case_json(&alpha, &seq));
    }
}

// ------------------------------------------------------------------ explore / replay

fn sanity() {
    assert_eq!(MEM, fuel_vm::consts::VM_MAX_RAM, "memory size");
    for (op, name, code, _) in OPS.iter() {
        let oc = fuel_asm::Opcode::try_from(*code).unwrap_or_else(|_| panic!("opcode byte {code:#x} unknown"));
        assert_eq!(&format!("{oc:?}"), name, "opcode table mismatch for {op:?}");
        assert!(OPS[*op as usize].0 == *op, "OPS order");
    }
    assert_eq!(opcode_name(EXEMPT[0]), "CALL");
    assert_eq!(opcode_name((MARKER >> 24) as u8), "MOVI");
    for (id, idx) in [
        (RegId::ZERO, R_ZERO),
        (RegId::ONE, R_ONE),
        (RegId::PC, R_PC),
        (RegId::SSP, R_SSP),
        (RegId::SP, R_SP),
        (RegId::FP, R_FP),
        (RegId::HP, R_HP),
        (RegId::GGAS, R_GGAS),
        (RegId::CGAS, R_CGAS),
        (RegId::IS, R_IS),
        (RegId::WRITABLE, FIRST_WRITABLE as usize),
    ] {
        assert_eq!(id.to_u8() as usize, idx, "register index table");
    }
    // the jump opcodes of this tree are exactly the 12 of the table
    let mut jumps = vec![];
    for b in 0..=255u8 {
        if let Ok(o) = fuel_asm::Opcode::try_from(b) {
            let n = format!("{o:?}");
            if n.starts_with('J') {
                jumps.push(n);
            }
        }
    }
    let mut mine: Vec<String> = OPS.iter().map(|e| e.1.to_string()).collect();
    jumps.sort();
    mine.sort();
    assert_eq!(jumps, mine, "set of jump opcodes in fuel-asm");
    // reference self-checks on hand-computed values
    let mut pre = [0u64; REGS];
    pre[R_PC] = 1000;
    pre[R_IS] = 400;
    pre[0x10] = 3;
    pre[0x11] = 3;
    pre[0x12] = 7;
    let t = |j: Jump| {
        let e = jump_ref(&j, &pre);
        (e.taken, e.targets[0].unwrap())
    };
    assert_eq!(t(Jump { op: Op::JI, a: 0, b: 0, c: 0, imm: 5 }), (true, 420));
    assert_eq!(t(Jump { op: Op::JNEI, a: 0x10, b: 0x11, c: 0, imm: 5 }), (false, 420));
    assert_eq!(t(Jump { op: Op::JNE, a: 0x10, b: 0x12, c: 0x12, imm: 0 }), (true, 428));
    assert_eq!(t(Jump { op: Op::JMPF, a: 0x10, b: 0, c: 0, imm: 2 }), (true, 1024));
    assert_eq!(t(Jump { op: Op::JMPB, a: 0x10, b: 0, c: 0, imm: 2 }), (true, 976));
    assert_eq!(t(Jump { op: Op::JNZB, a: 0x00, b: 0x10, c: 0, imm: 0 }), (false, 984));
    assert_eq!(t(Jump { op: Op::JNEF, a: 0x10, b: 0x12, c: 0x12, imm: 1 }), (true, 1036));
    assert_eq!(t(Jump { op: Op::JAL, a: 0x13, b: 0x12, c: 0, imm: 2 }), (true, 15));
    assert_eq!(classify(-4), Tgt::Out);
    assert_eq!(classify(MEM as i128 - 4), Tgt::In(MEM - 4));
    assert_eq!(classify(MEM as i128 - 1), Tgt::Edge(MEM - 1));
    assert_eq!(classify(MEM as i128), Tgt::Out);
    for raw in [0x9000_0005u32, 0x5b41_1005, 0x4a40_0000, 0x7841_1481, 0x9941_1002] {
        assert_eq!(Jump::decode(raw).map(|j| j.raw()), Some(raw), "encode/decode");
    }
    assert_eq!(Jump::decode(0x4a40_0001), None, "reserved bits");
    assert_eq!(Jump::decode(0x1000_0000), None, "non-jump");
}

fn hexes(v: &[u64]) -> Vec<String> {
    v.iter().map(|w| format!("{w:#x}")).collect()
}

fn explore(ctx: &Ctx) {
    sanity();
    ctx.rule(
        "part 1: every element of each listed product space is one injected jump on a clone of a prepared VM, all 64 registers compared with the reference; \
         part 2: every listed $pc of every scenario is one real fetch+execute; part 3: every program <= k letters is run step by step under the reference interpreter. \
         Non-trivial = the step proceeded (jump landed / untaken / marker executed) resp. the program executed at least one taken jump; distinct = distinct \
         (opcode, placement, outcome class, direction and bit length of the $pc change, bit length of imm, register classes) | (scenario, $pc offsets) | $pc trace",
    );
    ctx.assume("$cgas/$ggas are not part of this property (C26)");
    ctx.assume("raw instruction words are built/decoded from the documented field layout (opcode byte, 6-bit register ids, imm06/12/18/24 in the low bits)");
    ctx.assume("$is and $pc take the values they really have at the placements (below MEM, word aligned); register operands and immediates are unrestricted");
    ctx.assume("JAL is sequential as in the specification's operation listing `$rA = $pc + 4; $pc = $rB + imm * 4` (fuel-asm doc: 'Store return address and jump to an absolute address'): with link register == target register (writable) the target is ($pc+4) + imm*4; the repository's own tests never use that form");
    ctx.assume("target formulas: JumpMode doc comments of flow.rs / opcode docs of fuel-asm; JNE compares its first two registers and jumps to the third (as exercised by the repository tests; the argument NAMES in fuel-asm say otherwise)");
    ctx.set(
        "dont_care",
        json!([
            "$cgas and $ggas",
            "register contents (including $pc and a JAL link register already written) after any panic",
            "taken jump whose target is MEM-3..MEM-1 (address inside memory, instruction not): land or MemoryOverflow",
            "JAL with reserved link register AND target outside memory: either ReservedRegisterNotWritable or MemoryOverflow",
            "fetch outside [$is,$ssp) from bytes that are not allocated memory: MemoryNotExecutable, MemoryOverflow or UninitalizedMemoryAccess",
            "fetch at an unaligned address inside [$is,$ssp) (anything but a host panic)",
            "$pc after CALL (C34); steps that do not proceed (RET/RETD/RVRT/panics) are not subject to the +4 rule",
            "jump opcodes with non-zero reserved bits met while executing data in part 3 (C08)",
        ]),
    );
    ctx.set("opcodes", json!(OPS.iter().map(|e| e.1).collect::<Vec<_>>()));

    part2(ctx);
    part3(ctx);

    let places = make_places(ctx.thorough());
    ctx.set(
        "placements",
        json!(places.iter().map(|p| json!({"name": p.name, "$is": p.is, "$pc": p.pc, "$ssp": p.ssp, "B": hexes(&p.b), "Bjal_extra": hexes(&p.bjal[..p.bjal.len() - p.b.len()]), "Bred": hexes(&p.bred), "imm24_set_size": p.i24.len()})).collect::<Vec<_>>()),
    );
    ctx.set("CV", json!(hexes(&CV)));
    let mut totals = Totals { viol_counts: BTreeMap::new(), spaces: vec![], per_op: [0; N_OPS], panic_pc_kept: 0, panic_pc_moved: 0 };
    part1(ctx, &places, &mut totals);
    ctx.set("part1_spaces", json!(totals.spaces));
    let mut po = serde_json::Map::new();
    for (k, v) in totals.per_op.iter().enumerate() {
        po.insert(OPS[k].1.to_string(), json!(v));
    }
    ctx.set("part1_cases_per_opcode", Value::Object(po));
    ctx.set("part1_panics", json!({"$pc_unchanged": totals.panic_pc_kept, "$pc_changed": totals.panic_pc_moved, "note": "observation only"}));
    if !totals.viol_counts.is_empty() {
        ctx.set("violation_case_counts", json!(totals.viol_counts));
    }
    // written-out samples of part 1 (members of the spaces above)
    let mid = 1;
    let p = &places[mid];
    let samples = [
        mk(mid, Op::JAL, 0x10, 0x10, 0, 3).set(0x10, p.is),
        mk(mid, Op::JMPB, 0x10, 0, 0, 0).set(0x10, p.pc / 4 - 1),
        mk(mid, Op::JMPB, 0x10, 0, 0, 0).set(0x10, p.pc / 4),
        mk(mid, Op::JMP, 0x10, 0, 0, 0).set(0x10, (MEM - p.is) / 4 - 1),
        mk(mid, Op::JMPF, 0x10, 0, 0, 3).set(0x10, W62),
        mk(mid, Op::JAL, 0x10, 0x03, 0, 5),
        mk(mid, Op::JNEF, 0x10, 0x11, 0x12, 63).set(0x10, 7).set(0x11, 7).set(0x12, 1),
    ];
    for c in samples.iter() {
        let o = run_case(&places, c);
        let e = jump_ref(&c.j, &o.pre);
        ctx.sample(json!({
            "case": c.to_json(&places),
            "observed": {"step": o.step.label(), "$pc_before": o.pre[R_PC], "$pc_after": o.post[R_PC], "link": o.post[c.j.a as usize]},
            "expected": {"taken": e.taken, "target": e.targets[0].map(|t| t.to_string()), "class": format!("{:?}", e.targets[0].map(classify))},
            "agrees": judge_jump(&c.j, &o.pre, &o.step, &o.post).is_none(),
        }));
    }
}

fn replay(case: &Value, ctx: &Ctx) {
    match case["part"].as_u64() {
        Some(1) => {
            let places = make_places(true);
            let c = Case::from_json(case, &places);
            let o = run_case(&places, &c);
            if let Some((aspect, what)) = judge_jump(&c.j, &o.pre, &o.step, &o.post) {
                ctx.violation(key_of("jump", c.j.op, aspect), format!("{}: {}", describe(&c, &o, &places), what), c.to_json(&places));
            }
        }
        Some(2) => replay_fetch(case, ctx),
        Some(3) => replay_prog(case, ctx),
        _ => panic!("unknown case part"),
    }
}

fn main() {
    run_check("C25", Level::Exploration, explore, replay)
}
