//! C34 — Calls and returns preserve the caller's frame.
//!
//! Statement (properties.jsonl): after a contract call returns (with or without data)
//! the caller resumes at the instruction after the call with all its registers restored
//! except the gas ($cgas,$ggas), return value/length ($ret,$retl) and heap pointer ($hp)
//! registers, its stack contents unchanged and the call depth back to its previous
//! value; the callee runs with its own stack region starting after the copied code, its
//! own $bal and zeroed $flag, and cannot modify the caller's stack; heap memory allocated
//! by the callee remains readable by the caller.
//!
//! Space (bounded exhaustive, two parts; every program is executed step by step on the
//! real interpreter and EVERY CALL / RET / RETD executed anywhere in it — script→A, A→B,
//! A→A at any depth — goes through the same monitor):
//!
//!  Part 1 "bodies": contract A = every sequence of length <= k (k = 2 quick, 3 thorough)
//!    over the 11-letter callee alphabet LETTERS followed by each of the 11 TERMINALS
//!    (one progkit World per body: code_a = body, code_b = fixed contract B), called by
//!    the script under every caller variant:
//!      flag/of/err variant {flag0; flag1+$err=1; flag2+$of!=0; flag3+$err=1; flag3+$of!=0}
//!      x forwarded coins {0, 1, all} of {base, X} x forwarded gas {0, GAS_SOME, all($cgas)};
//!    recursion budget (call parameter a) = 1, so the letter `rec` recurses exactly once.
//!  Part 2 "chains": contract A = [dclob, X, rec, Y, T], X,Y ∈ {ε} ∪ LETTERS\{rec},
//!    T ∈ TERMINALS, chain depth d = 1..8 (quick) / 1..24 (thorough) (call parameter
//!    a = d−1; `dclob` loads depth-dependent values into registers 0x11..0x3f and onto
//!    the own stack so that every frame of the chain is different), caller variants:
//!    the 5 flag variants x coins {0,1,all} of base x gas {GAS_SOME, all}.
//!
//!  The script (caller): progkit prelude; cfei 112 and 8 fingerprint words + a copy of
//!    the call structure (A, a, b) on its stack; aloc 16 + a word on its heap; call
//!    operands in 0x3c..0x3f; fingerprints (small / bit-inverted, all distinct) in ALL
//!    other program registers 0x10..0x3b; FLAG; optionally one instruction that leaves
//!    $err = 1 (div by zero, unsafemath) or $of != 0 (mul overflow, wrapping);
//!    CALL; `lw 0x10 $hp 0`; `ret $one`. (The script prefix up to the CALL does not depend
//!    on the callee, so it is executed once per caller variant and the VM is cloned per
//!    case, with the case's storage installed, right before the CALL.)
//!  Callee letters: clobber (movi into all 48 program registers) | cfei+write own stack |
//!    aloc 8 + write | aloc 4096 + write first/last word | flag 3 + $err | flag 2 + $of |
//!    nestB (call B forwarding $bal and all gas, then `lw $hp`) | rec (if a != 0: call
//!    self with a−1, call structure on the own stack, then `lw $hp`) | wcaller (sw at
//!    $fp−8 = top word of the caller's stack) | wbelow ($ssp−8 = last word of the own
//!    code) | wreserved (movi $fp).   Terminals: ret $one | ret value | retd from
//!    stack, len ∈ {0,1,8,33} | retd from heap, len ∈ {0,1,8,33} | rvrt.
//!  Contract B (fixed): clobbers all 48 registers, aloc 16 + writes, cfei 16 + writes,
//!    flag 3, retd 16 bytes from its heap.
//!
//! Oracle (written from the statement and the call-frame layout of the specification:
//!  to(32) ‖ asset id(32) ‖ 64 saved registers ‖ code size ‖ a ‖ b = 600 bytes, then the
//!  code zero-padded to a word). The monitor keeps its own stack of pending calls.
//!  S0 = state just before a CALL, S1 = state after the CALL step (first callee
//!  instruction not yet executed), S2 = state after the matching RET/RETD step.
//!   S1: $fp == S0.$sp; $ssp == $sp == $fp + 600 + pad8(code len); $is == $pc == $fp+600;
//!       $bal == forwarded coins; $flag == 0; memory[$is,$ssp) == deployed code ‖ zeros;
//!       frame at $fp == (to, asset id, S0 registers [except $cgas,$ggas], padded code
//!       size, a, b); stack [base, S0.$sp) unchanged; VM frame list one longer, top frame
//!       `to` == callee; context() is Call; one Call receipt with matching ids/amount.
//!   S2: $pc == S0.$pc + 4; every other register == S0 except $cgas,$ggas,$ret,$retl,$hp;
//!       RET: $ret == returned register value, $retl == 0; RETD: $ret == pointer,
//!       $retl == length, and for data on the heap memory[$ret,$ret+$retl) still holds
//!       the data; stack bytes [base, S0.$sp) identical to S0 (base = start of the
//!       script's stack, so all lower frames are included); VM frame list == S0's;
//!       context() == S0's (Script at top level, Call when nested); one Return /
//!       ReturnData receipt whose id is the callee; $hp == callee's $hp before the RET and
//!       the bytes [that $hp, S0.$hp) are readable and unchanged; the `lw r $hp 0` that
//!       follows every CALL in these programs reads exactly the word the callee left
//!       there (panic other than OutOfGas = not readable).
//!   Any `sw` executed inside a call whose target word lies entirely below the current
//!       $ssp (caller's stack, call frame, copied code) must panic MemoryOwnership.
//!   When the execution ends inside a call (panic, revert, out of gas): the stack
//!       snapshot of every pending caller is still unchanged.
//!   Script's final `ret`: Return receipt id is the zero contract id (script context).

#[path = "../progkit.rs"]
mod progkit;

use std::collections::{
    BTreeMap,
    HashSet,
};

use fuel_asm::{
    op,
    GTFArgs,
    Instruction,
    PanicReason,
    RegId,
};
use fuel_tx::Receipt;
use fuel_types::{
    AssetId,
    ContractId,
};
use fuel_vm::{
    call::CallFrame,
    context::Context,
    storage::MemoryStorage,
};
use progkit::{
    off,
    r,
    World,
    WorldCfg,
    A,
    ASSET_X,
    B,
};
use vcore::{
    json,
    run::hash64,
    run_check,
    space,
    vmkit::{
        self,
        Step,
        Vm,
    },
    Ctx,
    Level,
    Value,
};

// ------------------------------------------------------------------ constants

const GAS_LIMIT: u64 = 1_000_000;
/// "some" forwarded gas: enough for short callee bodies, not for the long ones.
const GAS_SOME: u32 = 120;

// Call-frame layout, from the specification (not from fuel_vm::call).
const FRAME: u64 = 600;
const F_ASSET: usize = 32;
const F_REGS: usize = 64;
const F_CODESIZE: usize = 576;
const F_A: usize = 584;
const F_B: usize = 592;

// Register indices.
const OF: usize = 2;
const PC: usize = 3;
const SSP: usize = 4;
const SP: usize = 5;
const FP: usize = 6;
const HP: usize = 7;
const ERR: usize = 8;
const GGAS: usize = 9;
const CGAS: usize = 10;
const BAL: usize = 11;
const IS: usize = 12;
const RET: usize = 13;
const RETL: usize = 14;
const FLAG: usize = 15;
const REG_NAMES: [&str; 16] = [
    "$zero", "$one", "$of", "$pc", "$ssp", "$sp", "$fp", "$hp", "$err", "$ggas", "$cgas", "$bal", "$is", "$ret",
    "$retl", "$flag",
];

fn reg_name(i: usize) -> String {
    if i < 16 {
        REG_NAMES[i].to_string()
    } else {
        "program-register".to_string()
    }
}

// Script registers holding the CALL operands.
const R_STRUCT: u8 = 0x3c;
const R_COINS: u8 = 0x3d;
const R_ASSET: u8 = 0x3e;
const R_GAS: u8 = 0x3f;

const BALANCES_OFFSET: usize = 64; // tx id (32) ‖ base asset id (32)
const ENTRY: usize = 40; // asset id (32) ‖ amount (8)

fn pad8(n: usize) -> usize {
    n.div_ceil(8) * 8
}

// ------------------------------------------------------------------ programs

const FLAGVARS: [&str; 5] = ["flag0", "flag1+err", "flag2+of", "flag3+err", "flag3+of"];
const COINS: [&str; 3] = ["0", "1", "all"];
const ASSETS: [&str; 2] = ["base", "X"];
const GASES: [&str; 3] = ["0", "some", "all"];

#[derive(Clone, Copy, Debug, PartialEq, Eq, Hash)]
struct Variant {
    flagvar: usize,
    coins: usize,
    asset: usize,
    gas: usize,
    /// call parameter a (recursion budget)
    budget: u32,
}

fn fingerprint_ins(reg: u8) -> Vec<Instruction> {
    let mut v = vec![op::movi(reg, 0x1000 + reg as u32)];
    if reg % 2 == 1 {
        v.push(op::not(reg, reg));
    }
    v
}

/// The caller script (after the progkit prelude); its last three instructions are
/// CALL, `lw 0x10 $hp 0`, `ret $one`.
fn script_for(v: &Variant) -> Vec<Instruction> {
    let mut s = vec![
        // own stack: 8 fingerprint words + call structure
        op::move_(0x10, RegId::SP),
        op::cfei(112),
    ];
    for i in 0..8u16 {
        s.push(op::movi(0x11, 0x3000 + i as u32));
        if i % 2 == 1 {
            s.push(op::not(0x11, 0x11));
        }
        s.push(op::sw(0x10, 0x11, i));
    }
    s.extend([
        op::addi(R_STRUCT, 0x10, 64),
        op::mcpi(R_STRUCT, r::CALL_A, 48),
        op::movi(0x11, v.budget),
        op::sw(R_STRUCT, 0x11, 4),
        // own heap
        op::movi(0x11, 16),
        op::aloc(0x11),
        op::movi(0x11, 0x7777),
        op::sw(RegId::HP, 0x11, 0),
        op::sw(RegId::HP, 0x11, 1),
    ]);
    // forwarded coins
    let slot = |i: usize| ((BALANCES_OFFSET + ENTRY * i + 32) / 8) as u16;
    s.push(match (v.coins, v.asset) {
        (0, _) => op::move_(R_COINS, RegId::ZERO),
        (1, _) => op::movi(R_COINS, 1),
        // base asset (all zero) sorts before X in the balance table
        (_, 0) => op::lw(R_COINS, RegId::ZERO, slot(0)),
        (_, _) => op::lw(R_COINS, RegId::ZERO, slot(1)),
    });
    s.push(op::move_(R_ASSET, if v.asset == 0 { r::ASSET_BASE } else { r::ASSET_X }));
    s.push(match v.gas {
        0 => op::move_(R_GAS, RegId::ZERO),
        1 => op::movi(R_GAS, GAS_SOME),
        _ => op::move_(R_GAS, RegId::CGAS),
    });
    // fingerprints in all remaining program registers
    for reg in 0x10..R_STRUCT {
        s.extend(fingerprint_ins(reg));
    }
    // $flag, then $err / $of
    let flag = [0u32, 1, 2, 3, 3][v.flagvar];
    s.push(op::movi(0x10, flag));
    s.push(op::flag(0x10));
    s.extend(fingerprint_ins(0x10));
    match v.flagvar {
        1 | 3 => s.push(op::div(0x10, RegId::ONE, RegId::ZERO)), // $err = 1, 0x10 = 0
        2 | 4 => s.push(op::mul(0x10, 0x11, 0x13)),             // both huge: $of != 0
        _ => {}
    }
    s.extend([
        op::call(R_STRUCT, R_COINS, R_ASSET, R_GAS),
        op::lw(0x10, RegId::HP, 0),
        op::ret(RegId::ONE),
    ]);
    s
}

const LETTERS: [&str; 11] = [
    "clobber",
    "cfei+wstack",
    "aloc8+w",
    "aloc4096+w",
    "flag3+err",
    "flag2+of",
    "nestB",
    "rec",
    "wcaller",
    "wbelow",
    "wreserved",
];
const REC: usize = 7;
const DCLOB: &str = "dclob";

const TERMINALS: [&str; 11] = [
    "ret $one",
    "ret val",
    "retd stack 0",
    "retd stack 1",
    "retd stack 8",
    "retd stack 33",
    "retd heap 0",
    "retd heap 1",
    "retd heap 8",
    "retd heap 33",
    "rvrt",
];
const RETD_LENS: [u32; 4] = [0, 1, 8, 33];

fn letter_ins(name: &str) -> Vec<Instruction> {
    match name {
        "clobber" => (0x10u8..=0x3f).map(|reg| op::movi(reg, 0x2AA00 + reg as u32)).collect(),
        "cfei+wstack" => vec![
            op::move_(0x10, RegId::SP),
            op::cfei(24),
            op::movi(0x11, 0xAAAA),
            op::sw(0x10, 0x11, 0),
            op::sw(0x10, 0x11, 2),
        ],
        "aloc8+w" => vec![
            op::movi(0x10, 8),
            op::aloc(0x10),
            op::movi(0x11, 0xBBBB),
            op::sw(RegId::HP, 0x11, 0),
        ],
        "aloc4096+w" => vec![
            op::movi(0x10, 4096),
            op::aloc(0x10),
            op::movi(0x11, 0xCCCC),
            op::sw(RegId::HP, 0x11, 0),
            op::sw(RegId::HP, 0x11, 511),
        ],
        "flag3+err" => vec![
            op::movi(0x10, 3),
            op::flag(0x10),
            op::div(0x10, RegId::ONE, RegId::ZERO),
        ],
        "flag2+of" => vec![
            op::movi(0x10, 2),
            op::flag(0x10),
            op::not(0x11, RegId::ZERO),
            op::mul(0x10, 0x11, 0x11),
        ],
        "nestB" => vec![
            op::gtf_args(0x10, RegId::ZERO, GTFArgs::ScriptData),
            op::addi(0x10, 0x10, off::CALL_B),
            op::addi(0x11, RegId::FP, F_ASSET as u16),
            op::call(0x10, RegId::BAL, 0x11, RegId::CGAS),
            op::lw(0x12, RegId::HP, 0),
        ],
        "rec" => vec![
            op::lw(0x10, RegId::FP, (F_A / 8) as u16),
            op::eq(0x11, 0x10, RegId::ZERO),
            op::jnzf(0x11, RegId::ZERO, 10), // a == 0: skip the 10 instructions below
            op::subi(0x10, 0x10, 1),
            op::move_(0x12, RegId::SP),
            op::cfei(48),
            op::mcpi(0x12, RegId::FP, 32), // to = own contract id
            op::sw(0x12, 0x10, 4),         // a - 1
            op::lw(0x13, RegId::FP, (F_B / 8) as u16),
            op::sw(0x12, 0x13, 5), // b
            op::addi(0x13, RegId::FP, F_ASSET as u16),
            op::call(0x12, RegId::BAL, 0x13, RegId::CGAS),
            op::lw(0x14, RegId::HP, 0),
        ],
        "wcaller" => vec![op::subi(0x10, RegId::FP, 8), op::sw(0x10, RegId::ONE, 0)],
        "wbelow" => vec![op::subi(0x10, RegId::SSP, 8), op::sw(0x10, RegId::ONE, 0)],
        "wreserved" => vec![op::movi(RegId::FP, 0)],
        DCLOB => {
            let mut v = vec![
                op::lw(0x10, RegId::FP, (F_A / 8) as u16),
                op::move_(0x11, RegId::SP),
                op::cfei(16),
                op::sw(0x11, 0x10, 0),
                op::addi(0x12, 0x10, 0x555),
                op::sw(0x11, 0x12, 1),
            ];
            for reg in 0x11u8..=0x3f {
                v.push(op::addi(reg, 0x10, reg as u16 * 64));
            }
            v
        }
        other => panic!("unknown letter {other}"),
    }
}

fn terminal_ins(name: &str) -> Vec<Instruction> {
    let t = TERMINALS.iter().position(|x| *x == name).unwrap_or_else(|| panic!("unknown terminal {name}"));
    match t {
        0 => vec![op::ret(RegId::ONE)],
        1 => vec![op::movi(0x10, 0xBEEF), op::ret(0x10)],
        2..=5 => vec![
            op::move_(0x10, RegId::SP),
            op::cfei(40),
            op::mcpi(0x10, RegId::FP, 40), // own contract id ‖ first word of the asset id
            op::movi(0x11, RETD_LENS[t - 2]),
            op::retd(0x10, 0x11),
        ],
        6..=9 => vec![
            op::movi(0x10, 40),
            op::aloc(0x10),
            op::mcpi(RegId::HP, RegId::FP, 40),
            op::movi(0x11, RETD_LENS[t - 6]),
            op::retd(RegId::HP, 0x11),
        ],
        _ => vec![op::rvrt(RegId::ONE)],
    }
}

fn code_b() -> Vec<Instruction> {
    let mut v = vec![];
    for reg in 0x10u8..=0x3f {
        v.push(op::movi(reg, 0x2000 + reg as u32));
        if reg % 2 == 0 {
            v.push(op::not(reg, reg));
        }
    }
    v.extend([
        op::movi(0x10, 16),
        op::aloc(0x10),
        op::movi(0x11, 0xB0B0),
        op::sw(RegId::HP, 0x11, 0),
        op::sw(RegId::HP, 0x11, 1),
        op::move_(0x12, RegId::SP),
        op::cfei(16),
        op::sw(0x12, 0x11, 0),
        op::movi(0x10, 3),
        op::flag(0x10),
        op::movi(0x10, 16),
        op::retd(RegId::HP, 0x10),
    ]);
    v
}

fn body_ins(letters: &[String], terminal: &str) -> Vec<Instruction> {
    let mut v: Vec<Instruction> = letters.iter().flat_map(|l| letter_ins(l)).collect();
    v.extend(terminal_ins(terminal));
    v
}

struct Env {
    world: World,
    /// code of the callable contracts, as configured by the harness
    codes: Vec<(ContractId, Vec<u8>)>,
}

fn env_for(letters: &[String], terminal: &str) -> Env {
    let code_a = body_ins(letters, terminal);
    let code_b = code_b();
    let base = AssetId::BASE;
    let big = 1_000_000_000_000;
    let cfg = WorldCfg {
        code_a: code_a.clone(),
        code_b: code_b.clone(),
        balances: vec![(A, base, big), (A, ASSET_X, big), (B, base, big), (B, ASSET_X, big)],
        ..WorldCfg::default()
    };
    Env {
        world: World::new(cfg),
        codes: vec![
            (A, code_a.into_iter().collect::<Vec<u8>>()),
            (B, code_b.into_iter().collect::<Vec<u8>>()),
        ],
    }
}

// ------------------------------------------------------------------ monitor

struct Pending {
    regs: [u64; 64],
    /// bytes [base, S0.$sp)
    stack: Vec<u8>,
    frames: Vec<CallFrame>,
    context: Context,
    to: ContractId,
}

#[derive(Default)]
struct Report {
    viols: Vec<(String, String)>,
    outcome: String,
    events: Vec<u64>,
    log: Vec<String>,
    s1: u64,
    s2: u64,
    s2_nested: u64,
    max_depth: u64,
    counters: BTreeMap<&'static str, u64>,
}

impl Report {
    fn v(&mut self, key: &str, what: String) {
        if self.viols.len() < 16 && !self.viols.iter().any(|(k, _)| k == key) {
            self.viols.push((key.to_string(), what));
        }
    }

    fn count(&mut self, k: &'static str) {
        *self.counters.entry(k).or_default() += 1;
    }
}

fn word(bytes: &[u8], at: usize) -> u64 {
    u64::from_be_bytes(bytes[at..at + 8].try_into().expect("8 bytes"))
}

fn read_vec(vm: &Vm, addr: u64, len: u64) -> Option<Vec<u8>> {
    vm.memory().read(addr, len).ok().map(|s| s.to_vec())
}

fn is_call_ctx(c: &Context) -> bool {
    matches!(c, Context::Call { .. })
}

fn is_script_ctx(c: &Context) -> bool {
    matches!(c, Context::Script { .. })
}

enum Pre {
    None,
    Call {
        ra: usize,
        rb: usize,
        rc: usize,
        s0: Pending,
        call_struct: Option<Vec<u8>>,
        asset: Option<Vec<u8>>,
    },
    Ret {
        val: u64,
    },
    RetD {
        ptr: u64,
        len: u64,
        data: Option<Vec<u8>>,
    },
    SwBelowSsp {
        addr: u64,
    },
    LwHp {
        ra: usize,
        expect: Option<u64>,
    },
}

/// The caller script of `v` executed up to (not including) its CALL. Nothing before the
/// CALL reads the storage, so the same prepared VM serves every world ("prepare once,
/// clone per case"); `run_monitor` installs the world's storage before continuing.
fn prepared_vm(world: &World, v: &Variant) -> Vm {
    let script = script_for(v);
    let mut vm = world.vm_after_prelude(&script, GAS_LIMIT);
    for _ in 0..script.len() - 3 {
        assert_eq!(vmkit::step(&mut vm), Step::Proceed, "harness: the caller script must reach its CALL");
    }
    vm
}

fn run_monitor(env: &Env, prepared: &Vm, want_log: bool) -> Report {
    let mut rep = Report::default();
    let mut vm = prepared.clone();
    {
        let st: &mut MemoryStorage = vm.as_mut();
        *st = env.world.storage.clone();
    }
    // start of the script's stack (in script context $ssp never moves)
    let base = vmkit::reg(&vm, RegId::SSP);
    let mut pend: Vec<Pending> = vec![];
    // Some(word the callee left at its $hp) right after a return
    let mut after_return: Option<Option<u64>> = None;
    let mut steps = 0u32;
    loop {
        let pre = vmkit::regs(&vm);
        let depth = pend.len();
        let ins = vm
            .memory()
            .read_bytes::<_, 4>(pre[PC])
            .ok()
            .and_then(|b| Instruction::try_from(b).ok());
        let just_returned = after_return.take();
        // callee-side data captured before a RET/RETD inside a call
        let mut callee_hp = 0u64;
        let mut callee_heap: Option<Vec<u8>> = None;
        let mut callee_hp_word: Option<u64> = None;
        let p = match ins {
            Some(Instruction::CALL(c)) => {
                let (ra, rb, rc, _rd) = c.unpack();
                let (ra, rb, rc) = (ra.to_u8() as usize, rb.to_u8() as usize, rc.to_u8() as usize);
                let call_struct = read_vec(&vm, pre[ra], 48);
                let asset = read_vec(&vm, pre[rc], 32);
                let to = call_struct
                    .as_ref()
                    .map(|b| ContractId::new(b[..32].try_into().expect("32")))
                    .unwrap_or_default();
                Pre::Call {
                    ra,
                    rb,
                    rc,
                    s0: Pending {
                        regs: pre,
                        stack: read_vec(&vm, base, pre[SP].saturating_sub(base)).unwrap_or_default(),
                        frames: vm.verif_call_stack().to_vec(),
                        context: vm.context().clone(),
                        to,
                    },
                    call_struct,
                    asset,
                }
            }
            Some(Instruction::RET(x)) if depth > 0 => {
                let ra = x.unpack();
                Pre::Ret {
                    val: pre[ra.to_u8() as usize],
                }
            }
            Some(Instruction::RETD(x)) if depth > 0 => {
                let (ra, rb) = x.unpack();
                let (ptr, len) = (pre[ra.to_u8() as usize], pre[rb.to_u8() as usize]);
                Pre::RetD {
                    ptr,
                    len,
                    data: read_vec(&vm, ptr, len),
                }
            }
            Some(Instruction::SW(x)) if depth > 0 => {
                let (ra, _rb, imm) = x.unpack();
                let addr = pre[ra.to_u8() as usize].checked_add(imm.to_u16() as u64 * 8);
                match addr {
                    Some(a) if a.checked_add(8).is_some_and(|e| e <= pre[SSP]) => Pre::SwBelowSsp { addr: a },
                    _ => Pre::None,
                }
            }
            Some(Instruction::LW(x)) => {
                let (ra, rb, imm) = x.unpack();
                match just_returned {
                    Some(expect) if rb.to_u8() as usize == HP && imm.to_u16() == 0 => Pre::LwHp {
                        ra: ra.to_u8() as usize,
                        expect,
                    },
                    _ => Pre::None,
                }
            }
            _ => Pre::None,
        };
        if matches!(p, Pre::Ret { .. } | Pre::RetD { .. }) {
            let top = pend.last().expect("depth > 0");
            callee_hp = pre[HP];
            callee_heap = read_vec(&vm, callee_hp, top.regs[HP].saturating_sub(callee_hp));
            callee_hp_word = vm.memory().read_bytes::<_, 8>(callee_hp).ok().map(u64::from_be_bytes);
        }
        let receipts_before = vm.receipts().len();
        let below_before = match &p {
            Pre::SwBelowSsp { .. } => read_vec(&vm, base, pre[SSP].saturating_sub(base)),
            _ => None,
        };

        let s = vmkit::step(&mut vm);
        steps += 1;
        let post = vmkit::regs(&vm);
        let new_receipts: Vec<Receipt> = vm.receipts()[receipts_before.min(vm.receipts().len())..].to_vec();
        let mut finished = false;

        match p {
            Pre::Call {
                ra: _,
                rb,
                rc: _,
                s0,
                call_struct,
                asset,
            } => {
                if s != Step::Proceed {
                    rep.count("CALL did not enter (panic/out of gas at the CALL)");
                    finished = true;
                } else {
                    // ------------------------------------------------ S1
                    rep.s1 += 1;
                    let d = depth + 1;
                    rep.max_depth = rep.max_depth.max(d as u64);
                    // (a CALL that proceeds with unreadable operands shows up as frame mismatches below)
                    let cs = call_struct.unwrap_or_else(|| vec![0; 48]);
                    let asset = asset.unwrap_or_else(|| vec![0; 32]);
                    let to = s0.to;
                    let code = env.codes.iter().find(|(id, _)| *id == to).map(|(_, c)| c.clone());
                    let Some(code) = code else {
                        rep.v("C34:S1:unknown-callee", format!("depth {d}: CALL entered {to}, which is not a deployed contract of this world"));
                        rep.outcome = "unknown-callee".into();
                        return rep
                    };
                    let padded = pad8(code.len());
                    if code.len() % 8 != 0 {
                        rep.count("S1 with code length not a multiple of 8");
                    }
                    let fp = pre[SP];
                    if post[FP] != fp {
                        rep.v("C34:S1:fp", format!("depth {d}: $fp = {} but the caller's $sp was {fp}", post[FP]));
                    }
                    let top = fp + FRAME + padded as u64;
                    if post[SSP] != top || post[SP] != top {
                        rep.v(
                            "C34:S1:ssp-sp",
                            format!(
                                "depth {d}: $ssp = {}, $sp = {}; expected both = $fp {fp} + 600 + padded code {padded} = {top} (code length {})",
                                post[SSP],
                                post[SP],
                                code.len()
                            ),
                        );
                    }
                    if post[IS] != fp + FRAME || post[PC] != fp + FRAME {
                        rep.v(
                            "C34:S1:is-pc",
                            format!("depth {d}: $is = {}, $pc = {}; expected both = $fp + 600 = {}", post[IS], post[PC], fp + FRAME),
                        );
                    }
                    if post[BAL] != pre[rb] {
                        rep.v("C34:S1:bal", format!("depth {d}: $bal = {} but {} coins were forwarded", post[BAL], pre[rb]));
                    }
                    if post[FLAG] != 0 {
                        rep.v("C34:S1:flag", format!("depth {d}: callee starts with $flag = {} (caller had {})", post[FLAG], pre[FLAG]));
                    }
                    let mut expect_code = code.clone();
                    expect_code.resize(padded, 0);
                    match read_vec(&vm, fp + FRAME, padded as u64) {
                        Some(m) if m == expect_code => {}
                        other => rep.v(
                            "C34:S1:code",
                            format!(
                                "depth {d}: memory [$fp+600, +{padded}) is not the contract code zero-padded to a word ({})",
                                if other.is_some() { "bytes differ" } else { "not readable" }
                            ),
                        ),
                    }
                    match read_vec(&vm, fp, FRAME) {
                        None => rep.v("C34:S1:frame:unreadable", format!("depth {d}: call frame at {fp} not readable")),
                        Some(f) => {
                            if f[..32] != cs[..32] {
                                rep.v("C34:S1:frame:to", format!("depth {d}: frame contract id differs from the call structure"));
                            }
                            if f[F_ASSET..F_ASSET + 32] != asset[..] {
                                rep.v("C34:S1:frame:asset", format!("depth {d}: frame asset id differs from the forwarded asset id"));
                            }
                            for i in 0..64 {
                                if i == CGAS || i == GGAS {
                                    continue
                                }
                                let w = word(&f, F_REGS + 8 * i);
                                if w != pre[i] {
                                    rep.v(
                                        &format!("C34:S1:frame:reg:{}", reg_name(i)),
                                        format!("depth {d}: frame saved register {i:#x} = {w:#x}, caller had {:#x}", pre[i]),
                                    );
                                }
                            }
                            if word(&f, F_CODESIZE) != padded as u64 {
                                rep.v(
                                    "C34:S1:frame:codesize",
                                    format!("depth {d}: frame code size {} != padded code length {padded}", word(&f, F_CODESIZE)),
                                );
                            }
                            if word(&f, F_A) != word(&cs, 32) || word(&f, F_B) != word(&cs, 40) {
                                rep.v("C34:S1:frame:params", format!("depth {d}: frame (a, b) differ from the call structure"));
                            }
                        }
                    }
                    match read_vec(&vm, base, pre[SP].saturating_sub(base)) {
                        Some(m) if m == s0.stack => {}
                        _ => rep.v("C34:S1:caller-stack", format!("depth {d}: the CALL itself changed the caller's stack bytes [{base}, {})", pre[SP])),
                    }
                    let frames = vm.verif_call_stack();
                    if frames.len() != d {
                        rep.v("C34:S1:depth", format!("call depth {} after entering call number {d}", frames.len()));
                    } else if *frames[d - 1].to() != to {
                        rep.v("C34:S1:depth", format!("depth {d}: top frame of the VM's frame list is for another contract"));
                    }
                    if !is_call_ctx(vm.context()) {
                        rep.v("C34:S1:context", format!("depth {d}: context() = {:?} inside a call", vm.context()));
                    }
                    let caller_id = pend.last().map(|p| p.to).unwrap_or_default();
                    match new_receipts.as_slice() {
                        [Receipt::Call {
                            id,
                            to: rto,
                            amount,
                            asset_id,
                            param1,
                            param2,
                            ..
                        }] if *id == caller_id
                            && *rto == to
                            && *amount == pre[rb]
                            && asset_id.as_ref() == &asset[..]
                            && *param1 == word(&cs, 32)
                            && *param2 == word(&cs, 40) => {}
                        other => rep.v("C34:S1:receipt", format!("depth {d}: receipts pushed by the CALL: {other:?}")),
                    }
                    rep.events.extend([1, d as u64, to.as_ref()[0] as u64, post[BAL], post[SSP].wrapping_sub(post[FP]), post[CGAS], post[HP]]);
                    if want_log {
                        rep.log.push(format!(
                            "S1 depth {d}: to {:02x}.. $fp {} $ssp=$sp {} $bal {} $cgas {} $flag {} (caller $flag {} $of {:#x} $err {})",
                            to.as_ref()[0],
                            post[FP],
                            post[SSP],
                            post[BAL],
                            post[CGAS],
                            post[FLAG],
                            pre[FLAG],
                            pre[OF],
                            pre[ERR]
                        ));
                    }
                    pend.push(s0);
                }
            }
            Pre::Ret { .. } | Pre::RetD { .. } => {
                match (&s, &p) {
                    (Step::Return(_), Pre::Ret { .. }) | (Step::ReturnData(_), Pre::RetD { .. }) => {
                        // -------------------------------------------- S2
                        let s0 = pend.pop().expect("depth > 0");
                        let d = depth;
                        rep.s2 += 1;
                        if d >= 2 {
                            rep.s2_nested += 1;
                        }
                        if post[PC] != s0.regs[PC] + 4 {
                            rep.v("C34:S2:pc", format!("return from depth {d}: $pc = {} but the CALL was at {}", post[PC], s0.regs[PC]));
                        }
                        for i in 0..64 {
                            if [PC, CGAS, GGAS, RET, RETL, HP].contains(&i) {
                                continue
                            }
                            if post[i] != s0.regs[i] {
                                rep.v(
                                    &format!("C34:S2:reg:{}", reg_name(i)),
                                    format!(
                                        "return from depth {d}: register {i:#x} ({}) = {:#x}, before the CALL it was {:#x} (callee had {:#x})",
                                        reg_name(i),
                                        post[i],
                                        s0.regs[i],
                                        pre[i]
                                    ),
                                );
                            }
                        }
                        match &p {
                            Pre::Ret { val } => {
                                if post[RET] != *val {
                                    rep.v("C34:S2:ret", format!("return from depth {d}: $ret = {:#x}, callee returned {val:#x}", post[RET]));
                                }
                                if post[RETL] != 0 {
                                    rep.v("C34:S2:retl", format!("return from depth {d}: $retl = {} after RET", post[RETL]));
                                }
                            }
                            Pre::RetD { ptr, len, data } => {
                                if post[RET] != *ptr {
                                    rep.v("C34:S2:ret", format!("return from depth {d}: $ret = {:#x}, callee returned pointer {ptr:#x}", post[RET]));
                                }
                                if post[RETL] != *len {
                                    rep.v("C34:S2:retl", format!("return from depth {d}: $retl = {}, callee returned length {len}", post[RETL]));
                                }
                                if let Some(data) = data {
                                    let now = read_vec(&vm, *ptr, *len);
                                    if *ptr >= callee_hp {
                                        rep.count("RETD data on the heap compared after return");
                                        if now.as_ref() != Some(data) {
                                            rep.v(
                                                "C34:S2:retdata",
                                                format!(
                                                    "return from depth {d}: memory[$ret, $ret+$retl) ({len} bytes at {ptr:#x}, heap) {}",
                                                    if now.is_some() { "differs from the returned data" } else { "is not readable" }
                                                ),
                                            );
                                        }
                                    } else if now.as_ref() == Some(data) {
                                        rep.count("RETD data on the callee stack still equal after return (don't-care)");
                                    } else {
                                        rep.count("RETD data on the callee stack NOT equal after return (don't-care)");
                                    }
                                }
                            }
                            _ => unreachable!(),
                        }
                        match read_vec(&vm, base, s0.regs[SP].saturating_sub(base)) {
                            Some(m) if m == s0.stack => {}
                            Some(m) => {
                                let at = m.iter().zip(&s0.stack).position(|(a, b)| a != b).unwrap_or(0) as u64 + base;
                                rep.v(
                                    "C34:S2:stack",
                                    format!(
                                        "return from depth {d}: stack bytes [{base}, {}) changed during the call (first difference at {at}, caller's $ssp {})",
                                        s0.regs[SP], s0.regs[SSP]
                                    ),
                                );
                            }
                            None => rep.v("C34:S2:stack", format!("return from depth {d}: caller stack not readable")),
                        }
                        let frames = vm.verif_call_stack();
                        if frames.len() != pend.len() {
                            rep.v("C34:S2:depth", format!("return from depth {d}: VM frame list has {} entries, expected {}", frames.len(), pend.len()));
                        } else if frames != s0.frames.as_slice() {
                            rep.v("C34:S2:depth", format!("return from depth {d}: VM frame list differs from the one before the CALL"));
                        }
                        let kind_ok = if pend.is_empty() {
                            is_script_ctx(vm.context())
                        } else {
                            is_call_ctx(vm.context())
                        };
                        if !kind_ok || *vm.context() != s0.context {
                            rep.v(
                                if pend.is_empty() { "C34:S2:context:script" } else { "C34:S2:context:nested" },
                                format!("return from depth {d}: context() = {:?}, before the CALL it was {:?}", vm.context(), s0.context),
                            );
                        }
                        let rc_ok = match (new_receipts.as_slice(), &p) {
                            ([Receipt::Return { id, val, .. }], Pre::Ret { val: v }) => *id == s0.to && val == v,
                            (
                                [Receipt::ReturnData {
                                    id,
                                    ptr,
                                    len,
                                    data,
                                    ..
                                }],
                                Pre::RetD {
                                    ptr: p0,
                                    len: l0,
                                    data: d0,
                                },
                            ) => {
                                *id == s0.to
                                    && ptr == p0
                                    && len == l0
                                    && data.as_ref().map(|b| b.to_vec()) == *d0
                            }
                            _ => false,
                        };
                        if !rc_ok {
                            rep.v(
                                "C34:S2:receipt",
                                format!("return from depth {d} (callee {:02x}..): receipts pushed by the return: {new_receipts:?}", s0.to.as_ref()[0]),
                            );
                        }
                        if post[HP] != callee_hp {
                            rep.v(
                                "C34:S2:hp",
                                format!(
                                    "return from depth {d}: $hp = {:#x} but the callee's $hp was {callee_hp:#x} (caller's before the CALL {:#x})",
                                    post[HP], s0.regs[HP]
                                ),
                            );
                        }
                        let heap_len = s0.regs[HP].saturating_sub(callee_hp);
                        if heap_len > 0 {
                            rep.count("S2 with callee heap allocation");
                        }
                        if read_vec(&vm, callee_hp, heap_len) != callee_heap || callee_heap.is_none() {
                            rep.v(
                                "C34:S2:heap-bytes",
                                format!("return from depth {d}: the {heap_len} bytes allocated by the callee at {callee_hp:#x} are not readable / not unchanged"),
                            );
                        }
                        after_return = Some(callee_hp_word);
                        rep.events.extend([2, d as u64, post[RET], post[RETL], heap_len, post[CGAS]]);
                        if want_log {
                            rep.log.push(format!(
                                "S2 from depth {d}: $pc {} (CALL at {}) $ret {:#x} $retl {} $hp {:#x} (before CALL {:#x}) $flag {} $of {:#x} $err {} depth {} context {}",
                                post[PC],
                                s0.regs[PC],
                                post[RET],
                                post[RETL],
                                post[HP],
                                s0.regs[HP],
                                post[FLAG],
                                post[OF],
                                post[ERR],
                                frames.len(),
                                if is_script_ctx(vm.context()) { "Script" } else { "Call" }
                            ));
                        }
                    }
                    _ => finished = true, // the RET/RETD itself failed
                }
            }
            Pre::SwBelowSsp { addr } => {
                rep.count("sw below $ssp inside a call");
                let unchanged = read_vec(&vm, base, pre[SSP].saturating_sub(base)) == below_before;
                if s != Step::Panic(PanicReason::MemoryOwnership) || !unchanged {
                    let region = if addr + 8 <= pre[FP] { "caller" } else { "frame-or-code" };
                    rep.v(
                        &format!("C34:own:sw-below-ssp:{region}"),
                        format!(
                            "depth {depth}: sw to {addr} (callee $fp {}, $ssp {}) gave {} (expected panic MemoryOwnership), memory below $ssp {}",
                            pre[FP],
                            pre[SSP],
                            s.label(),
                            if unchanged { "unchanged" } else { "CHANGED" }
                        ),
                    );
                }
                finished = s != Step::Proceed;
            }
            Pre::LwHp { ra, expect } => {
                match &s {
                    Step::Proceed => {
                        rep.count("lw $hp after return: read back");
                        if Some(post[ra]) != expect {
                            rep.v(
                                "C34:S2:heap-read",
                                format!("depth {depth}: lw from $hp after the return read {:#x}, the callee left {expect:?}", post[ra]),
                            );
                        }
                    }
                    Step::Panic(PanicReason::OutOfGas) => finished = true,
                    other => {
                        rep.v(
                            "C34:S2:heap-read",
                            format!("depth {depth}: lw from $hp ({:#x}) after the return: {}", pre[HP], other.label()),
                        );
                        finished = true;
                    }
                }
            }
            Pre::None => {
                finished = match &s {
                    Step::Proceed => false,
                    Step::Return(_) | Step::ReturnData(_) => {
                        if depth > 0 {
                            panic!("harness: return inside a call not seen by the monitor")
                        }
                        true
                    }
                    _ => true,
                };
            }
        }

        if finished {
            // end of the execution: every pending caller's stack is still intact
            for (i, s0) in pend.iter().enumerate() {
                match read_vec(&vm, base, s0.regs[SP].saturating_sub(base)) {
                    Some(m) if m == s0.stack => {}
                    _ => rep.v(
                        "C34:end:caller-stack",
                        format!("execution ended ({}) at depth {}: stack of the caller at depth {i} changed", s.label(), pend.len()),
                    ),
                }
            }
            if pend.is_empty() {
                if let Step::Return(_) = s {
                    match vm.receipts().last() {
                        Some(Receipt::Return { id, .. }) if *id == ContractId::zeroed() => {}
                        other => rep.v("C34:end:script-return-id", format!("script-level RET produced {other:?}")),
                    }
                    if !is_script_ctx(vm.context()) {
                        rep.v("C34:S2:context:script", format!("context() = {:?} at the end of the script", vm.context()));
                    }
                }
            }
            rep.outcome = format!("{}{}", if pend.is_empty() { "script:" } else { "in-call:" }, s.label());
            rep.events.push(hash64(&rep.outcome));
            if want_log {
                rep.log.push(format!("end: {} after {steps} steps at depth {}", s.label(), pend.len()));
            }
            return rep
        }
        assert!(steps < 100_000, "harness: program does not terminate");
    }
}

// ------------------------------------------------------------------ cases

fn variant_json(v: &Variant) -> Value {
    json!({"flagvar": FLAGVARS[v.flagvar], "coins": COINS[v.coins], "asset": ASSETS[v.asset], "gas": GASES[v.gas], "budget": v.budget})
}

fn case_json(letters: &[String], terminal: &str, v: &Variant) -> Value {
    json!({"letters": letters, "terminal": terminal, "variant": variant_json(v)})
}

fn variant_from(j: &Value) -> Variant {
    let idx = |names: &[&str], key: &str| {
        let s = j[key].as_str().unwrap_or_else(|| panic!("variant.{key}"));
        names.iter().position(|n| *n == s).unwrap_or_else(|| panic!("unknown {key} {s}"))
    };
    Variant {
        flagvar: idx(&FLAGVARS, "flagvar"),
        coins: idx(&COINS, "coins"),
        asset: idx(&ASSETS, "asset"),
        gas: idx(&GASES, "gas"),
        budget: j["budget"].as_u64().expect("budget") as u32,
    }
}

#[derive(Default)]
struct Acc {
    runs: u64,
    bodies: u64,
    skipped: u64,
    s1: u64,
    s2: u64,
    s2_nested: u64,
    max_depth: u64,
    outcomes: BTreeMap<String, u64>,
    fps: HashSet<u64>,
    viols: Vec<(String, String, Value)>,
    samples: Vec<(u64, Value)>,
}

fn run_one(
    env: &Env,
    letters: &[String],
    terminal: &str,
    v: &Variant,
    prepared: &Vm,
    acc: &mut Acc,
    sample_score: impl Fn(&Report) -> u64,
) {
    let rep = run_monitor(env, prepared, false);
    acc.runs += 1;
    acc.s1 += rep.s1;
    acc.s2 += rep.s2;
    acc.s2_nested += rep.s2_nested;
    acc.max_depth = acc.max_depth.max(rep.max_depth);
    *acc.outcomes.entry(format!("end {}", rep.outcome)).or_default() += 1;
    for (k, n) in &rep.counters {
        *acc.outcomes.entry((*k).to_string()).or_default() += n;
    }
    if rep.s1 > 0 {
        acc.fps.insert(hash64(&rep.events));
    }
    for (k, what) in &rep.viols {
        if acc.viols.len() < 64 {
            acc.viols.push((
                k.clone(),
                format!("[A = {letters:?} + {terminal:?} | {}] {what}", variant_json(v)),
                case_json(letters, terminal, v),
            ));
        }
    }
    let score = sample_score(&rep);
    if score > 0 && acc.samples.iter().all(|(s, _)| *s < score) {
        let logged = run_monitor(env, prepared, true);
        let mut c = case_json(letters, terminal, v);
        c["trace"] = json!(logged.log);
        c["result"] = json!(logged.outcome);
        acc.samples.clear();
        acc.samples.push((score, c));
    }
}

fn merge(tot: &mut Acc, a: Acc, ctx: &Ctx) {
    tot.runs += a.runs;
    tot.bodies += a.bodies;
    tot.skipped += a.skipped;
    tot.s1 += a.s1;
    tot.s2 += a.s2;
    tot.s2_nested += a.s2_nested;
    tot.max_depth = tot.max_depth.max(a.max_depth);
    for (k, v) in a.outcomes {
        *tot.outcomes.entry(k).or_default() += v;
    }
    ctx.fps_merge(a.fps);
    for (k, what, case) in a.viols {
        ctx.violation(k, what, case);
    }
    for s in a.samples {
        if tot.samples.iter().all(|(sc, _)| *sc < s.0) {
            tot.samples.clear();
            tot.samples.push(s);
        }
    }
}

fn part1_variants() -> Vec<Variant> {
    let mut v = vec![];
    for flagvar in 0..FLAGVARS.len() {
        for asset in 0..2 {
            for coins in 0..3 {
                for gas in (0..3).rev() {
                    v.push(Variant {
                        flagvar,
                        coins,
                        asset,
                        gas,
                        budget: 1,
                    });
                }
            }
        }
    }
    v
}

fn part2_variants(depth: u32) -> Vec<Variant> {
    let mut v = vec![];
    for flagvar in 0..FLAGVARS.len() {
        for coins in 0..3 {
            // forwarded gas 0 ends every chain at the first callee instruction whatever the
            // depth; that case is part 1's
            for gas in (1..3).rev() {
                v.push(Variant {
                    flagvar,
                    coins,
                    asset: 0,
                    gas,
                    budget: depth - 1,
                });
            }
        }
    }
    v
}

fn names(seq: &[u64]) -> Vec<String> {
    seq.iter().map(|i| LETTERS[*i as usize].to_string()).collect()
}

fn explore(ctx: &Ctx) {
    ctx.rule(
        "part 1: every callee body = letter sequence of length <= k over LETTERS + one of TERMINALS, under all 90 caller variants \
         (recursion budget 1); part 2: every body [dclob, X, rec, Y, T] (X,Y in {none} + LETTERS without rec) for every chain depth \
         1..D under 30 caller variants; each run is executed step by step and every CALL/RET/RETD in it is checked (S0/S1/S2). A run \
         is non-trivial when at least one CALL entered its callee; distinct = distinct sequences of observed (S1: depth, callee, $bal, \
         frame+code size, $cgas, $hp | S2: depth, $ret, $retl, callee heap size, $cgas | final outcome)",
    );
    ctx.assume("the MemoryStorage test backend returns the contract code the harness deployed (the expected code bytes come from the harness's own copy)");
    ctx.assume("call-frame layout (600 bytes: to, asset id, 64 registers, code size, a, b) and word padding of the code as in the specification's call-frame table");
    ctx.assume("`Interpreter::verif_call_stack()` (hook H3) exposes the VM's frame list unmodified");
    ctx.set(
        "dont_care",
        json!([
            "values of $cgas/$ggas everywhere (forwarded/returned gas amounts are C26's subject), also inside the saved registers of the frame",
            "$of, $err, $ret, $retl, $hp and the program registers as seen by the callee at its first instruction (not fixed by the statement; the in-repo docs of CALL do not mention them)",
            "whether RETD data that lived on the callee's (popped) stack is still in memory after the return (counted, not judged); only heap-located data is compared",
            "memory [0, start of the script's stack): transaction bytes and the balance table (legitimately changed by forwarding coins)",
            "which panic ends a failing run, except: sw entirely below $ssp inside a call must be MemoryOwnership; lw from $hp right after a return may only fail with OutOfGas",
            "contents of the callee's frame/code/stack area after the return (dead memory above the caller's $sp)",
        ]),
    );
    ctx.set("letters", json!(LETTERS));
    ctx.set("terminals", json!(TERMINALS));
    ctx.set("caller_variants", json!({"flag": FLAGVARS, "coins": COINS, "asset": ASSETS, "gas": GASES, "gas_some": GAS_SOME}));

    // ---------------- part 1
    let k = ctx.pick(2u32, 3u32);
    let nseq = space::seq_count(LETTERS.len() as u64, k);
    let nbodies = nseq * TERMINALS.len() as u64;
    let reference = env_for(&[], TERMINALS[0]);
    let variants1: Vec<(Variant, Vm)> = part1_variants()
        .into_iter()
        .map(|v| (v, prepared_vm(&reference.world, &v)))
        .collect();
    let mut tot1 = Acc::default();
    space::par_chunks(
        nbodies,
        4,
        Acc::default,
        |i, acc| {
            if ctx.out_of_time() {
                acc.skipped += 1;
                return
            }
            // terminals vary fastest so that short bodies come first
            let seq = space::seq_at(LETTERS.len() as u64, k, i / TERMINALS.len() as u64);
            let terminal = TERMINALS[(i % TERMINALS.len() as u64) as usize];
            let letters = names(&seq);
            let env = env_for(&letters, terminal);
            acc.bodies += 1;
            for (v, prepared) in &variants1 {
                run_one(&env, &letters, terminal, v, prepared, acc, |rep| {
                    // prefer successful runs with several checked returns and a heap read-back
                    if rep.outcome == "script:return" && v.flagvar >= 3 && v.coins == 2 {
                        rep.s2 * 10 + rep.counters.get("RETD data on the heap compared after return").copied().unwrap_or(0)
                    } else {
                        0
                    }
                });
            }
        },
        |a| merge(&mut tot1, a, ctx),
    );
    ctx.evals(tot1.runs);
    ctx.outcomes_merge(&tot1.outcomes.iter().map(|(k, v)| (format!("part1 {k}"), *v)).collect::<BTreeMap<String, u64>>());
    for (_, s) in &tot1.samples {
        ctx.sample(s.clone());
    }
    ctx.set(
        "part1",
        json!({"k": k, "letter_sequences": nseq, "bodies_in_space": nbodies, "bodies_run": tot1.bodies, "variants_per_body": variants1.len(),
               "runs": tot1.runs, "calls_entered_S1": tot1.s1, "returns_checked_S2": tot1.s2, "returns_checked_from_depth_ge_2": tot1.s2_nested,
               "max_depth": tot1.max_depth}),
    );

    // ---------------- part 2
    let dmax = ctx.pick(8u32, 24u32);
    let mut opts: Vec<Option<usize>> = vec![None];
    opts.extend((0..LETTERS.len()).filter(|i| *i != REC).map(Some));
    let nb2 = (opts.len() * opts.len() * TERMINALS.len()) as u64;
    let variants2: Vec<Vec<(Variant, Vm)>> = (1..=dmax)
        .map(|depth| {
            part2_variants(depth)
                .into_iter()
                .map(|v| (v, prepared_vm(&reference.world, &v)))
                .collect()
        })
        .collect();
    let mut tot2 = Acc::default();
    space::par_chunks(
        nb2,
        1,
        Acc::default,
        |i, acc| {
            let t = (i % TERMINALS.len() as u64) as usize;
            let x = ((i / TERMINALS.len() as u64) % opts.len() as u64) as usize;
            let y = (i / (TERMINALS.len() * opts.len()) as u64) as usize;
            let mut letters = vec![DCLOB.to_string()];
            if let Some(l) = opts[x] {
                letters.push(LETTERS[l].to_string());
            }
            letters.push(LETTERS[REC].to_string());
            if let Some(l) = opts[y] {
                letters.push(LETTERS[l].to_string());
            }
            let terminal = TERMINALS[t];
            let env = env_for(&letters, terminal);
            acc.bodies += 1;
            for depth in 1..=dmax {
                if ctx.out_of_time() {
                    acc.skipped += 1;
                    continue
                }
                for (v, prepared) in &variants2[depth as usize - 1] {
                    run_one(&env, &letters, terminal, v, prepared, acc, |rep| {
                        if rep.outcome == "script:return" && v.flagvar == 4 && v.coins == 2 && depth == dmax {
                            rep.s2 * 10 + letters.len() as u64
                        } else {
                            0
                        }
                    });
                }
            }
        },
        |a| merge(&mut tot2, a, ctx),
    );
    ctx.evals(tot2.runs);
    ctx.outcomes_merge(&tot2.outcomes.iter().map(|(k, v)| (format!("part2 {k}"), *v)).collect::<BTreeMap<String, u64>>());
    for (_, s) in &tot2.samples {
        ctx.sample(s.clone());
    }
    ctx.set(
        "part2",
        json!({"max_chain_depth": dmax, "bodies_in_space": nb2, "bodies_run": tot2.bodies, "variants_per_body_and_depth": part2_variants(1).len(),
               "runs": tot2.runs, "calls_entered_S1": tot2.s1, "returns_checked_S2": tot2.s2, "returns_checked_from_depth_ge_2": tot2.s2_nested,
               "max_depth": tot2.max_depth}),
    );

    // a third, fixed sample: the simplest call
    {
        let letters: Vec<String> = vec![];
        let env = env_for(&letters, TERMINALS[0]);
        let v = Variant {
            flagvar: 1,
            coins: 1,
            asset: 1,
            gas: 2,
            budget: 1,
        };
        let rep = run_monitor(&env, &prepared_vm(&env.world, &v), true);
        let mut c = case_json(&letters, TERMINALS[0], &v);
        c["trace"] = json!(rep.log);
        c["result"] = json!(rep.outcome);
        ctx.sample(c);
    }
    if tot1.skipped + tot2.skipped > 0 {
        ctx.cap(format!(
            "time budget reached: {} part-1 bodies and {} part-2 (body, depth) pairs were not run",
            tot1.skipped, tot2.skipped
        ));
    }
}

fn replay(case: &Value, ctx: &Ctx) {
    let letters: Vec<String> = case["letters"]
        .as_array()
        .expect("letters")
        .iter()
        .map(|v| v.as_str().expect("letter").to_string())
        .collect();
    let terminal = case["terminal"].as_str().expect("terminal");
    let v = variant_from(&case["variant"]);
    let env = env_for(&letters, terminal);
    let rep = run_monitor(&env, &prepared_vm(&env.world, &v), false);
    for (k, what) in rep.viols {
        ctx.violation(k, what, case.clone());
    }
}

fn main() {
    run_check("C34", Level::Exploration, explore, replay)
}
