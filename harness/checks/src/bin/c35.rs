//! C35 — Bytecode upload, blob, deployment and upgrade state evolve as specified.
//!
//! Explicit-state BFS (`vcore::bfs`). Every transition is a call into the real
//! `fuel_vm::transactor::Transactor::{deploy, blob, upload, upgrade}` over the real
//! `MemoryStorage`. `Transactor` is not `Clone`; the state holds the (clonable)
//! `Interpreter<MemoryInstance, MemoryStorage, Script>` and every step does
//! `Transactor::from(vm.clone())` → call → `Interpreter::from(transactor)`.
//!
//! Space: all action sequences of length <= depth (7 quick, 12 thorough) over a fixed
//! pool of CHECKED transactions, built once, simplest first:
//!   Create c1, c1' (another transaction producing the same contract id), c2 (two
//!   storage slots); Blob b1, b1' (same id, other transaction), b2;
//!   Upload: root R3 = 1 subsection, R2 = 2 subsections, R1 = 3 subsections, every
//!   subsection its own action (so every order / repetition / interleaving is a path);
//!   Upgrade(consensus parameters P1), Upgrade(P2);
//!   Upgrade(state transition -> R3 / R2 / R1 / a root that is never uploaded);
//!   AdoptCp / AdoptSt: the node moves its current consensus-parameter /
//!   state-transition version to the latest installed one (environment action on
//!   `MemoryStorage::set_*_version`); its absence on a path is the stale-version race.
//! States are merged on (observed tables, current versions, hash of the Debug
//! rendering of the whole `MemoryStorage`). The four entry points read nothing else
//! that varies (interpreter parameters and gas price are constant), so nothing a
//! future depends on is dropped.
//!
//! Oracle (plain BTreeMaps, written from the property statement):
//!   * create / blob: Ok iff the id is absent; then id -> exact code (+ slots) / data;
//!   * upload(root, i): Ok iff root is not completed and i == number of parts held;
//!     bytes are appended; Completed(concatenation) exactly when i == count - 1;
//!   * upgrade: version v = current + 1; Err if v is taken or (state transition) the
//!     root is not Completed; otherwise table[v] = value;
//!   * after every action: verdict Ok/Err as predicted, every table equal to the
//!     reference table, and after an Err the complete storage is unchanged (structured
//!     snapshot and Debug rendering of the whole `MemoryStorage` before/after).
//! Which error a failing transaction reports is a don't-care (recorded in the
//! outcome histogram).
//!
//! Violation keys (a violating transition is pruned, so one defect = one key):
//!   C35:<create|blob|upload|upgrade>:host-panic        executor unwound
//!   C35:<create|blob|upload|upgrade>:verdict           Ok/Err differs from the prediction
//!   C35:failed-<create|blob|upload|upgrade>-changes-tables   Err, but the storage changed
//!   C35:<contracts|slots|blobs|uploads|consensus_versions|state_transition_versions|
//!        current_versions>:contents                    table differs from the reference
//! `VERIF_C35_DEPTH=n` overrides the depth bound (experiments only).

use fuel_asm::{
    op,
    PanicReason,
};
use fuel_tx::{
    Blob,
    BlobIdExt,
    ConsensusParameters,
    Contract,
    Create,
    Input,
    Output,
    Script,
    StorageSlot,
    Transaction,
    TxPointer,
    Upgrade,
    Upload,
    UploadSubsection,
    UpgradePurpose,
    UtxoId,
    policies::Policies,
};
use fuel_types::{
    AssetId,
    BlobId,
    Bytes32,
    ContractId,
    Salt,
};
use fuel_vm::{
    checked_transaction::{
        Checked,
        IntoChecked,
    },
    error::InterpreterError,
    interpreter::{
        Interpreter,
        InterpreterParams,
        MemoryInstance,
    },
    storage::{
        BlobData,
        ContractsRawCode,
        InterpreterStorage,
        MemoryStorage,
        UploadedBytecode,
        UploadedBytecodes,
    },
    transactor::Transactor,
};
use fuel_storage::StorageAsRef;
use serde::{
    Deserialize,
    Serialize,
};
use std::{
    collections::BTreeMap,
    convert::Infallible,
    sync::atomic::{
        AtomicBool,
        AtomicU64,
        Ordering,
    },
};
use vcore::{
    bfs::{
        self,
        Model,
    },
    guard,
    json,
    run::hash64,
    run_check,
    Ctx,
    Level,
    Value,
};

type Vm = Interpreter<MemoryInstance, MemoryStorage, Script>;
type Tr = Transactor<MemoryInstance, MemoryStorage, Script>;
type B32 = [u8; 32];

const AMOUNT: u64 = 1000;

// ------------------------------------------------------------------ actions

#[derive(Debug, Clone, Copy, Serialize, Deserialize, PartialEq, Eq, Hash)]
enum Act {
    /// index into `Pool::creates`
    Create(u8),
    /// index into `Pool::blobs`
    Blob(u8),
    /// index into `Pool::roots`, subsection index
    Upload(u8, u8),
    /// index into `Pool::cps`
    UpgradeCp(u8),
    /// index into `Pool::sts`
    UpgradeSt(u8),
    AdoptCp,
    AdoptSt,
}

impl Act {
    fn kind(&self) -> &'static str {
        match self {
            Act::Create(_) => "create",
            Act::Blob(_) => "blob",
            Act::Upload(..) => "upload",
            Act::UpgradeCp(_) | Act::UpgradeSt(_) => "upgrade",
            Act::AdoptCp | Act::AdoptSt => "adopt",
        }
    }
    fn kind_idx(&self) -> usize {
        match self {
            Act::Create(_) => 0,
            Act::Blob(_) => 1,
            Act::Upload(..) => 2,
            Act::UpgradeCp(_) => 3,
            Act::UpgradeSt(_) => 4,
            Act::AdoptCp | Act::AdoptSt => 5,
        }
    }
}

const KIND_LABEL: [&str; 6] = ["create", "blob", "upload", "upgrade_cp", "upgrade_st", "adopt"];

// ------------------------------------------------------------------ pool

struct CreateTx {
    name: &'static str,
    tx: Checked<Create>,
    id: B32,
    code: Vec<u8>,
    slots: Vec<(B32, Vec<u8>)>,
}
struct BlobTx {
    name: &'static str,
    tx: Checked<Blob>,
    id: B32,
    data: Vec<u8>,
}
struct Root {
    name: &'static str,
    root: B32,
    parts: Vec<Vec<u8>>,
    txs: Vec<Checked<Upload>>,
}
struct CpTx {
    name: &'static str,
    tx: Checked<Upgrade>,
    value: ConsensusParameters,
}
struct StTx {
    name: &'static str,
    tx: Checked<Upgrade>,
    root: B32,
}

struct Pool {
    params: ConsensusParameters,
    creates: Vec<CreateTx>,
    blobs: Vec<BlobTx>,
    roots: Vec<Root>,
    cps: Vec<CpTx>,
    sts: Vec<StTx>,
    /// ids never produced by any pool transaction, probed to stay absent
    foreign_contract: B32,
    foreign_blob: B32,
    unknown_root: B32,
    alphabet: Vec<Act>,
}

fn predicate() -> Vec<u8> {
    vec![op::ret(1)].into_iter().collect()
}

/// One spendable input owned by the (privileged) predicate address; `n` makes the
/// UTXO id — and therefore the transaction id — distinct.
fn input(n: u8) -> Input {
    let p = predicate();
    let owner = Input::predicate_owner(&p);
    Input::coin_predicate(
        UtxoId::new([n; 32].into(), 0),
        owner,
        AMOUNT,
        AssetId::BASE,
        TxPointer::default(),
        0,
        p,
        vec![],
    )
}

fn change() -> Output {
    Output::change(Input::predicate_owner(predicate()), 0, AssetId::BASE)
}

fn policies() -> Policies {
    Policies::new().with_max_fee(AMOUNT)
}

fn mk_create(
    name: &'static str,
    n: u8,
    salt: u8,
    code: Vec<u8>,
    slots: Vec<(B32, B32)>,
    params: &ConsensusParameters,
) -> CreateTx {
    let salt = Salt::from([salt; 32]);
    let mut ss: Vec<StorageSlot> = slots
        .iter()
        .map(|(k, v)| StorageSlot::new((*k).into(), (*v).into()))
        .collect();
    ss.sort();
    let code_root = Contract::root_from_code(&code);
    let state_root = Contract::initial_state_root(ss.iter());
    let id = Contract::id(&salt, &code_root, &state_root);
    let tx = Transaction::create(
        0,
        policies(),
        salt,
        ss,
        vec![input(n)],
        vec![Output::contract_created(id, state_root), change()],
        vec![code.clone().into()],
    )
    .into_checked_basic(0u32.into(), params)
    .unwrap_or_else(|e| panic!("pool: create {name} does not check: {e:?}"));
    CreateTx {
        name,
        tx,
        id: *id,
        code,
        slots: slots.into_iter().map(|(k, v)| (k, v.to_vec())).collect(),
    }
}

fn mk_blob(name: &'static str, n: u8, data: Vec<u8>, params: &ConsensusParameters) -> BlobTx {
    let id = BlobId::compute(&data);
    let tx = Transaction::blob_from_bytes(data.clone(), policies(), vec![input(n)], vec![change()], vec![])
        .into_checked_basic(0u32.into(), params)
        .unwrap_or_else(|e| panic!("pool: blob {name} does not check: {e:?}"));
    BlobTx {
        name,
        tx,
        id: *id,
        data,
    }
}

fn mk_root(name: &'static str, n: u8, bytecode: Vec<u8>, sub: usize, params: &ConsensusParameters) -> Root {
    let subs = UploadSubsection::split_bytecode(&bytecode, sub).expect("split");
    let root: B32 = *subs[0].root;
    let parts: Vec<Vec<u8>> = subs.iter().map(|s| s.subsection.clone()).collect();
    let txs = subs
        .into_iter()
        .enumerate()
        .map(|(i, s)| {
            Transaction::upload_from_subsection(s, policies(), vec![input(n + i as u8)], vec![change()], vec![])
                .into_checked_basic(0u32.into(), params)
                .unwrap_or_else(|e| panic!("pool: upload {name}.{i} does not check: {e:?}"))
        })
        .collect();
    Root {
        name,
        root,
        parts,
        txs,
    }
}

fn mk_cp(name: &'static str, n: u8, value: ConsensusParameters, params: &ConsensusParameters) -> CpTx {
    let tx = Transaction::upgrade_consensus_parameters(&value, policies(), vec![input(n)], vec![change()], vec![])
        .expect("serialise consensus parameters")
        .into_checked_basic(0u32.into(), params)
        .unwrap_or_else(|e| panic!("pool: upgrade {name} does not check: {e:?}"));
    CpTx {
        name,
        tx,
        value,
    }
}

fn mk_st(name: &'static str, n: u8, root: B32, params: &ConsensusParameters) -> StTx {
    let tx = Transaction::upgrade(
        UpgradePurpose::StateTransition {
            root: root.into(),
        },
        policies(),
        vec![input(n)],
        vec![change()],
        vec![],
    )
    .into_checked_basic(0u32.into(), params)
    .unwrap_or_else(|e| panic!("pool: upgrade {name} does not check: {e:?}"));
    StTx {
        name,
        tx,
        root,
    }
}

fn pool() -> Pool {
    let mut params = ConsensusParameters::standard();
    params.set_privileged_address(Input::predicate_owner(predicate()));

    let code1: Vec<u8> = vec![op::ret(1)].into_iter().collect();
    let code2: Vec<u8> = vec![op::noop(), op::ret(0)].into_iter().collect();
    let creates = vec![
        mk_create("c1", 1, 1, code1.clone(), vec![], &params),
        mk_create("c1'", 2, 1, code1, vec![], &params),
        mk_create("c2", 3, 2, code2, vec![([0x02; 32], [0xa2; 32]), ([0x01; 32], [0xa1; 32])], &params),
    ];
    assert_eq!(creates[0].id, creates[1].id);
    assert_ne!(creates[0].id, creates[2].id);
    assert_ne!(creates[0].tx.id(), creates[1].tx.id());

    let blobs = vec![
        mk_blob("b1", 11, vec![0xb1; 5], &params),
        mk_blob("b1'", 12, vec![0xb1; 5], &params),
        mk_blob("b2", 13, vec![], &params),
    ];
    assert_eq!(blobs[0].id, blobs[1].id);
    assert_ne!(blobs[0].tx.id(), blobs[1].tx.id());

    // index 0 = R1 (3 parts: 2+2+1 bytes), 1 = R2 (2 parts: 2+1), 2 = R3 (1 part)
    let roots = vec![
        mk_root("R1", 21, vec![0x11, 0x12, 0x13, 0x14, 0x15], 2, &params),
        mk_root("R2", 31, vec![0x21, 0x22, 0x23], 2, &params),
        mk_root("R3", 41, vec![0x31, 0x32], 2, &params),
    ];
    assert_eq!(roots.iter().map(|r| r.parts.len()).collect::<Vec<_>>(), vec![3, 2, 1]);

    let mut p1 = ConsensusParameters::standard();
    p1.set_block_gas_limit(30_000_001);
    let mut p2 = ConsensusParameters::standard();
    p2.set_block_gas_limit(30_000_002);
    let cps = vec![mk_cp("P1", 51, p1, &params), mk_cp("P2", 52, p2, &params)];
    assert_ne!(cps[0].value, cps[1].value);

    let unknown_root = [0xee; 32];
    let sts = vec![
        mk_st("->R3", 61, roots[2].root, &params),
        mk_st("->R2", 62, roots[1].root, &params),
        mk_st("->R1", 63, roots[0].root, &params),
        mk_st("->unknown", 64, unknown_root, &params),
    ];

    // simplest first
    let mut alphabet = vec![];
    for i in 0..creates.len() {
        alphabet.push(Act::Create(i as u8));
    }
    for i in 0..blobs.len() {
        alphabet.push(Act::Blob(i as u8));
    }
    for r in [2usize, 1, 0] {
        for i in 0..roots[r].parts.len() {
            alphabet.push(Act::Upload(r as u8, i as u8));
        }
    }
    for i in 0..cps.len() {
        alphabet.push(Act::UpgradeCp(i as u8));
    }
    for i in 0..sts.len() {
        alphabet.push(Act::UpgradeSt(i as u8));
    }
    alphabet.push(Act::AdoptCp);
    alphabet.push(Act::AdoptSt);

    Pool {
        params,
        creates,
        blobs,
        roots,
        cps,
        sts,
        foreign_contract: [0xfc; 32],
        foreign_blob: [0xfb; 32],
        unknown_root,
        alphabet,
    }
}

impl Pool {
    fn describe(&self, a: &Act) -> String {
        match a {
            Act::Create(i) => format!("Create({})", self.creates[*i as usize].name),
            Act::Blob(i) => format!("Blob({})", self.blobs[*i as usize].name),
            Act::Upload(r, i) => format!("Upload({}.{i})", self.roots[*r as usize].name),
            Act::UpgradeCp(i) => format!("Upgrade(consensus {})", self.cps[*i as usize].name),
            Act::UpgradeSt(i) => format!("Upgrade(state transition {})", self.sts[*i as usize].name),
            Act::AdoptCp => "AdoptCp".into(),
            Act::AdoptSt => "AdoptSt".into(),
        }
    }
    fn describe_path(&self, p: &[Act]) -> String {
        p.iter().map(|a| self.describe(a)).collect::<Vec<_>>().join(", ")
    }
}

// ------------------------------------------------------------------ tables (reference and observation share the shape)

#[derive(Debug, Clone, PartialEq, Eq, Hash, PartialOrd, Ord)]
enum Progress {
    /// number of parts held, their concatenation
    Partial(u16, Vec<u8>),
    Completed(Vec<u8>),
}

#[derive(Debug, Clone, PartialEq, Eq, Hash, Default)]
struct Tables {
    contracts: BTreeMap<B32, Vec<u8>>,
    slots: BTreeMap<(B32, B32), Vec<u8>>,
    blobs: BTreeMap<B32, Vec<u8>>,
    uploads: BTreeMap<B32, Progress>,
    /// version -> index into `Pool::cps` (observation: -1 for a value that is none of them)
    consensus_versions: BTreeMap<u32, i32>,
    state_transition_versions: BTreeMap<u32, B32>,
    current_cp: u32,
    current_st: u32,
}

const TABLE_NAMES: [&str; 7] = [
    "contracts",
    "slots",
    "blobs",
    "uploads",
    "consensus_versions",
    "state_transition_versions",
    "current_versions",
];

impl Tables {
    /// Names of the tables that differ.
    fn diff(&self, o: &Tables) -> Vec<&'static str> {
        let mut d = vec![];
        if self.contracts != o.contracts {
            d.push(TABLE_NAMES[0]);
        }
        if self.slots != o.slots {
            d.push(TABLE_NAMES[1]);
        }
        if self.blobs != o.blobs {
            d.push(TABLE_NAMES[2]);
        }
        if self.uploads != o.uploads {
            d.push(TABLE_NAMES[3]);
        }
        if self.consensus_versions != o.consensus_versions {
            d.push(TABLE_NAMES[4]);
        }
        if self.state_transition_versions != o.state_transition_versions {
            d.push(TABLE_NAMES[5]);
        }
        if (self.current_cp, self.current_st) != (o.current_cp, o.current_st) {
            d.push(TABLE_NAMES[6]);
        }
        d
    }

    fn render(&self, table: &str) -> String {
        fn h(b: &[u8]) -> String {
            let s = hex::encode(b);
            if s.len() > 16 {
                format!("{}..({}B)", &s[..8], b.len())
            } else {
                format!("0x{s}")
            }
        }
        match table {
            "contracts" => format!("{:?}", self.contracts.iter().map(|(k, v)| (h(k), h(v))).collect::<Vec<_>>()),
            "slots" => format!(
                "{:?}",
                self.slots.iter().map(|((c, k), v)| (h(c), h(k), h(v))).collect::<Vec<_>>()
            ),
            "blobs" => format!("{:?}", self.blobs.iter().map(|(k, v)| (h(k), h(v))).collect::<Vec<_>>()),
            "uploads" => format!(
                "{:?}",
                self.uploads
                    .iter()
                    .map(|(k, v)| match v {
                        Progress::Partial(n, b) => format!("{}: Uncompleted(parts={n}, bytes={})", h(k), h(b)),
                        Progress::Completed(b) => format!("{}: Completed({})", h(k), h(b)),
                    })
                    .collect::<Vec<_>>()
            ),
            "consensus_versions" => format!(
                "{:?}",
                self.consensus_versions
                    .iter()
                    .map(|(k, v)| (*k, if *v >= 0 { format!("P{}", v + 1) } else { "<value not in pool>".to_string() }))
                    .collect::<Vec<_>>()
            ),
            "state_transition_versions" => format!(
                "{:?}",
                self.state_transition_versions.iter().map(|(k, v)| (*k, h(v))).collect::<Vec<_>>()
            ),
            _ => format!("cp={} st={}", self.current_cp, self.current_st),
        }
    }

    fn nonempty(&self) -> bool {
        !(self.contracts.is_empty()
            && self.blobs.is_empty()
            && self.uploads.is_empty()
            && self.consensus_versions.is_empty()
            && self.state_transition_versions.is_empty())
    }
}

// ------------------------------------------------------------------ reference transition (the oracle)

/// Applies `a` to the reference tables; returns the predicted verdict
/// (`true` = the transaction succeeds). Adopt* always "succeeds".
fn ref_step(pool: &Pool, t: &mut Tables, a: &Act) -> bool {
    match a {
        Act::Create(i) => {
            let c = &pool.creates[*i as usize];
            if t.contracts.contains_key(&c.id) {
                return false
            }
            t.contracts.insert(c.id, c.code.clone());
            for (k, v) in &c.slots {
                t.slots.insert((c.id, *k), v.clone());
            }
            true
        }
        Act::Blob(i) => {
            let b = &pool.blobs[*i as usize];
            if t.blobs.contains_key(&b.id) {
                return false
            }
            t.blobs.insert(b.id, b.data.clone());
            true
        }
        Act::Upload(r, i) => {
            let root = &pool.roots[*r as usize];
            let (held, mut bytes) = match t.uploads.get(&root.root) {
                None => (0u16, vec![]),
                Some(Progress::Partial(n, b)) => (*n, b.clone()),
                Some(Progress::Completed(_)) => return false,
            };
            if *i as u16 != held {
                return false
            }
            bytes.extend_from_slice(&root.parts[*i as usize]);
            let last = *i as usize == root.parts.len() - 1;
            let v = if last {
                Progress::Completed(bytes)
            } else {
                Progress::Partial(held + 1, bytes)
            };
            t.uploads.insert(root.root, v);
            true
        }
        Act::UpgradeCp(i) => {
            let v = t.current_cp + 1;
            if t.consensus_versions.contains_key(&v) {
                return false
            }
            t.consensus_versions.insert(v, *i as i32);
            true
        }
        Act::UpgradeSt(i) => {
            let root = pool.sts[*i as usize].root;
            if !matches!(t.uploads.get(&root), Some(Progress::Completed(_))) {
                return false
            }
            let v = t.current_st + 1;
            if t.state_transition_versions.contains_key(&v) {
                return false
            }
            t.state_transition_versions.insert(v, root);
            true
        }
        Act::AdoptCp => {
            if let Some((v, _)) = t.consensus_versions.iter().next_back() {
                t.current_cp = t.current_cp.max(*v);
            }
            true
        }
        Act::AdoptSt => {
            if let Some((v, _)) = t.state_transition_versions.iter().next_back() {
                t.current_st = t.current_st.max(*v);
            }
            true
        }
    }
}

// ------------------------------------------------------------------ observation of the real storage

/// Reads every table out of the real storage. `extra` collects inconsistencies
/// between two public views of the same table.
fn observe(pool: &Pool, st: &mut MemoryStorage, extra: &mut Vec<(&'static str, String)>) -> Tables {
    let mut t = Tables::default();
    // contracts / blobs: MemoryStorage offers no iteration, so the pool ids and one
    // foreign id are probed (the Debug rendering in the state key covers the rest).
    let mut cids: Vec<B32> = pool.creates.iter().map(|c| c.id).collect();
    cids.push(pool.foreign_contract);
    cids.sort();
    cids.dedup();
    for id in cids {
        let cid = ContractId::from(id);
        if let Some(c) = st.storage_as_ref::<ContractsRawCode>().get(&cid).expect("infallible") {
            t.contracts.insert(id, c.as_ref().as_ref().to_vec());
        }
        let exists = st.storage_contract_exists(&cid).expect("infallible");
        if exists != t.contracts.contains_key(&id) {
            extra.push(("contracts", format!("storage_contract_exists={exists} but get disagrees")));
        }
    }
    for (k, v) in st.all_contract_state() {
        t.slots.insert((**k.contract_id(), **k.state_key()), v.as_ref().to_vec());
    }
    let mut bids: Vec<B32> = pool.blobs.iter().map(|b| b.id).collect();
    bids.push(pool.foreign_blob);
    bids.sort();
    bids.dedup();
    for id in bids {
        if let Some(b) = st.storage_as_ref::<BlobData>().get(&BlobId::from(id)).expect("infallible") {
            t.blobs.insert(id, b.as_ref().as_ref().to_vec());
        }
    }
    // uploads: whole table, cross-checked with the storage trait view per root
    for (k, v) in st.state_transition_bytecodes_mut().iter() {
        let p = match v {
            UploadedBytecode::Uncompleted {
                bytecode,
                uploaded_subsections_number,
            } => Progress::Partial(*uploaded_subsections_number, bytecode.clone()),
            UploadedBytecode::Completed(b) => Progress::Completed(b.clone()),
        };
        t.uploads.insert(**k, p);
    }
    let mut roots: Vec<B32> = pool.roots.iter().map(|r| r.root).collect();
    roots.push(pool.unknown_root);
    for r in roots {
        let key = Bytes32::from(r);
        let via_trait = st
            .storage_as_ref::<UploadedBytecodes>()
            .get(&key)
            .expect("infallible")
            .map(|c| c.into_owned());
        let via_map = st.state_transition_bytecodes_mut().get(&key).cloned();
        if via_trait != via_map {
            extra.push(("uploads", format!("UploadedBytecodes::get != table for root {}", hex::encode(&r[..4]))));
        }
        let complete = st.contains_state_transition_bytecode_root(&key).expect("infallible");
        if complete != matches!(t.uploads.get(&r), Some(Progress::Completed(_))) {
            extra.push((
                "uploads",
                format!("contains_state_transition_bytecode_root({})={complete} disagrees with the table", hex::encode(&r[..4])),
            ));
        }
    }
    for (v, p) in st.consensus_parameters_versions_mut().iter() {
        let idx = pool.cps.iter().position(|c| &c.value == p).map(|i| i as i32).unwrap_or(-1);
        t.consensus_versions.insert(*v, idx);
    }
    for (v, r) in st.state_transition_bytecodes_versions_mut().iter() {
        t.state_transition_versions.insert(*v, **r);
    }
    t.current_cp = st.consensus_parameters_version().expect("infallible");
    t.current_st = st.state_transition_version().expect("infallible");
    t
}

// ------------------------------------------------------------------ model

struct M {
    pool: Pool,
    /// [kind][0 = ok, 1..=256 = panic reason byte + 1, 257 = other error]
    hist: Vec<Vec<AtomicU64>>,
    sampled: [AtomicBool; 6],
    failed_unchanged: AtomicU64,
}

impl M {
    fn new() -> M {
        M {
            pool: pool(),
            hist: (0..6).map(|_| (0..258).map(|_| AtomicU64::new(0)).collect()).collect(),
            sampled: Default::default(),
            failed_unchanged: AtomicU64::new(0),
        }
    }

    fn fresh_vm(&self) -> Vm {
        Interpreter::with_storage(
            MemoryInstance::new(),
            MemoryStorage::default(),
            InterpreterParams::new(0, &self.pool.params),
        )
    }

    fn flush_outcomes(&self, ctx: &Ctx) {
        for (k, row) in self.hist.iter().enumerate() {
            for (i, c) in row.iter().enumerate() {
                let n = c.load(Ordering::Relaxed);
                if n == 0 {
                    continue
                }
                let label = match i {
                    0 => format!("{}:ok", KIND_LABEL[k]),
                    257 => format!("{}:err:other", KIND_LABEL[k]),
                    _ => format!("{}:err:{:?}", KIND_LABEL[k], PanicReason::from((i - 1) as u8)),
                };
                ctx.outcome(&label, n);
            }
        }
        ctx.outcome("failed transaction, storage verified unchanged", self.failed_unchanged.load(Ordering::Relaxed));
    }
}

struct St {
    vm: Vm,
    refm: Tables,
    obs: Tables,
    /// (length, hash) of the Debug rendering of the whole real storage: part of the
    /// key and compared before/after a failed transaction
    dump: (usize, u64),
}

fn dump_of(vm: &Vm) -> (usize, u64) {
    let s: &MemoryStorage = vm.as_ref();
    let d = format!("{s:?}");
    (d.len(), hash64(&d))
}

type TxResult = Result<(), InterpreterError<Infallible>>;

impl Model for M {
    type State = St;
    type Action = Act;
    type Key = (Tables, (usize, u64));

    fn init(&self) -> St {
        let mut vm = self.fresh_vm();
        let mut extra = vec![];
        let obs = observe(&self.pool, vm.as_mut(), &mut extra);
        let dump = dump_of(&vm);
        St {
            vm,
            refm: Tables::default(),
            obs,
            dump,
        }
    }

    fn actions(&self, _s: &St) -> Vec<Act> {
        self.pool.alphabet.clone()
    }

    fn step(&self, s: &St, a: &Act, path: &[Act], ctx: &Ctx) -> Option<St> {
        let pool = &self.pool;
        let full = || {
            let mut p = path.to_vec();
            p.push(*a);
            p
        };
        let viol = |key: String, what: String| {
            let p = full();
            ctx.violation(
                key,
                format!("after [{}]: {what}", pool.describe_path(&p)),
                json!({"actions": p}),
            );
        };
        ctx.evals(1);

        // ---- reference
        let mut refm = s.refm.clone();
        let expect_ok = ref_step(pool, &mut refm, a);

        // ---- real
        let mut vm = s.vm.clone();
        let verdict: Option<TxResult> = match a {
            Act::AdoptCp => {
                vm.as_mut().set_consensus_parameters_version(refm.current_cp);
                None
            }
            Act::AdoptSt => {
                vm.as_mut().set_state_transition_version(refm.current_st);
                None
            }
            _ => {
                let mut t: Tr = Transactor::from(vm);
                let r = guard::catch_any(|| match a {
                    Act::Create(i) => t.deploy(pool.creates[*i as usize].tx.clone()).map(|_| ()),
                    Act::Blob(i) => t.blob(pool.blobs[*i as usize].tx.clone()).map(|_| ()),
                    Act::Upload(r, i) => t.upload(pool.roots[*r as usize].txs[*i as usize].clone()).map(|_| ()),
                    Act::UpgradeCp(i) => t.upgrade(pool.cps[*i as usize].tx.clone()).map(|_| ()),
                    Act::UpgradeSt(i) => t.upgrade(pool.sts[*i as usize].tx.clone()).map(|_| ()),
                    Act::AdoptCp | Act::AdoptSt => unreachable!(),
                });
                vm = t.into();
                match r {
                    Ok(r) => Some(r),
                    Err(msg) => {
                        viol(
                            format!("C35:{}:host-panic", a.kind()),
                            format!("the transaction executor panicked: {msg}"),
                        );
                        return None
                    }
                }
            }
        };

        let mut extra = vec![];
        let obs = observe(pool, vm.as_mut(), &mut extra);
        let dump = dump_of(&vm);

        if let Some(r) = &verdict {
            let slot = match r {
                Ok(()) => 0usize,
                Err(InterpreterError::Panic(p)) => *p as u8 as usize + 1,
                Err(InterpreterError::PanicInstruction(p)) => *p.reason() as u8 as usize + 1,
                Err(_) => 257,
            };
            self.hist[a.kind_idx()][slot].fetch_add(1, Ordering::Relaxed);

            // (1) verdict
            if r.is_ok() != expect_ok {
                viol(
                    format!("C35:{}:verdict", a.kind()),
                    format!(
                        "{} expected {}, observed {}",
                        pool.describe(a),
                        if expect_ok { "Ok" } else { "Err" },
                        match r {
                            Ok(()) => "Ok".to_string(),
                            Err(e) => format!("Err({e:?})"),
                        }
                    ),
                );
                return None
            }
            // (2) a failed transaction leaves everything unchanged
            if let Err(e) = r {
                let d = s.obs.diff(&obs);
                if !d.is_empty() || dump != s.dump {
                    let what = if let Some(t) = d.first() {
                        format!(
                            "failed {} ({e:?}) changed table(s) {d:?}: {t} was {} and is now {}",
                            pool.describe(a),
                            s.obs.render(t),
                            obs.render(t)
                        )
                    } else {
                        format!(
                            "failed {} ({e:?}) changed the storage outside the probed keys (Debug rendering differs)",
                            pool.describe(a)
                        )
                    };
                    viol(format!("C35:failed-{}-changes-tables", a.kind()), what);
                    return None
                }
                self.failed_unchanged.fetch_add(1, Ordering::Relaxed);
            }
        } else {
            self.hist[a.kind_idx()][0].fetch_add(1, Ordering::Relaxed);
        }

        // (3) tables equal the reference tables
        let d = refm.diff(&obs);
        if !d.is_empty() || !extra.is_empty() {
            for t in &d {
                viol(
                    format!("C35:{t}:contents"),
                    format!("table {t}: expected {}, observed {}", refm.render(t), obs.render(t)),
                );
            }
            for (t, m) in &extra {
                viol(format!("C35:{t}:contents"), m.clone());
            }
            return None
        }

        // ---- samples (one per class, first occurrence)
        if let Some(r) = &verdict {
            let long = path.len() >= 3;
            let class = match (a, r) {
                // stale consensus-parameter upgrade after the node already adopted a version
                (Act::UpgradeCp(_), Err(_)) if path.contains(&Act::AdoptCp) => Some(0),
                // state-transition upgrade installed under version 2
                (Act::UpgradeSt(_), Ok(())) if refm.state_transition_versions.len() >= 2 => Some(1),
                // out-of-order subsection while two roots are in progress
                (Act::Upload(..), Err(InterpreterError::Panic(PanicReason::ThePartIsNotSequentiallyConnected)))
                    if long && refm.uploads.values().filter(|p| matches!(p, Progress::Partial(..))).count() >= 2 =>
                {
                    Some(2)
                }
                // completely uploaded root refused because the version is taken by another root
                (Act::UpgradeSt(i), Err(_))
                    if matches!(refm.uploads.get(&pool.sts[*i as usize].root), Some(Progress::Completed(_)))
                        && !refm.state_transition_versions.values().any(|r| *r == pool.sts[*i as usize].root) =>
                {
                    Some(3)
                }
                // same contract id / blob id from a different transaction
                (Act::Create(1), Err(_)) if long && path.contains(&Act::Create(0)) => Some(4),
                (Act::Blob(1), Err(_)) if long && path.contains(&Act::Blob(0)) => Some(5),
                _ => None,
            };
            if let Some(c) = class {
                if !self.sampled[c].swap(true, Ordering::Relaxed) {
                    let p = full();
                    ctx.sample(json!({
                        "actions": pool.describe_path(&p),
                        "last_verdict": match r { Ok(()) => "Ok".to_string(), Err(e) => format!("Err({e:?})") },
                        "predicted": if expect_ok { "Ok" } else { "Err" },
                        "tables_after": {
                            "contracts": obs.render("contracts"),
                            "blobs": obs.render("blobs"),
                            "uploads": obs.render("uploads"),
                            "consensus_versions": obs.render("consensus_versions"),
                            "state_transition_versions": obs.render("state_transition_versions"),
                            "current": obs.render("current_versions"),
                        },
                    }));
                }
            }
        }

        Some(St {
            vm,
            refm,
            obs,
            dump,
        })
    }

    fn key(&self, s: &St) -> Self::Key {
        (s.obs.clone(), s.dump)
    }

    fn check(&self, s: &St, path: &[Act], ctx: &Ctx) {
        // transition-level oracles run in `step`; the initial state is checked here
        if path.is_empty() {
            let d = s.refm.diff(&s.obs);
            for t in d {
                ctx.violation(
                    format!("C35:{t}:contents"),
                    format!("initial state: table {t} is not empty: {}", s.obs.render(t)),
                    json!({"actions": Vec::<Act>::new()}),
                );
            }
        }
        if s.refm.nonempty() {
            ctx.fp_of(&s.refm);
        }
    }
}

// ------------------------------------------------------------------ driver

fn explore(ctx: &Ctx) {
    let m = M::new();
    ctx.rule(
        "explicit-state BFS: all sequences of pool actions up to the depth bound, states merged on \
         (all tables, current versions, hash of the storage's Debug rendering); every transition calls the real \
         Transactor::{deploy,blob,upload,upgrade} on a clone of the state's interpreter+MemoryStorage and is compared \
         with the reference tables. evals = transitions executed; a state is non-trivial when at least one table is \
         non-empty; distinct = distinct reference table states reached",
    );
    ctx.assume(
        "contracts and blobs are read at the pool ids plus one foreign id (MemoryStorage has no iteration for these \
         two tables); slots, uploads and both version tables are read completely; the Debug rendering of the whole \
         MemoryStorage is compared before/after every failed transaction and is part of the state key",
    );
    ctx.assume(
        "transactions are Checked with into_checked_basic (no signature / predicate verification) under consensus \
         parameters whose privileged address owns the inputs; gas price 0",
    );
    ctx.assume("AdoptCp/AdoptSt model the node (block producer) advancing its current version to the highest installed one");
    ctx.set(
        "dont_care",
        json!([
            "which error (PanicReason) a failing transaction reports, e.g. unknown root vs. taken version when both apply",
            "the transaction returned by a successful call (outputs, receipts)",
            "behaviour at current version = u32::MAX (saturating_add), not reachable from version 0 within the bound",
            "contract balances (ContractsAssets) except that failed transactions must not change them",
        ]),
    );
    let p = &m.pool;
    ctx.set(
        "alphabet",
        json!(p.alphabet.iter().map(|a| p.describe(a)).collect::<Vec<_>>()),
    );
    ctx.set(
        "pool",
        json!({
            "creates": p.creates.iter().map(|c| json!({"name": c.name, "contract_id": hex::encode(c.id), "code_len": c.code.len(), "slots": c.slots.len(), "tx_id": hex::encode(*c.tx.id())})).collect::<Vec<_>>(),
            "blobs": p.blobs.iter().map(|b| json!({"name": b.name, "blob_id": hex::encode(b.id), "len": b.data.len(), "tx_id": hex::encode(*b.tx.id())})).collect::<Vec<_>>(),
            "upload_roots": p.roots.iter().map(|r| json!({"name": r.name, "root": hex::encode(r.root), "part_lens": r.parts.iter().map(|x| x.len()).collect::<Vec<_>>()})).collect::<Vec<_>>(),
            "consensus_upgrades": p.cps.iter().map(|c| c.name).collect::<Vec<_>>(),
            "state_transition_upgrades": p.sts.iter().map(|s| json!({"name": s.name, "root": hex::encode(s.root)})).collect::<Vec<_>>(),
        }),
    );

    let depth = std::env::var("VERIF_C35_DEPTH")
        .ok()
        .and_then(|d| d.parse().ok())
        .unwrap_or(ctx.pick(8usize, 12usize));
    let stats = bfs::bfs(&m, depth, ctx.pick(2_000_000, 20_000_000), ctx);
    ctx.set(
        "bfs",
        json!({
            "depth_bound": depth,
            "completed_depth": stats.completed_depth,
            "capped": stats.capped,
            "states": stats.states,
            "transitions": stats.transitions,
            "new_states_per_depth": stats.per_depth,
            "paths_without_merging": (0..=stats.completed_depth as u32).map(|d| (p.alphabet.len() as u128).pow(d).to_string()).collect::<Vec<_>>(),
        }),
    );
    m.flush_outcomes(ctx);
}

fn replay(case: &Value, ctx: &Ctx) {
    let acts: Vec<Act> = serde_json::from_value(case["actions"].clone()).expect("actions");
    let m = M::new();
    bfs::replay_path(&m, &acts, ctx);
}

fn main() {
    run_check("C35", Level::ModelChecking, explore, replay)
}
