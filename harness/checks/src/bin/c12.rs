//! C12 — Sparse Merkle root depends only on the final key-value map.
//!
//! Explicit-state BFS; every transition is a call into the real
//! `fuel_merkle::sparse::MerkleTree` (over the harness-owned node storage
//! `vcore::nodestore::Shared<Table>`) and, in lock-step, the `in_memory` wrapper.
//!
//! Space. Actions `Insert(k, v)` and `Delete(k)`, k from a key alphabet built to
//!   collide inside the tree (keys enter UNHASHED through `unsafe MerkleTreeKey::convert`):
//!   00…00, 00…01, 00…02 (share 255/254 bits), 80…00 (differs in bit 0), ff…ff, ff…fe,
//!   55…55, 55…54 (share 255 bits); thorough adds 7f…ff and 00…00‖80 (byte-boundary
//!   split). v ∈ {"", "a", "b"}. All histories up to the depth bound, merged on the state
//!   key (reference map, SHA-256 of the sorted node-storage contents, root). The trees
//!   are not `Clone`: a state is its history and is rebuilt by replay (`load` is NOT
//!   used to rebuild states; it is under test in C13).
//!   The in_memory wrapper's private storage is not observable, therefore in addition
//!   ALL histories up to a (smaller) depth are run on it without any merging.
//! Bound. quick: depth 4 over 8 keys (32 actions) + unmerged in_memory histories ≤ 3;
//!   thorough: depth 6 over 10 keys (37 actions) + unmerged in_memory histories ≤ 4.
//! Oracle. `vcore::oracle::smt_root` of the reference map (leaf = H(0x00,key,H(value)),
//!   node = H(0x01,l,r), empty = 32 zero bytes, single-leaf subtrees not expanded),
//!   written from the property statement; nothing from fuel-merkle.
//!   Invariants on every distinct state: tree.root() == reference root; in_memory root
//!   == reference root; `sparse::MerkleTree::from_set` (map order and reversed),
//!   `in_memory::from_set`, `root_from_set`, `nodes_from_set` (and `load` of the returned
//!   nodes at the returned root) over the reference map give the reference root.
//!   Every operation on intact storage must return Ok and not panic.
//! Empty values: `insert(k, "")` stores a leaf with H("") (see smtmodel.rs header); the
//!   reference map keeps the key present with the empty value.

#[path = "../smtmodel.rs"]
mod smtmodel;

use fuel_merkle::sparse::in_memory;
use smtmodel::*;
use std::collections::BTreeMap;
use vcore::{
    bfs::{
        self,
        Model,
    },
    guard,
    json,
    oracle::H256,
    run_check,
    space,
    Ctx,
    Level,
    Value,
};

struct M {
    nkeys: usize,
}

#[derive(Clone)]
struct St {
    hist: Vec<Act>,
    refc: Vec<(u8, u8)>,
    digest: H256,
    root: H256,
}

fn case(nkeys: usize, hist: &[Act]) -> Value {
    json!({"model": "merged", "nkeys": nkeys, "actions": hist, "readable": hist_names(hist)})
}

fn viol(ctx: &Ctx, nkeys: usize, hist: &[Act], key: String, expected: String, observed: String) {
    ctx.violation(
        key,
        format!("after {:?}: expected {expected}, observed {observed}", hist_names(hist)),
        case(nkeys, hist),
    );
}

fn hx(h: &H256) -> String {
    hex::encode(h)
}

fn show<E: std::fmt::Debug>(r: &Result<H256, E>) -> String {
    match r {
        Ok(h) => hx(h),
        Err(e) => format!("{e:?}"),
    }
}

fn show2(r: &Result<Result<H256, String>, String>) -> String {
    match r {
        Ok(x) => show(x),
        Err(p) => format!("panic: {p}"),
    }
}

impl M {
    fn state_of(&self, l: &Live, hist: Vec<Act>) -> St {
        St {
            hist,
            refc: ref_compact(&l.refm),
            digest: store_digest(&l.store),
            root: l.root(),
        }
    }

    fn set_checks(&self, ctx: &Ctx, hist: &[Act], refm: &RefMap, eroot: &H256) {
        let n = self.nkeys;
        let fwd: Vec<(H256, Vec<u8>)> = refm.iter().map(|(k, v)| (*k, v.clone())).collect();
        let mut rev = fwd.clone();
        rev.reverse();
        for (order, set) in [("sorted", &fwd), ("reversed", &rev)] {
            // storage-backed from_set over a fresh harness store
            let store = Store::new();
            let r = guard::catch_any(|| {
                Tree::from_set(store.clone(), set.iter().map(|(k, v)| (*k, v.clone())))
                    .map(|t| t.root())
                    .map_err(|e| format!("{e:?}"))
            });
            if r != Ok(Ok(*eroot)) {
                viol(ctx, n, hist, "C12:from_set".into(), hx(eroot), format!("{order}: {}", show2(&r)));
            }
            let r = guard::catch_any(|| {
                in_memory::MerkleTree::from_set(set.iter().map(|(k, v)| (mk(k), v.clone()))).root()
            });
            if r != Ok(*eroot) {
                viol(ctx, n, hist, "C12:inmem-from_set".into(), hx(eroot), format!("{order}: {}", show(&r)));
            }
            let r = guard::catch_any(|| {
                in_memory::MerkleTree::root_from_set(set.iter().map(|(k, v)| (mk(k), v.clone())))
            });
            if r != Ok(*eroot) {
                viol(ctx, n, hist, "C12:root_from_set".into(), hx(eroot), format!("{order}: {}", show(&r)));
            }
            let r = guard::catch_any(|| {
                in_memory::MerkleTree::nodes_from_set(set.iter().map(|(k, v)| (mk(k), v.clone())))
            });
            match r {
                Ok((root, nodes)) => {
                    if root != *eroot {
                        viol(ctx, n, hist, "C12:nodes_from_set".into(), hx(eroot), format!("{order}: {}", hx(&root)));
                    } else {
                        let store = Store::from_map(nodes.into_iter().collect::<BTreeMap<_, _>>());
                        match load_tree(store, &root) {
                            Ok(t) if t.root() == *eroot => {}
                            Ok(t) => viol(ctx, n, hist, "C12:nodes_from_set+load".into(), hx(eroot), hx(&t.root())),
                            Err(e) => viol(ctx, n, hist, "C12:nodes_from_set+load".into(), "Ok(tree)".into(), format!("{e:?}")),
                        }
                    }
                }
                Err(p) => viol(ctx, n, hist, "C12:nodes_from_set".into(), hx(eroot), format!("panic {p}")),
            }
        }
    }
}

impl Model for M {
    type State = St;
    type Action = Act;
    type Key = (Vec<(u8, u8)>, H256, H256);

    fn init(&self) -> St {
        let l = Live::new(false);
        self.state_of(&l, vec![])
    }

    fn actions(&self, _s: &St) -> Vec<Act> {
        alphabet(self.nkeys)
    }

    fn step(&self, s: &St, a: &Act, _path: &[Act], ctx: &Ctx) -> Option<St> {
        let mut h = s.hist.clone();
        h.push(a.clone());
        match replay_hist(&h, false) {
            Ok(l) => {
                ctx.outcome(&format!("transition:{}", l.last_class), 1);
                // samples: a delete that makes an orphan leaf climb past placeholders
                if l.last_class == "delete-present" && l.refm.len() >= 2 && h.len() >= 4 && ctx.sample_count() < 4 {
                    ctx.sample(json!({
                        "actions": hist_names(&h),
                        "final_map": l.refm.iter().map(|(k, v)| format!("{} -> {:?}", kname(k), String::from_utf8_lossy(v))).collect::<Vec<_>>(),
                        "root": hx(&l.root()),
                        "reference_root": hx(&ref_root(&l.refm)),
                        "stored_nodes": l.store.len(),
                        "checked_on_state": "root, in_memory root, from_set x2 orders, in_memory::from_set, root_from_set, nodes_from_set(+load) == reference root",
                    }));
                }
                Some(self.state_of(&l, h))
            }
            Err((i, e)) => {
                let kind = match &h[i] {
                    Act::Ins(..) => "insert",
                    Act::Del(..) => "delete",
                    Act::Reload => "reload",
                };
                viol(ctx, self.nkeys, &h[..=i], format!("C12:op-failed:{kind}"), "Ok(())".into(), e);
                None
            }
        }
    }

    fn key(&self, s: &St) -> Self::Key {
        (s.refc.clone(), s.digest, s.root)
    }

    fn check(&self, s: &St, _path: &[Act], ctx: &Ctx) {
        let l = match replay_hist(&s.hist, true) {
            Ok(l) => l,
            Err((i, e)) => {
                viol(ctx, self.nkeys, &s.hist[..=i], "C12:op-failed:lockstep".into(), "Ok(())".into(), e);
                return
            }
        };
        let eroot = ref_root(&l.refm);
        let class = l.last_class;
        if l.root() != eroot {
            viol(ctx, self.nkeys, &s.hist, format!("C12:root:{class}"), hx(&eroot), hx(&l.root()));
        }
        let mroot = guard::catch_any(|| l.mem.as_ref().unwrap().root());
        if mroot != Ok(eroot) {
            viol(ctx, self.nkeys, &s.hist, format!("C12:inmem-root:{class}"), hx(&eroot), show(&mroot));
        }
        self.set_checks(ctx, &s.hist, &l.refm, &eroot);
        ctx.evals(1);
        ctx.outcome(&format!("state:keys={}", l.refm.len()), 1);
        if !l.refm.is_empty() {
            ctx.fp_of(&(&s.refc, &s.digest));
        }
    }
}

/// All histories of length <= `maxlen` over the alphabet on the in_memory wrapper
/// (no merging: its storage is private). Every prefix is itself a history of the same
/// enumeration, so only the final root of each history is compared.
fn inmem_histories(ctx: &Ctx, nkeys: usize, maxlen: u32) -> u64 {
    let alpha = alphabet(nkeys);
    let a = alpha.len() as u64;
    let total = space::seq_count(a, maxlen);
    space::par_chunks(
        total,
        4096,
        || (),
        |idx, _acc| {
            let digits = space::seq_at(a, maxlen, idx);
            let hist: Vec<Act> = digits.iter().map(|d| alpha[*d as usize].clone()).collect();
            inmem_one(ctx, nkeys, &hist);
        },
        |_| (),
    );
    ctx.evals(total);
    total
}

fn inmem_one(ctx: &Ctx, nkeys: usize, hist: &[Act]) {
    let keys = all_keys();
    let mut refm = RefMap::new();
    let mut class = "init";
    let r = guard::catch_any(|| {
        let mut t = in_memory::MerkleTree::new();
        for a in hist {
            class = classify(&refm, a);
            match a {
                Act::Ins(k, v) => t.update(mk(&keys[*k as usize]), VALUES[*v as usize]),
                Act::Del(k) => t.delete(mk(&keys[*k as usize])),
                Act::Reload => {}
            }
            apply_ref(&mut refm, a);
        }
        t.root()
    });
    let eroot = ref_root(&refm);
    if r != Ok(eroot) {
        ctx.violation(
            format!("C12:inmem-root:{class}"),
            format!("in_memory after {:?}: expected {}, observed {}", hist_names(hist), hx(&eroot), show(&r)),
            json!({"model": "inmem", "nkeys": nkeys, "actions": hist, "readable": hist_names(hist)}),
        );
    }
}

fn explore(ctx: &Ctx) {
    self_test();
    ctx.rule(
        "explicit-state BFS over the real sparse::MerkleTree (harness node storage) with the in_memory wrapper \
         in lock-step; states merged on (reference map, SHA-256 of sorted node storage, root); a state is \
         non-trivial when its map holds >=1 key; distinct = distinct (map, storage contents). Plus all unmerged \
         histories <= d on the in_memory wrapper.",
    );
    ctx.assume("sha2 crate and the harness compact-SMT reference (vcore::oracle::smt_root) are correct");
    ctx.assume("SHA-256 of the sorted node-storage contents stands in for the contents in state keys");
    ctx.assume(
        "insert(k, \"\") stores a leaf with value hash H(\"\") (code + unit tests test_insert_empty_data_changes_root); \
         the reference map keeps the key present; only delete removes a key",
    );
    ctx.assume(
        "merging: the tree's whole state is (root node, node storage); the in_memory wrapper is replayed on the \
         representative history of each merged state and additionally on all unmerged histories up to inmem_depth",
    );
    ctx.set("dont_care", json!(["contents of the node storage (garbage or not) — only kept in the state key", "which error an operation returns (any Err/panic on intact storage is a violation)"]));
    let (nkeys, depth, mdepth) = ctx.pick((8usize, 5usize, 3u32), (10, 6, 4));
    let keys = all_keys();
    ctx.set(
        "alphabet",
        json!({
            "keys": keys[..nkeys].iter().map(hex::encode).collect::<Vec<_>>(),
            "values": VALUE_NAMES,
            "actions": alphabet(nkeys).len(),
        }),
    );
    let m = M {
        nkeys,
    };
    let st = bfs::bfs(&m, depth, 3_000_000, ctx);
    ctx.set(
        "merged_bfs",
        json!({"depth_bound": depth, "completed_depth": st.completed_depth, "states": st.states, "transitions": st.transitions, "per_depth": st.per_depth, "capped": st.capped}),
    );
    let t_bfs = ctx.elapsed();
    let n = inmem_histories(ctx, nkeys, mdepth);
    ctx.set("wall_s_parts", json!({"merged_bfs": t_bfs, "inmem_unmerged": ctx.elapsed() - t_bfs}));
    ctx.set("inmem_unmerged", json!({"max_len": mdepth, "histories": n}));
}

fn replay(case: &Value, ctx: &Ctx) {
    self_test();
    let acts: Vec<Act> = serde_json::from_value(case["actions"].clone()).expect("actions");
    let nkeys = case["nkeys"].as_u64().expect("nkeys") as usize;
    match case["model"].as_str() {
        Some("merged") => bfs::replay_path(
            &M {
                nkeys,
            },
            &acts,
            ctx,
        ),
        Some("inmem") => inmem_one(ctx, nkeys, &acts),
        other => panic!("unknown model {other:?}"),
    }
}

fn main() {
    tune_allocator();
    run_check("C12", Level::ModelChecking, explore, replay)
}
