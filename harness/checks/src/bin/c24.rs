//! C24 — Programs can only write memory they own.
//!
//! SPACE. All programs of length <= k over the 99-letter alphabet A24 (a letter = 1..3
//! instructions; operands come from the progkit prelude plus a 13-instruction extra
//! prelude loading MEM-8, the tx offset, lengths, a blob-id pointer, a balance-table
//! pointer, a pointer to two alt_bn128 points and a non-zero store value), each executed in four
//! contexts on the real
//! interpreter, instruction by instruction:
//!   * `script`       — the program is the script body;
//!   * `callee-bare`  — the program is the code of contract A, called from a script that
//!                      owns neither stack nor heap;
//!   * `callee-rich`  — the same, called from a script that owns 16 bytes of stack and 64
//!                      bytes of heap (non-zero words in both), so "caller's frame /
//!                      caller's heap" are allocated-but-foreign addresses; before its own
//!                      first allocation the callee's $hp points at the caller's heap, so
//!                      every `@hp` letter then targets foreign allocated memory.
//!   * `callee-deep`  — script (owning stack and heap as in callee-rich) -> contract A
//!                      (owns 16 bytes of stack, allocates 64 bytes of heap and writes a
//!                      canary, then calls) -> the program as the code of contract B: every
//!                      `@hp` letter first targets the *intermediate* caller's heap, every
//!                      store below $fp its frame/stack; the owned heap is bounded by the
//!                      direct caller's saved $hp, not the outermost one.
//! The letter `call` targets the *other* contract (A from the script and from B, B from
//! inside A), a fixed "citizen" that grows and writes its own stack and heap (in
//! callee-deep A acts as the citizen when re-entered), so nesting depth is <= 3.
//! Every program is padded with `ret` to the same number of instruction slots (3k+1), so
//! all programs of one run have the same memory layout. A program whose execution ends
//! before its last letter (panic / ret / revert in an earlier letter) is behaviourally
//! identical to its executed prefix (same layout, the tail is never fetched nor read), so
//! only extensions of *live* prefixes are executed; the number of programs represented
//! this way is reported (`represented_by_executed_prefix`).  k = 3 quick, k = 5 thorough (time cap).
//!
//! ORACLE 1 (write monitor). Memory (raw stack + raw heap buffers, address mapped) is
//! compared before/after every step. Every changed byte must lie in
//!   (a) the executing frame's stack [$ssp,$sp) on the registers before or after the step,
//!   (b) its heap [$hp_after, caller's $hp) (caller's $hp from a shadow stack kept by the
//!       monitor; MEM for the script),
//!   (c) the VM's own write set of that opcode, enumerated from the documented layout:
//!       CALL (entered)  -> [old $sp, new $ssp)  (call frame + code);
//!       CALL/TR/TRO/SMO executed by the *script* -> the 8-byte value fields of the free
//!                          balance table (64 + 40*i + 32, i < #assets of the inputs);
//!       TRO             -> the variable-output slots of the tx image
//!                          (tx_offset + outputs_offset_at(i), size of the output);
//!       LDC             -> [old $ssp, new $ssp) and, inside a call, the 8-byte code-size
//!                          field of the current call frame ($fp + 576).
//! Anything else: `C24:<OP>:unowned-write:<region>`.
//!
//! ORACLE 2 (faulting accesses). For the opcodes of the alphabet the operand ranges are
//! decoded from the specification semantics (not from the implementation). If a range
//! exceeds MEM, touches never-allocated memory [high-water $sp, $hp), or (writes) is not
//! fully owned, the step must be a VM panic whose reason is in the applicable set
//! {MemoryOverflow, UninitalizedMemoryAccess, MemoryOwnership, MemoryWriteOverlap} (plus
//! the opcode's documented non-memory reasons) and memory must be unchanged. (SRDI writes
//! only when the slot exists, so for it a missing panic is not reported; oracle 1 applies.)
//! For every write opcode there are letters whose range STARTS in owned memory and ends
//! outside it ("first chunk owned, later chunk not"): `@sp-8`/`@sp-4`/`srwq2@ssp` cross $sp
//! into allocated-but-released stack (after `stk40of64`, `cfsi8` or a returned call), `@hp`
//! letters longer than the callee's own allocation (`aloc8`/`aloc32`) cross the caller's
//! saved $hp into the caller's heap. (LDC's destination is chosen by the VM, not the program.)
//! Every ownership-checked write site of the interpreter has a letter: SB/SQW/SHW/SW,
//! MCL/MCLI/MCP/MCPI, S256/K256, ECK1/ECR1/ECOP, the six wide-integer families, CCP, BLDD,
//! CB, BHSH, CROO, SRWQ (1 and 2 slots), SRDI, SRDD; plus PSHL/POPL, CFEI/CFSI, ALOC, LDC, CALL, TR/TRO/SMO, RET/RETD
//! and loads LB/LW.
//! Keys: `C24:<OP>:no-panic:<kind>`, `C24:<OP>:wrong-reason:<kind>` (kind = unowned |
//! never-allocated | beyond-mem | read-never-allocated | read-beyond-mem | overlap),
//! `C24:<OP>:faulting-access-changed-memory`.

#[path = "../progkit.rs"]
mod progkit;

use fuel_asm::{
    op,
    wideint::{
        DivArgs,
        MathArgs,
        MathOp,
        MulArgs,
    },
    Instruction,
    Opcode,
    PanicReason,
    RegId,
};
use fuel_storage::StorageMutate;
use fuel_tx::{
    field::{
        Inputs,
        Outputs,
    },
    StorageSlot,
};
use fuel_types::{
    canonical::Serialize as _,
    AssetId,
    BlobId,
    Bytes32,
};
use fuel_vm::{
    call::CallFrame,
    consts::{
        VM_MAX_RAM,
        VM_MEMORY_BALANCES_OFFSET,
    },
    storage::{
        BlobData,
        InterpreterStorage,
    },
};
use progkit::*;
use std::collections::{
    BTreeMap,
    BTreeSet,
    HashSet,
};
use vcore::{
    json,
    run::hash64,
    run_check,
    space,
    vmkit::{
        self,
        Step,
        Vm,
    },
    Ctx,
    Level,
    Value,
};

// ---- documented layout (fuel-specs: VM initialisation, call frames) -----------------
const MEM: u64 = 1 << 26; // VM_MAX_RAM = 64 MiB
const BAL_OFF: u64 = 64; // tx id (32) | base asset id (32) | balance table
const BAL_ENTRY: u64 = 40; // asset id (32) | value (8)
const FRAME_SIZE: u64 = 32 + 32 + 64 * 8 + 8 + 8 + 8; // to | asset | regs | code size | a | b
const FRAME_CODE_SIZE_OFF: u64 = 32 + 32 + 64 * 8;

const SSP: usize = 4;
const SP: usize = 5;
const FP: usize = 6;
const HP: usize = 7;
const PC: usize = 3;
const IS: usize = 12;

// ---- registers of the extra prelude ---------------------------------------------------
const R: u8 = 0x10; // pointer scratch (set by every letter that uses it)
const R2: u8 = 0x11; // status output
const R_MEM8: u8 = 0x29; // MEM - 8
const R_TX: u8 = 0x2a; // tx offset
const R_L8: u8 = 0x2b;
const R_L32: u8 = 0x2c;
const R_L4096: u8 = 0x2d;
const R_IDX: u8 = 0x2e; // index of the first variable output
const R_BLOB: u8 = 0x2f; // pointer to a blob id
const R_BAL: u8 = 0x30; // value field of the first balance-table entry
const V: u8 = 0x31; // non-zero value to store
const R_TWO: u8 = 0x34; // the constant 2 (slot count)
const R_DEEP: u8 = 0x33; // 0 until the middleman contract of `callee-deep` ran once
const R_EC: u8 = 0x32; // pointer to two alt_bn128 G1 points (generator twice)

const GAS: u64 = 1_000_000;
const MAX_STEPS: u32 = 400;
const BLOB: [u8; 32] = [0xB0; 32];

#[derive(Clone, Copy, PartialEq, Eq, Debug, Hash)]
enum Kind {
    Script,
    CalleeBare,
    CalleeRich,
    CalleeDeep,
}

impl Kind {
    fn name(self) -> &'static str {
        match self {
            Kind::Script => "script",
            Kind::CalleeBare => "callee-bare",
            Kind::CalleeRich => "callee-rich",
            Kind::CalleeDeep => "callee-deep",
        }
    }

    fn from_name(s: &str) -> Kind {
        match s {
            "script" => Kind::Script,
            "callee-bare" => Kind::CalleeBare,
            "callee-rich" => Kind::CalleeRich,
            "callee-deep" => Kind::CalleeDeep,
            o => panic!("unknown context {o}"),
        }
    }

    fn all() -> [Kind; 4] {
        [
            Kind::Script,
            Kind::CalleeBare,
            Kind::CalleeRich,
            Kind::CalleeDeep,
        ]
    }
}

fn z() -> u8 {
    RegId::ZERO.to_u8()
}
fn one() -> u8 {
    RegId::ONE.to_u8()
}
fn sp() -> u8 {
    RegId::SP.to_u8()
}
fn ssp() -> u8 {
    RegId::SSP.to_u8()
}
fn hp() -> u8 {
    RegId::HP.to_u8()
}
fn fp() -> u8 {
    RegId::FP.to_u8()
}
fn is() -> u8 {
    RegId::IS.to_u8()
}
fn cgas() -> u8 {
    RegId::CGAS.to_u8()
}

/// The fixed callee: extends and writes its own stack and heap, returns.
fn citizen() -> Vec<Instruction> {
    vec![
        op::cfei(16),
        op::sw(ssp(), V, 0),
        op::aloc(R_L8),
        op::sw(hp(), V, 0),
        op::ret(one()),
    ]
}

/// Contract A of the `callee-deep` context: the first time it owns stack, allocates and
/// writes its own heap, then calls B (the program under exploration); when re-entered by
/// the program (R_DEEP != 0) it is the citizen.
fn middleman() -> Vec<Instruction> {
    let mut v = vec![
        op::jnzi(R_DEEP, 10),
        op::movi(R_DEEP, 1),
        op::cfei(16),
        op::sw(ssp(), V, 0),
        op::sw(ssp(), V, 1),
        op::aloc(R_L32),
        op::aloc(R_L32),
        op::sw(hp(), V, 0),
        op::call(r::CALL_B, z(), r::ASSET_BASE, cgas()),
        op::ret(one()),
    ];
    assert_eq!(v.len(), 10);
    v.extend(citizen());
    v
}

fn extra_prelude(tx_offset: u64) -> Vec<Instruction> {
    vec![
        op::movi(R_MEM8, 1),
        op::slli(R_MEM8, R_MEM8, 26),
        op::subi(R_MEM8, R_MEM8, 8),
        op::movi(R_TX, tx_offset as u32),
        op::movi(R_L8, 8),
        op::movi(R_L32, 32),
        op::movi(R_L4096, 4096),
        op::movi(R_IDX, 4),
        op::addi(R_BLOB, r::DATA, off::END),
        op::movi(R_BAL, (BAL_OFF + 32) as u32),
        op::movi(V, 0x2a5a5),
        op::addi(R_EC, r::DATA, off::END + 32),
        op::movi(R_TWO, 2),
    ]
}

/// A24. `other` = call struct of the contract the letter `call` targets, `asset` = asset
/// the executing context can spend (base for the script, X for contract A).
fn alphabet(kind: Kind) -> Vec<Letter> {
    let (other, asset, tr_to) = match kind {
        Kind::Script => (r::CALL_A, r::ASSET_BASE, r::CALL_B),
        // the program is contract B (spends base asset); `call` re-enters A, which then
        // behaves as the citizen (flag register R_DEEP is set)
        Kind::CalleeDeep => (r::CALL_A, r::ASSET_BASE, r::CALL_A),
        _ => (r::CALL_B, r::ASSET_X, r::CALL_B),
    };
    let add = MathArgs {
        op: MathOp::ADD,
        indirect_rhs: true,
    };
    let p = r::PATTERN;
    vec![
        // stack / heap management (simplest first)
        letter("cfei8", vec![op::cfei(8)]),
        letter("cfei32", vec![op::cfei(32)]),
        letter("cfsi8", vec![op::cfsi(8)]),
        letter("aloc8", vec![op::aloc(R_L8)]),
        letter("aloc4096", vec![op::aloc(R_L4096)]),
        letter("aloc32", vec![op::aloc(R_L32)]),
        // 40 bytes of owned stack below 24 bytes of allocated-but-released stack
        letter("stk40of64", vec![op::cfei(64), op::cfsi(24)]),
        letter("pshl", vec![op::pshl(0b11)]),
        letter("popl", vec![op::popl(0b1)]),
        // stores by pointer class
        letter("sw@sp-8", vec![op::subi(R, sp(), 8), op::sw(R, V, 0)]),
        letter("sw@sp", vec![op::sw(sp(), V, 0)]),
        letter("sw@ssp", vec![op::sw(ssp(), V, 0)]),
        letter("sw@ssp-8", vec![op::subi(R, ssp(), 8), op::sw(R, V, 0)]),
        letter("sw@hp", vec![op::sw(hp(), V, 0)]),
        letter("sw@hp-8", vec![op::subi(R, hp(), 8), op::sw(R, V, 0)]),
        letter("sb@fp", vec![op::sb(fp(), V, 0)]),
        letter("sw@fp-8", vec![op::subi(R, fp(), 8), op::sw(R, V, 0)]),
        letter("sw@tx", vec![op::sw(R_TX, V, 0)]),
        letter("sb@is", vec![op::sb(is(), V, 0)]),
        letter("sw@mem-8", vec![op::sw(R_MEM8, V, 0)]),
        letter("sw@mem", vec![op::sw(R_MEM8, V, 1)]),
        letter("sw@baltab", vec![op::sw(R_BAL, V, 0)]),
        letter("shw@sp-8", vec![op::subi(R, sp(), 8), op::shw(R, V, 0)]),
        letter("sqw@hp", vec![op::sqw(hp(), V, 0)]),
        // loads (reads need no ownership, but must not touch never-allocated memory)
        letter("lb@sp", vec![op::lb(R2, sp(), 0)]),
        letter("lw@hp-8", vec![op::subi(R, hp(), 8), op::lw(R2, R, 0)]),
        letter("lw@hp-4", vec![op::subi(R, hp(), 4), op::lw(R2, R, 0)]),
        letter("lw@mem", vec![op::lw(R2, R_MEM8, 1)]),
        // memory clear / copy
        letter("mcli@sp-8x16", vec![op::subi(R, sp(), 8), op::mcli(R, 16)]),
        letter("mcpi@sp-8x16", vec![op::subi(R, sp(), 8), op::mcpi(R, p, 16)]),
        letter("mcpi@ssp", vec![op::mcpi(ssp(), p, 8)]),
        letter("mcp@hp", vec![op::mcp(hp(), p, R_L8)]),
        letter("mcp@is", vec![op::mcp(is(), p, R_L8)]),
        letter("mcl@hp-8x32", vec![op::subi(R, hp(), 8), op::mcl(R, R_L32)]),
        letter("mcl@spx32", vec![op::mcl(sp(), R_L32)]),
        letter("mcp@sp-8<-hp", vec![op::subi(R, sp(), 8), op::mcp(R, hp(), R_L8)]),
        // hashes, wide integers
        letter("s256@sp-32", vec![op::subi(R, sp(), 32), op::s256(R, p, R_L8)]),
        letter("s256@ssp-8", vec![op::subi(R, ssp(), 8), op::s256(R, p, R_L8)]),
        letter("k256@hp", vec![op::k256(hp(), p, R_L8)]),
        letter("wqop@sp-32", vec![op::subi(R, sp(), 32), op::wqop_args(R, p, p, add)]),
        letter("wdop@hp", vec![op::wdop_args(hp(), p, p, add)]),
        letter(
            "wdml@hp",
            vec![op::wdml_args(
                hp(),
                p,
                one(),
                MulArgs {
                    indirect_lhs: true,
                    indirect_rhs: false,
                },
            )],
        ),
        letter(
            "wddv@hp",
            vec![op::wddv_args(
                hp(),
                p,
                p,
                DivArgs {
                    indirect_rhs: true,
                },
            )],
        ),
        letter("wdmd@hp", vec![op::wdmd(hp(), p, p, p)]),
        letter("wdam@hp", vec![op::wdam(hp(), p, p, p)]),
        letter("wdmm@hp", vec![op::wdmm(hp(), p, p, p)]),
        letter("eck1@hp", vec![op::eck1(hp(), p, p)]),
        letter("ecr1@hp", vec![op::ecr1(hp(), p, p)]),
        letter("ecop@hp", vec![op::ecop(hp(), z(), z(), R_EC)]),
        // code / blob / coinbase / storage destinations
        letter("ccp@sp-8", vec![op::subi(R, sp(), 8), op::ccp(R, other, z(), R_L8)]),
        letter("ccp@hp", vec![op::ccp(hp(), other, z(), R_L8)]),
        letter("ldc.contract", vec![op::ldc(other, z(), R_L8, 0)]),
        letter("ldc.mem", vec![op::ldc(p, z(), R_L8, 2)]),
        letter("bldd@hp", vec![op::bldd(hp(), R_BLOB, z(), R_L8)]),
        letter("bldd@ssp-8", vec![op::subi(R, ssp(), 8), op::bldd(R, R_BLOB, z(), R_L8)]),
        letter("bhsh@hp", vec![op::bhsh(hp(), z())]),
        letter("croo@hp", vec![op::croo(hp(), other)]),
        letter("srdi@hp", vec![op::srdi(hp(), p, z(), 8)]),
        letter("cb@sp-32", vec![op::subi(R, sp(), 32), op::cb(R)]),
        letter("cb@hp", vec![op::cb(hp())]),
        letter("cb@is", vec![op::cb(is())]),
        letter("srwq@sp-32", vec![op::subi(R, sp(), 32), op::srwq(R, R2, p, one())]),
        letter("srwq@fp", vec![op::srwq(fp(), R2, p, one())]),
        letter("srwq@hp", vec![op::srwq(hp(), R2, p, one())]),
        // "first chunk owned, later chunk not": ranges that START inside the owned stack and
        // cross $sp (allocated above $sp after stk40of64 / cfsi / a returned call) ...
        letter("sw@sp-4", vec![op::subi(R, sp(), 4), op::sw(R, V, 0)]),
        letter("mcl@sp-8x32", vec![op::subi(R, sp(), 8), op::mcl(R, R_L32)]),
        letter("mcp@sp-8x32", vec![op::subi(R, sp(), 8), op::mcp(R, p, R_L32)]),
        letter("s256@sp-8", vec![op::subi(R, sp(), 8), op::s256(R, p, R_L8)]),
        letter("k256@sp-8", vec![op::subi(R, sp(), 8), op::k256(R, p, R_L8)]),
        letter("wqop@sp-8", vec![op::subi(R, sp(), 8), op::wqop_args(R, p, p, add)]),
        letter("wdop@sp-8", vec![op::subi(R, sp(), 8), op::wdop_args(R, p, p, add)]),
        letter("eck1@sp-8", vec![op::subi(R, sp(), 8), op::eck1(R, p, p)]),
        letter("ecop@sp-8", vec![op::subi(R, sp(), 8), op::ecop(R, z(), z(), R_EC)]),
        letter("ccp@sp-8x32", vec![op::subi(R, sp(), 8), op::ccp(R, other, z(), R_L32)]),
        letter("bldd@sp-8x32", vec![op::subi(R, sp(), 8), op::bldd(R, R_BLOB, z(), R_L32)]),
        letter("cb@sp-8", vec![op::subi(R, sp(), 8), op::cb(R)]),
        letter("bhsh@sp-8", vec![op::subi(R, sp(), 8), op::bhsh(R, z())]),
        letter("croo@sp-8", vec![op::subi(R, sp(), 8), op::croo(R, other)]),
        letter("srwq@sp-8", vec![op::subi(R, sp(), 8), op::srwq(R, R2, p, one())]),
        letter("srwq2@ssp", vec![op::srwq(ssp(), R2, p, R_TWO)]),
        letter("srwq2@sp-32", vec![op::subi(R, sp(), 32), op::srwq(R, R2, p, R_TWO)]),
        letter("srdi@sp-8x16", vec![op::subi(R, sp(), 8), op::srdi(R, p, z(), 16)]),
        letter("srdd@sp-8x32", vec![op::subi(R, sp(), 8), op::srdd(R, p, z(), R_L32)]),
        // ... or START inside the owned heap (after aloc8 / aloc32 in a callee) and cross the
        // caller's $hp into the caller's heap (fixed-size @hp letters above do so after aloc8)
        letter("srwq2@hp", vec![op::srwq(hp(), R2, p, R_TWO)]),
        letter("mcl@hpx32", vec![op::mcl(hp(), R_L32)]),
        letter("mcp@hpx32", vec![op::mcp(hp(), p, R_L32)]),
        letter("mcli@hpx16", vec![op::mcli(hp(), 16)]),
        letter("mcpi@hpx16", vec![op::mcpi(hp(), p, 16)]),
        letter("ccp@hpx32", vec![op::ccp(hp(), other, z(), R_L32)]),
        letter("bldd@hpx32", vec![op::bldd(hp(), R_BLOB, z(), R_L32)]),
        letter("srdi@hpx16", vec![op::srdi(hp(), p, z(), 16)]),
        letter("srdd@hpx32", vec![op::srdd(hp(), p, z(), R_L32)]),
        // calls, transfers, returns
        letter("call", vec![op::call(other, z(), r::ASSET_BASE, cgas())]),
        letter("call+coin", vec![op::call(other, one(), asset, cgas())]),
        letter("tr", vec![op::tr(tr_to, one(), asset)]),
        letter("tro", vec![op::tro(r::RECIPIENT, R_IDX, one(), asset)]),
        letter("smo", vec![op::smo(r::RECIPIENT, p, z(), one())]),
        letter("ret", vec![op::ret(one())]),
        letter("retd", vec![op::retd(p, R_L8)]),
    ]
}

struct Env {
    kind: Kind,
    world: World,
    alphabet: Vec<Letter>,
    extra: Vec<Instruction>,
    /// script body after the extra prelude for the callee contexts
    driver: Vec<Instruction>,
    n_assets: u64,
    tx_offset: u64,
}

fn make_env(kind: Kind) -> Env {
    let mut cfg = WorldCfg::default();
    cfg.code_a = if kind == Kind::CalleeDeep { middleman() } else { citizen() };
    cfg.code_b = citizen();
    cfg.code_c = citizen();
    cfg.balances.push((A, AssetId::BASE, 100));
    let mut extra = BLOB.to_vec();
    for _ in 0..2 {
        let mut g1 = [0u8; 64]; // alt_bn128 generator (1, 2), big endian
        g1[31] = 1;
        g1[63] = 2;
        extra.extend_from_slice(&g1);
    }
    cfg.extra_script_data = extra;
    let mut world = World::new(cfg);
    let blob: Vec<u8> = (0xc1..=0xd0u8).collect();
    StorageMutate::<BlobData>::insert(&mut world.storage, &BlobId::new(BLOB), &blob[..])
        .expect("blob insert");
    world.storage.commit();
    world.storage.persist();

    // layout constants: documented values, cross-checked against the subject's constants
    assert_eq!(MEM, VM_MAX_RAM);
    assert_eq!(BAL_OFF as usize, VM_MEMORY_BALANCES_OFFSET);
    assert_eq!(BAL_ENTRY as usize, fuel_tx::consts::BALANCE_ENTRY_SIZE);
    assert_eq!(FRAME_SIZE as usize, CallFrame::serialized_size());
    assert_eq!(FRAME_CODE_SIZE_OFF as usize, CallFrame::code_size_offset());
    let max_inputs = world.params.tx_params().max_inputs() as u64;
    let tx_offset = BAL_OFF + BAL_ENTRY * max_inputs + 8;
    assert_eq!(tx_offset as usize, world.params.tx_params().tx_offset());
    let base = *world.params.base_asset_id();
    let assets: BTreeSet<AssetId> = world
        .template
        .inputs()
        .iter()
        .filter_map(|i| i.asset_id(&base).copied())
        .collect();
    assert_eq!(assets.iter().next(), Some(&base), "R_BAL must address the base entry");

    let mut driver = vec![];
    if kind == Kind::CalleeRich || kind == Kind::CalleeDeep {
        driver.extend([
            op::cfei(16),
            op::sw(ssp(), V, 0),
            op::sw(ssp(), V, 1),
            op::aloc(R_L32),
            op::aloc(R_L32),
            op::sw(hp(), V, 0),
            op::sw(R_MEM8, V, 0),
        ]);
    }
    driver.push(op::call(r::CALL_A, z(), r::ASSET_BASE, cgas()));
    driver.push(op::ret(one()));
    Env {
        kind,
        alphabet: alphabet(kind),
        extra: extra_prelude(tx_offset),
        driver,
        n_assets: assets.len() as u64,
        tx_offset,
        world,
    }
}

// ---------------------------------------------------------------- spec-side decoding

#[derive(Clone, Copy)]
struct Access {
    write: bool,
    start: u128,
    len: u128,
}

struct Spec {
    acc: Vec<Access>,
    overlap_check: bool,
    /// documented non-memory panic reasons of the opcode; `None` = any reason accepted
    others: Option<&'static [PanicReason]>,
}

fn rd(start: u128, len: u128) -> Access {
    Access {
        write: false,
        start,
        len,
    }
}
fn wr(start: u128, len: u128) -> Access {
    Access {
        write: true,
        start,
        len,
    }
}

/// Memory operands of one instruction according to the instruction-set specification.
fn spec_of(ins: &Instruction, regs: &[u64; 64]) -> Option<Spec> {
    let g = |x: RegId| regs[x.to_u8() as usize] as u128;
    const NONE: &[PanicReason] = &[];
    const WIDE: &[PanicReason] = &[
        PanicReason::ArithmeticOverflow,
        PanicReason::ArithmeticError,
        PanicReason::InvalidImmediateValue,
    ];
    let simple = |acc: Vec<Access>| {
        Some(Spec {
            acc,
            overlap_check: false,
            others: Some(NONE),
        })
    };
    match ins {
        Instruction::SB(o) => {
            let (a, _, i) = o.unpack();
            simple(vec![wr(g(a) + i.to_u16() as u128, 1)])
        }
        Instruction::SQW(o) => {
            let (a, _, i) = o.unpack();
            simple(vec![wr(g(a) + i.to_u16() as u128 * 2, 2)])
        }
        Instruction::SHW(o) => {
            let (a, _, i) = o.unpack();
            simple(vec![wr(g(a) + i.to_u16() as u128 * 4, 4)])
        }
        Instruction::SW(o) => {
            let (a, _, i) = o.unpack();
            simple(vec![wr(g(a) + i.to_u16() as u128 * 8, 8)])
        }
        Instruction::LB(o) => {
            let (_, b, i) = o.unpack();
            simple(vec![rd(g(b) + i.to_u16() as u128, 1)])
        }
        Instruction::LW(o) => {
            let (_, b, i) = o.unpack();
            simple(vec![rd(g(b) + i.to_u16() as u128 * 8, 8)])
        }
        Instruction::MCL(o) => {
            let (a, b) = o.unpack();
            simple(vec![wr(g(a), g(b))])
        }
        Instruction::MCLI(o) => {
            let (a, i) = o.unpack();
            simple(vec![wr(g(a), i.to_u32() as u128)])
        }
        Instruction::MCP(o) => {
            let (a, b, c) = o.unpack();
            Some(Spec {
                acc: vec![wr(g(a), g(c)), rd(g(b), g(c))],
                overlap_check: true,
                others: Some(NONE),
            })
        }
        Instruction::MCPI(o) => {
            let (a, b, i) = o.unpack();
            Some(Spec {
                acc: vec![wr(g(a), i.to_u16() as u128), rd(g(b), i.to_u16() as u128)],
                overlap_check: true,
                others: Some(NONE),
            })
        }
        Instruction::MEQ(o) => {
            let (_, b, c, d) = o.unpack();
            simple(vec![rd(g(b), g(d)), rd(g(c), g(d))])
        }
        Instruction::S256(o) => {
            let (a, b, c) = o.unpack();
            simple(vec![wr(g(a), 32), rd(g(b), g(c))])
        }
        Instruction::K256(o) => {
            let (a, b, c) = o.unpack();
            simple(vec![wr(g(a), 32), rd(g(b), g(c))])
        }
        Instruction::WDOP(o) => {
            let (a, b, c, i) = o.unpack();
            let mut acc = vec![wr(g(a), 16), rd(g(b), 16)];
            if MathArgs::from_imm(i).map(|m| m.indirect_rhs).unwrap_or(false) {
                acc.push(rd(g(c), 16));
            }
            Some(Spec {
                acc,
                overlap_check: false,
                others: Some(&[
                    PanicReason::ArithmeticOverflow,
                    PanicReason::InvalidImmediateValue,
                ]),
            })
        }
        Instruction::WQOP(o) => {
            let (a, b, c, i) = o.unpack();
            let mut acc = vec![wr(g(a), 32), rd(g(b), 32)];
            if MathArgs::from_imm(i).map(|m| m.indirect_rhs).unwrap_or(false) {
                acc.push(rd(g(c), 32));
            }
            Some(Spec {
                acc,
                overlap_check: false,
                others: Some(&[
                    PanicReason::ArithmeticOverflow,
                    PanicReason::InvalidImmediateValue,
                ]),
            })
        }
        Instruction::WDML(o) => {
            let (a, b, c, i) = o.unpack();
            let m = MulArgs::from_imm(i);
            let mut acc = vec![wr(g(a), 16)];
            if m.map(|m| m.indirect_lhs).unwrap_or(false) {
                acc.push(rd(g(b), 16));
            }
            if m.map(|m| m.indirect_rhs).unwrap_or(false) {
                acc.push(rd(g(c), 16));
            }
            Some(Spec {
                acc,
                overlap_check: false,
                others: Some(WIDE),
            })
        }
        Instruction::WDDV(o) => {
            let (a, b, c, i) = o.unpack();
            let mut acc = vec![wr(g(a), 16), rd(g(b), 16)];
            if DivArgs::from_imm(i).map(|m| m.indirect_rhs).unwrap_or(false) {
                acc.push(rd(g(c), 16));
            }
            Some(Spec {
                acc,
                overlap_check: false,
                others: Some(WIDE),
            })
        }
        Instruction::WDMD(o) => {
            let (a, b, c, d) = o.unpack();
            Some(Spec {
                acc: vec![wr(g(a), 16), rd(g(b), 16), rd(g(c), 16), rd(g(d), 16)],
                overlap_check: false,
                others: Some(WIDE),
            })
        }
        Instruction::WDAM(o) => {
            let (a, b, c, d) = o.unpack();
            Some(Spec {
                acc: vec![wr(g(a), 16), rd(g(b), 16), rd(g(c), 16), rd(g(d), 16)],
                overlap_check: false,
                others: Some(WIDE),
            })
        }
        Instruction::WDMM(o) => {
            let (a, b, c, d) = o.unpack();
            Some(Spec {
                acc: vec![wr(g(a), 16), rd(g(b), 16), rd(g(c), 16), rd(g(d), 16)],
                overlap_check: false,
                others: Some(WIDE),
            })
        }
        Instruction::ECK1(o) => {
            let (a, b, c) = o.unpack();
            simple(vec![wr(g(a), 64), rd(g(b), 64), rd(g(c), 32)])
        }
        Instruction::ECR1(o) => {
            let (a, b, c) = o.unpack();
            simple(vec![wr(g(a), 64), rd(g(b), 64), rd(g(c), 32)])
        }
        Instruction::ECOP(o) => {
            let (a, _, t, d) = o.unpack();
            let n = match g(t) {
                0 => 128,
                1 => 96,
                _ => 0,
            };
            Some(Spec {
                acc: vec![wr(g(a), 64), rd(g(d), n)],
                overlap_check: false,
                others: Some(&[
                    PanicReason::InvalidEllipticCurvePoint,
                    PanicReason::UnsupportedOperationType,
                    PanicReason::UnsupportedCurveId,
                ]),
            })
        }
        Instruction::BHSH(o) => {
            let (a, _) = o.unpack();
            Some(Spec {
                acc: vec![wr(g(a), 32)],
                overlap_check: false,
                others: Some(&[PanicReason::InvalidBlockHeight]),
            })
        }
        Instruction::CROO(o) => {
            let (a, b) = o.unpack();
            Some(Spec {
                acc: vec![wr(g(a), 32), rd(g(b), 32)],
                overlap_check: false,
                others: Some(&[
                    PanicReason::ContractNotInInputs,
                    PanicReason::ContractNotFound,
                ]),
            })
        }
        Instruction::SRDI(o) => {
            let (a, b, _, i) = o.unpack();
            Some(Spec {
                acc: vec![wr(g(a), i.to_u8() as u128), rd(g(b), 32)],
                overlap_check: false,
                others: Some(&[
                    PanicReason::ExpectedInternalContext,
                    PanicReason::StorageOutOfBounds,
                ]),
            })
        }
        Instruction::SRDD(o) => {
            let (a, b, _, d) = o.unpack();
            Some(Spec {
                acc: vec![wr(g(a), g(d)), rd(g(b), 32)],
                overlap_check: false,
                others: Some(&[
                    PanicReason::ExpectedInternalContext,
                    PanicReason::StorageOutOfBounds,
                ]),
            })
        }
        Instruction::CB(o) => simple(vec![wr(g(o.unpack()), 32)]),
        Instruction::CCP(o) => {
            let (a, b, _, d) = o.unpack();
            Some(Spec {
                acc: vec![wr(g(a), g(d)), rd(g(b), 32)],
                overlap_check: false,
                others: Some(&[
                    PanicReason::ContractNotInInputs,
                    PanicReason::ContractNotFound,
                ]),
            })
        }
        Instruction::BLDD(o) => {
            let (a, b, _, d) = o.unpack();
            Some(Spec {
                acc: vec![wr(g(a), g(d)), rd(g(b), 32)],
                overlap_check: false,
                others: Some(&[PanicReason::BlobNotFound]),
            })
        }
        Instruction::SRWQ(o) => {
            let (a, _, c, d) = o.unpack();
            Some(Spec {
                acc: vec![wr(g(a), 32 * g(d)), rd(g(c), 32)],
                overlap_check: false,
                others: Some(&[
                    PanicReason::ExpectedInternalContext,
                    PanicReason::TooManySlots,
                    PanicReason::StorageOutOfBounds,
                ]),
            })
        }
        Instruction::LDC(o) => {
            let (a, b, c, m) = o.unpack();
            let acc = match m.to_u8() {
                0 | 1 => vec![rd(g(a), 32)],
                2 => vec![rd(g(a) + g(b), g(c))],
                _ => vec![],
            };
            Some(Spec {
                acc,
                overlap_check: false,
                others: None,
            })
        }
        Instruction::CALL(o) => {
            let (a, _, c, _) = o.unpack();
            Some(Spec {
                acc: vec![rd(g(a), 48), rd(g(c), 32)],
                overlap_check: false,
                others: None,
            })
        }
        Instruction::TR(o) => {
            let (a, _, c) = o.unpack();
            Some(Spec {
                acc: vec![rd(g(a), 32), rd(g(c), 32)],
                overlap_check: false,
                others: None,
            })
        }
        Instruction::TRO(o) => {
            let (a, _, _, d) = o.unpack();
            Some(Spec {
                acc: vec![rd(g(a), 32), rd(g(d), 32)],
                overlap_check: false,
                others: None,
            })
        }
        Instruction::SMO(o) => {
            let (a, b, c, _) = o.unpack();
            Some(Spec {
                acc: vec![rd(g(a), 32), rd(g(b), g(c))],
                overlap_check: false,
                others: None,
            })
        }
        Instruction::RETD(o) => {
            let (a, b) = o.unpack();
            simple(vec![rd(g(a), g(b))])
        }
        _ => None,
    }
}

/// The executing frame as the monitor sees it before a step.
#[derive(Clone, Copy, Debug)]
struct Frame {
    ssp: u64,
    sp: u64,
    fp: u64,
    hp: u64,
    pc: u64,
    prev_hp: u64,
    /// highest $sp ever reached: memory in [hw, $hp) was never allocated
    hw: u64,
    /// end of the transaction image (= the script's initial $ssp)
    tx_end: u64,
    script_is: u64,
    tx_offset: u64,
    bal_end: u64,
}

impl Frame {
    fn owns(&self, s: u128, e: u128) -> bool {
        (self.ssp as u128 <= s && e <= self.sp as u128)
            || (self.hp as u128 <= s && e <= self.prev_hp as u128)
    }

    fn region(&self, a: u64) -> &'static str {
        if a >= MEM {
            "beyond-mem"
        } else if a >= self.prev_hp {
            "caller-heap"
        } else if a >= self.hp {
            "own-heap"
        } else if a >= self.hw {
            "never-allocated"
        } else if a >= self.sp {
            "stack-above-sp"
        } else if a >= self.ssp {
            "own-stack"
        } else if self.fp != 0 && a >= self.fp + FRAME_SIZE {
            "own-code"
        } else if self.fp != 0 && a >= self.fp {
            "own-call-frame"
        } else if a >= self.tx_end && self.fp == 0 {
            "ldc-loaded-code"
        } else if a >= self.tx_end {
            "caller-stack-or-frame"
        } else if a >= self.script_is {
            "tx-script-and-after"
        } else if a >= self.tx_offset {
            "tx-image"
        } else if a >= self.bal_end {
            "tx-size"
        } else if a >= BAL_OFF {
            "balance-table"
        } else {
            "tx-id-base-asset"
        }
    }

    /// First byte of [s,e) the frame does not own.
    fn first_unowned(&self, s: u64, e: u64) -> u64 {
        if self.ssp <= s && s < self.sp {
            self.sp.min(e)
        } else if self.hp <= s && s < self.prev_hp {
            self.prev_hp.min(e)
        } else {
            s
        }
    }
}

struct Fault {
    /// e.g. `unowned:caller-heap`, `never-allocated`, `read-beyond-mem`
    class: String,
    applicable: Vec<PanicReason>,
}

impl Fault {
    /// class without the region (violation keys: one key per opcode and kind of fault)
    fn kind(&self) -> &str {
        self.class.split(':').next().unwrap_or(&self.class)
    }
}

/// Which accesses of `spec` must fault, with the set of applicable reasons.
fn faults(spec: &Spec, f: &Frame) -> Option<Fault> {
    let mut applicable: Vec<PanicReason> = vec![];
    let mut class: Option<(bool, String)> = None;
    let put = |w: bool, c: String, class: &mut Option<(bool, String)>| {
        // the class of the first faulting write wins over reads
        match class {
            None => *class = Some((w, c)),
            Some((false, _)) if w => *class = Some((w, c)),
            _ => {}
        }
    };
    for a in &spec.acc {
        if a.len == 0 {
            continue
        }
        let (s, e) = (a.start, a.start + a.len);
        let tag = if a.write { "" } else { "read-" };
        if e > MEM as u128 {
            applicable.push(PanicReason::MemoryOverflow);
            if a.write {
                applicable.push(PanicReason::MemoryOwnership);
            }
            put(a.write, format!("{tag}beyond-mem"), &mut class);
            continue
        }
        let gap = s < f.hp as u128 && e > f.hw as u128;
        if gap {
            applicable.push(PanicReason::UninitalizedMemoryAccess);
        }
        if a.write && !f.owns(s, e) {
            applicable.push(PanicReason::MemoryOwnership);
            let fu = f.first_unowned(s as u64, e as u64);
            put(true, format!("unowned:{}", f.region(fu)), &mut class);
        } else if gap {
            put(a.write, format!("{tag}never-allocated"), &mut class);
        }
    }
    if spec.overlap_check && spec.acc.len() >= 2 {
        let (d, s) = (spec.acc[0], spec.acc[1]);
        if d.len > 0 && d.start < s.start + s.len && s.start < d.start + d.len {
            applicable.push(PanicReason::MemoryWriteOverlap);
            put(true, "overlap".into(), &mut class);
        }
    }
    class.map(|(_, class)| Fault {
        class,
        applicable,
    })
}

// ---------------------------------------------------------------- memory monitor

struct Mon {
    stack: Vec<u8>,
    heap: Vec<u8>,
}

impl Mon {
    fn new(vm: &Vm) -> Mon {
        Mon {
            stack: vm.memory().stack_raw().to_vec(),
            heap: vm.memory().heap_raw().to_vec(),
        }
    }

    /// Runs [s,e) of addresses whose byte differs from the previous snapshot (bytes of a
    /// buffer that did not exist count as 0); re-synchronises the snapshot.
    fn diff(&mut self, vm: &Vm) -> Vec<(u64, u64)> {
        let (cs, ch) = (vm.memory().stack_raw(), vm.memory().heap_raw());
        if cs == &self.stack[..] && ch == &self.heap[..] {
            return vec![]
        }
        let mut runs: Vec<(u64, u64)> = vec![];
        let mut push = |a: u64| match runs.last_mut() {
            Some((_, e)) if *e == a => *e = a + 1,
            _ => runs.push((a, a + 1)),
        };
        if cs != &self.stack[..] {
            let n = cs.len().max(self.stack.len());
            for i in 0..n {
                let b = self.stack.get(i).copied().unwrap_or(0);
                let a = cs.get(i).copied().unwrap_or(0);
                if a != b {
                    push(i as u64);
                }
            }
            self.stack.clear();
            self.stack.extend_from_slice(cs);
        }
        if ch != &self.heap[..] {
            let n = ch.len().max(self.heap.len());
            let (ob, oa) = (n - self.heap.len(), n - ch.len());
            let base = MEM - n as u64;
            for i in 0..n {
                let b = if i >= ob { self.heap[i - ob] } else { 0 };
                let a = if i >= oa { ch[i - oa] } else { 0 };
                if a != b {
                    push(base + i as u64);
                }
            }
            self.heap.clear();
            self.heap.extend_from_slice(ch);
        }
        runs
    }
}

// ---------------------------------------------------------------- per-chunk accumulator

#[derive(Default)]
struct Acc {
    runs: u64,
    steps: u64,
    nontrivial: u64,
    finals: BTreeMap<String, u64>,
    writes: BTreeMap<String, u64>,
    faults: BTreeMap<String, u64>,
    opcodes: BTreeSet<String>,
    fps: HashSet<u64>,
    viols: BTreeMap<String, (String, Value, u64)>,
    samples: Vec<(String, Value)>,
    live: Vec<u64>,
    skipped: u64,
    max_steps_hit: u64,
}

impl Acc {
    fn viol(&mut self, key: String, what: String, case: &Value) {
        let e = self.viols.entry(key).or_insert_with(|| (what, case.clone(), 0));
        e.2 += 1;
    }

    fn merge(&mut self, o: Acc) {
        self.runs += o.runs;
        self.steps += o.steps;
        self.nontrivial += o.nontrivial;
        self.skipped += o.skipped;
        self.max_steps_hit += o.max_steps_hit;
        for (k, v) in o.finals {
            *self.finals.entry(k).or_insert(0) += v;
        }
        for (k, v) in o.writes {
            *self.writes.entry(k).or_insert(0) += v;
        }
        for (k, v) in o.faults {
            *self.faults.entry(k).or_insert(0) += v;
        }
        self.opcodes.extend(o.opcodes);
        self.fps.extend(o.fps);
        for (k, (w, c, n)) in o.viols {
            let e = self.viols.entry(k).or_insert_with(|| (w, c, 0));
            e.2 += n;
        }
        for s in o.samples {
            if self.samples.len() < 64 && !self.samples.iter().any(|x| x.0 == s.0) {
                self.samples.push(s);
            }
        }
    }
}

// ---------------------------------------------------------------- one monitored run

fn program(env: &Env, seq: &[u64], slots: usize) -> (Vec<Instruction>, usize) {
    let mut p: Vec<Instruction> = seq
        .iter()
        .flat_map(|i| env.alphabet[*i as usize].ins.iter().copied())
        .collect();
    let n = p.len();
    assert!(n < slots, "program does not fit its slots");
    p.resize(slots, op::ret(one()));
    (p, n)
}

fn case_of(env: &Env, seq: &[u64], slots: usize) -> Value {
    json!({
        "ctx": env.kind.name(),
        "slots": slots,
        "letters": program_names(&env.alphabet, seq),
    })
}

/// Runs one program under the monitor. Returns whether control reached the end of the
/// last letter (the program is *live*: extensions are distinct programs).
fn run(env: &Env, seq: &[u64], slots: usize, acc: &mut Acc) -> bool {
    let (prog, plen) = program(env, seq, slots);
    let case = case_of(env, seq, slots);
    let mut body = env.extra.clone();
    let mut vm = match env.kind {
        Kind::Script => {
            body.extend(prog.iter().copied());
            env.world.vm_after_prelude(&body, GAS)
        }
        _ => {
            body.extend(env.driver.iter().copied());
            let mut vm = env.world.vm_after_prelude(&body, GAS);
            let code: Vec<u8> = prog.iter().copied().collect();
            // one populated storage slot (key = first 32 pattern bytes) so that SRWQ/SRDI
            // copy non-zero data
            let mut key = [0u8; 32];
            key.copy_from_slice(&env.world.data[off::PATTERN as usize..off::PATTERN as usize + 32]);
            let slot = StorageSlot::new(Bytes32::new(key), Bytes32::new([0xEE; 32]));
            key[31] += 1; // the next slot, read by the two-slot SRWQ letters
            let slot2 = StorageSlot::new(Bytes32::new(key), Bytes32::new([0xDD; 32]));
            vm.as_mut()
                .deploy_contract_with_id(
                    &[slot, slot2],
                    &code,
                    if env.kind == Kind::CalleeDeep { &B } else { &A },
                )
                .expect("deploy program as contract A (B in callee-deep)");
            vm
        }
    };
    let r0 = vmkit::regs(&vm);
    let tx_end = r0[SSP];
    let script_is = r0[IS];
    let max_inputs = env.world.params.tx_params().max_inputs() as u64;
    let bal_end = BAL_OFF + BAL_ENTRY * max_inputs;
    let base_depth = match env.kind {
        Kind::Script => 0,
        Kind::CalleeDeep => 2,
        _ => 1,
    };
    // pc of the first pad instruction (known once the program's code start is known)
    let mut live_pc: Option<u64> = if env.kind == Kind::Script {
        Some(r0[PC] + 4 * (env.extra.len() + plen) as u64)
    } else {
        None
    };

    let mut mon = Mon::new(&vm);
    let mut shadow: Vec<u64> = vec![]; // $hp of the callers
    let mut hw = r0[SP];
    let mut live = false;
    let mut trace: Vec<(u8, u64, u64)> = vec![];
    let mut changed_any = false;
    let mut cats: BTreeSet<String> = BTreeSet::new();
    let mut fault_seen = false;
    let mut n = 0u32;
    let last;
    loop {
        let rb = vmkit::regs(&vm);
        let f = Frame {
            ssp: rb[SSP],
            sp: rb[SP],
            fp: rb[FP],
            hp: rb[HP],
            pc: rb[PC],
            prev_hp: shadow.last().copied().unwrap_or(MEM),
            hw,
            tx_end,
            script_is,
            tx_offset: env.tx_offset,
            bal_end,
        };
        if shadow.len() == base_depth && Some(f.pc) == live_pc {
            live = true;
        }
        let ins: Option<Instruction> = vm
            .memory()
            .read(f.pc, 4usize)
            .ok()
            .and_then(|b| <[u8; 4]>::try_from(b).ok())
            .and_then(|b| Instruction::try_from(b).ok());
        let opc = ins.map(|i| i.opcode());
        let opname = opc.map(|o| format!("{o:?}")).unwrap_or_else(|| "?".into());
        // variable-output slots of the tx image (before the step)
        let out_slots: Vec<(u64, u64)> = if opc == Some(Opcode::TRO) {
            let tx = vm.transaction();
            tx.outputs()
                .iter()
                .enumerate()
                .filter(|(_, o)| o.is_variable())
                .filter_map(|(i, o)| {
                    tx.outputs_offset_at(i).map(|off| {
                        let s = env.tx_offset + off as u64;
                        (s, s + o.size() as u64)
                    })
                })
                .collect()
        } else {
            vec![]
        };

        let (s, in_call) = vmkit::step_ctx(&mut vm);
        n += 1;
        acc.steps += 1;
        let ra = vmkit::regs(&vm);

        let entered = s == Step::Proceed
            && opc == Some(Opcode::CALL)
            && ra[FP] == f.sp
            && ra[FP] != f.fp;
        let left = in_call && matches!(s, Step::Return(_) | Step::ReturnData(_));

        // ---- oracle 1: allowed write set of this step
        let mut allowed: Vec<(u64, u64, &'static str)> = vec![(f.ssp, f.sp, "own-stack")];
        if entered || left {
            allowed.push((f.hp, f.prev_hp, "own-heap"));
        } else {
            allowed.push((ra[SSP], ra[SP], "own-stack"));
            allowed.push((ra[HP].min(f.hp), f.prev_hp, "own-heap"));
        }
        let external = f.fp == 0;
        let balance_fields = |allowed: &mut Vec<(u64, u64, &'static str)>| {
            for i in 0..env.n_assets {
                let s = BAL_OFF + BAL_ENTRY * i + 32;
                allowed.push((s, s + 8, "vm:balance-table"));
            }
        };
        match opc {
            Some(Opcode::CALL) => {
                if entered {
                    allowed.push((f.sp, ra[SSP], "vm:call-frame+code"));
                }
                if external {
                    balance_fields(&mut allowed);
                }
            }
            Some(Opcode::TR) | Some(Opcode::SMO) if external => balance_fields(&mut allowed),
            Some(Opcode::TRO) => {
                if external {
                    balance_fields(&mut allowed);
                }
                for (s, e) in &out_slots {
                    allowed.push((*s, *e, "vm:variable-output"));
                }
            }
            Some(Opcode::LDC) => {
                if ra[SSP] > f.ssp && !entered && !left {
                    allowed.push((f.ssp, ra[SSP], "vm:ldc-code"));
                }
                if !external {
                    let s = f.fp + FRAME_CODE_SIZE_OFF;
                    allowed.push((s, s + 8, "vm:frame-code-size"));
                }
            }
            _ => {}
        }
        let runs = mon.diff(&vm);
        let mut step_cats = 0u64;
        let mut bad: Option<u64> = None;
        for (rs, re) in &runs {
            let mut c = *rs;
            while c < *re {
                if let Some((_, e, cat)) =
                    allowed.iter().find(|(s, e, _)| *s <= c && c < *e)
                {
                    let upto = (*e).min(*re);
                    *acc.writes.entry(format!("{opname}:{cat}")).or_insert(0) += upto - c;
                    cats.insert(format!("{opname}:{cat}"));
                    step_cats ^= hash64(cat);
                    c = upto;
                } else {
                    if bad.is_none() {
                        bad = Some(c);
                    }
                    // skip to the next allowed start inside the run
                    let next = allowed
                        .iter()
                        .filter(|(s, e, _)| *s > c && *s < *re && s < e)
                        .map(|(s, _, _)| *s)
                        .min()
                        .unwrap_or(*re);
                    *acc
                        .writes
                        .entry(format!("{opname}:UNOWNED:{}", f.region(c)))
                        .or_insert(0) += next - c;
                    c = next;
                }
            }
        }
        if !runs.is_empty() {
            changed_any = true;
        }
        if let Some(a) = bad {
            acc.viol(
                format!("C24:{opname}:unowned-write:{}", f.region(a)),
                format!(
                    "{} step {n} ({opname} at pc={}, result {}) changed byte {a} outside the \
                     frame's stack [{},{}) / heap [{},{}) and outside the VM's own write set; \
                     changed ranges {:?}",
                    env.kind.name(),
                    f.pc,
                    s.label(),
                    f.ssp,
                    f.sp,
                    ra[HP].min(f.hp),
                    f.prev_hp,
                    &runs[..runs.len().min(4)]
                ),
                &case,
            );
        }

        // ---- oracle 2: faulting operand ranges must panic and change nothing
        if let Some(spec) = ins.as_ref().and_then(|i| spec_of(i, &rb)) {
            acc.opcodes.insert(opname.clone());
            if let Some(fault) = faults(&spec, &f) {
                fault_seen = true;
                *acc
                    .faults
                    .entry(format!("{opname}:{}->{}", fault.class, s.label()))
                    .or_insert(0) += 1;
                match &s {
                    Step::Panic(reason) => {
                        let ok = fault.applicable.contains(reason)
                            || *reason == PanicReason::OutOfGas
                            || match spec.others {
                                None => true,
                                Some(l) => l.contains(reason),
                            };
                        if !ok {
                            acc.viol(
                                format!("C24:{opname}:wrong-reason:{}", fault.kind()),
                                format!(
                                    "{} step {n}: {opname} with a {} operand panicked with \
                                     {reason:?}; applicable {:?}",
                                    env.kind.name(),
                                    fault.class,
                                    fault.applicable
                                ),
                                &case,
                            );
                        }
                        // a multi-slot SRWQ is specified slot by slot: slots written into
                        // owned memory before the faulting slot are a don't-care (oracle 1
                        // still confines them to owned memory)
                        let multi_part = matches!(
                            &ins,
                            Some(Instruction::SRWQ(o)) if rb[o.unpack().3.to_u8() as usize] >= 2
                        );
                        if !runs.is_empty() && !multi_part {
                            acc.viol(
                                format!("C24:{opname}:faulting-access-changed-memory"),
                                format!(
                                    "{} step {n}: {opname} panicked ({reason:?}) on a {} operand \
                                     but changed memory {:?}",
                                    env.kind.name(),
                                    fault.class,
                                    &runs[..runs.len().min(4)]
                                ),
                                &case,
                            );
                        }
                    }
                    // SRDI/SRDD write only when the slot exists: absence of a panic is not
                    // demanded for it (the write monitor still applies)
                    _ if matches!(opc, Some(Opcode::SRDI) | Some(Opcode::SRDD)) => {}
                    other => acc.viol(
                        format!("C24:{opname}:no-panic:{}", fault.kind()),
                        format!(
                            "{} step {n}: {opname} at pc={} with a {} operand (stack [{},{}), \
                             allocated up to {}, heap [{},{})) must panic with one of {:?}, \
                             observed {}",
                            env.kind.name(),
                            f.pc,
                            fault.class,
                            f.ssp,
                            f.sp,
                            f.hw,
                            f.hp,
                            f.prev_hp,
                            fault.applicable,
                            other.label()
                        ),
                        &case,
                    ),
                }
            }
        }

        // ---- bookkeeping
        if entered {
            shadow.push(f.hp);
            if live_pc.is_none() && shadow.len() == base_depth {
                live_pc = Some(ra[IS] + 4 * plen as u64);
            }
        }
        if left {
            shadow.pop();
        }
        hw = hw.max(ra[SP]).min(ra[HP]);
        trace.push((
            opc.map(|o| o as u8).unwrap_or(0),
            hash64(&s.label()),
            step_cats ^ (bad.is_some() as u64),
        ));
        if vmkit::is_final(&s, in_call) || n >= MAX_STEPS {
            last = s;
            break
        }
    }
    acc.runs += 1;
    let label = if n >= MAX_STEPS && !vmkit::is_final(&last, false) {
        acc.max_steps_hit += 1;
        "max-steps".to_string()
    } else {
        last.label()
    };
    *acc.finals.entry(format!("{}:{label}", env.kind.name())).or_insert(0) += 1;
    if changed_any {
        acc.nontrivial += 1;
        acc.fps.insert(hash64(&(env.kind, &trace)));
    }
    if acc.samples.len() < 4 && cats.len() >= 2 && fault_seen && seq.len() >= 2 {
        let tag = format!("{}:{}:{}", env.kind.name(), label, cats.len());
        acc.samples.push((
            tag,
            json!({
                "ctx": env.kind.name(),
                "letters": program_names(&env.alphabet, seq),
                "steps": n,
                "final": label,
                "writes_seen": cats.iter().collect::<Vec<_>>(),
                "had_faulting_access_that_panicked": true,
            }),
        ));
    }
    live
}

// ---------------------------------------------------------------- driver

fn slots_for(k: u32) -> usize {
    3 * k as usize + 1
}

fn report(ctx: &Ctx, total: &mut Acc) {
    for (key, (what, case, n)) in std::mem::take(&mut total.viols) {
        for _ in 0..n.min(3) {
            ctx.violation(key.clone(), what.clone(), case.clone());
        }
    }
}

fn explore(ctx: &Ctx) {
    ctx.rule(
        "all letter sequences of length <= k over A24, shortest first then lexicographic, in \
         four execution contexts; extensions of a program whose execution ended before its \
         last letter are represented by that program (same padded layout, dead tail). A run \
         is non-trivial when at least one monitored step changed memory; distinct = distinct \
         (context, per-step (opcode, result, write categories)) traces",
    );
    ctx.assume("instruction bytes behind the point where execution ended are never fetched or read (no letter reads the executing program's own code), so programs differing only there behave identically");
    ctx.assume("operand ranges of the alphabet's opcodes as written in the instruction-set specification (decoder in this file)");
    ctx.assume("the shadow stack of callers' $hp kept by the monitor defines the heap ownership bound");
    let k: u32 = ctx.pick(3, 5);
    let slots = slots_for(k);
    let envs: Vec<Env> = Kind::all().into_iter().map(make_env).collect();
    let na = envs[0].alphabet.len() as u64;
    ctx.set(
        "alphabet",
        json!(envs[0]
            .alphabet
            .iter()
            .map(|l| format!("{} = {}", l.name, l.ins.iter().map(|i| format!("{:?}", i.opcode())).collect::<Vec<_>>().join(";")))
            .collect::<Vec<_>>()),
    );
    ctx.set("contexts", json!(Kind::all().iter().map(|k| k.name()).collect::<Vec<_>>()));
    ctx.set("k", json!(k));
    ctx.set(
        "dont_care",
        json!([
            "which of several applicable panic reasons is reported (any of the applicable set is accepted)",
            "panic reason of CALL/TR/TRO/SMO/LDC when an operand range is invalid (any VM panic accepted)",
            "whether a write to fully owned memory succeeds (only unowned writes are constrained)",
            "reads of allocated memory above $sp (not never-allocated) and of foreign frames",
            "register contents after a panic",
            "zero-length operand ranges",
            "slots a multi-slot SRWQ wrote into owned memory before the slot that faults",
        ]),
    );

    let mut total = Acc::default();
    let mut levels: Vec<Value> = vec![];
    // level-major: every context completes length l before any starts length l+1
    let mut frontiers: Vec<Vec<Vec<u64>>> = envs.iter().map(|_| vec![vec![]]).collect();
    let mut completed: Vec<u32> = vec![0; envs.len()];
    for env in &envs {
        let mut a0 = Acc::default();
        run(env, &[], slots, &mut a0); // the empty program
        total.merge(a0);
    }
    'levels: for l in 1..=k {
        for (e, env) in envs.iter().enumerate() {
            let frontier = std::mem::take(&mut frontiers[e]);
            let items = frontier.len() as u64 * na;
            let chunk = (items / 512).clamp(16, 4096);
            let mut next: Vec<Vec<u64>> = vec![];
            let mut lvl = Acc::default();
            let fr = &frontier;
            space::par_chunks(
                items,
                chunk,
                Acc::default,
                |i, acc| {
                    if ctx.out_of_time() {
                        acc.skipped += 1;
                        return
                    }
                    let mut seq = fr[(i / na) as usize].clone();
                    seq.push(i % na);
                    if run(env, &seq, slots, acc) {
                        acc.live.push(i);
                    }
                },
                |a| {
                    for i in &a.live {
                        let mut seq = fr[(*i / na) as usize].clone();
                        seq.push(*i % na);
                        next.push(seq);
                    }
                    lvl.merge(a);
                },
            );
            let all = na.pow(l);
            levels.push(json!({
                "ctx": env.kind.name(),
                "length": l,
                "programs_of_this_length": all,
                "executed": lvl.runs,
                "represented_by_executed_prefix": all - items,
                "skipped_by_time_cap": lvl.skipped,
                "live": next.len(),
            }));
            let skipped = lvl.skipped;
            total.merge(lvl);
            if skipped > 0 {
                ctx.cap(format!(
                    "{}: time budget reached at length {l} ({skipped} of {items} programs not executed); lengths < {l} complete in all contexts",
                    env.kind.name()
                ));
                break 'levels
            }
            completed[e] = l;
            frontiers[e] = next;
        }
    }
    for (e, env) in envs.iter().enumerate() {
        ctx.set(&format!("completed_length:{}", env.kind.name()), json!(completed[e]));
    }
    ctx.evals(total.runs);
    ctx.set("levels", json!(levels));
    ctx.set("monitored_steps", json!(total.steps));
    ctx.set("nontrivial_runs", json!(total.nontrivial));
    ctx.set("bytes_written_by_opcode_and_category", json!(total.writes));
    ctx.set("faulting_access_checks", json!(total.faults));
    ctx.set("opcodes_with_operand_decoder", json!(total.opcodes));
    ctx.set(
        "violation_occurrences",
        json!(total.viols.iter().map(|(k, v)| (k.clone(), v.2)).collect::<BTreeMap<_, _>>()),
    );
    if total.max_steps_hit > 0 {
        ctx.cap(format!("{} runs stopped at {MAX_STEPS} steps", total.max_steps_hit));
    }
    ctx.outcomes_merge(&total.finals);
    ctx.fps_merge(total.fps.iter().copied());
    // samples: diverse by (context, outcome)
    let mut seen: BTreeSet<String> = BTreeSet::new();
    for (tag, s) in &total.samples {
        let short = tag.rsplitn(2, ':').last().unwrap_or(tag).to_string();
        if seen.insert(short) {
            ctx.sample(s.clone());
        }
    }
    for (_, s) in &total.samples {
        if ctx.want_sample() {
            ctx.sample(s.clone());
        }
    }
    report(ctx, &mut total);
}

fn replay(case: &Value, ctx: &Ctx) {
    let env = make_env(Kind::from_name(case["ctx"].as_str().expect("ctx")));
    let slots = case["slots"].as_u64().expect("slots") as usize;
    let seq: Vec<u64> = case["letters"]
        .as_array()
        .expect("letters")
        .iter()
        .map(|n| {
            let n = n.as_str().expect("letter name");
            env.alphabet
                .iter()
                .position(|l| l.name == n)
                .unwrap_or_else(|| panic!("unknown letter {n}")) as u64
        })
        .collect();
    let mut acc = Acc::default();
    run(&env, &seq, slots, &mut acc);
    report(ctx, &mut acc);
}

fn main() {
    run_check("C24", Level::Exploration, explore, replay)
}
