//! C29 — No input makes the VM crash, report an internal bug or run forever.
//!
//! SPACES (all enumerated completely, simplest first; quick/thorough bounds in `explore`):
//!  (a) single instructions. Raw 32-bit words = every opcode byte 0..=255 x
//!      { STAR over the four 6-bit fields: each field through all 64 values while the
//!        other three sit at each of 3 base settings (all `$zero`; four "class" registers;
//!        a benign tuple owned-heap-ptr / readable-ptr / 32 / 1),
//!        imm12 / imm18 / imm24 boundary values (0, 1, max, 2^i-1, 2^i, 2^i+1) with the
//!        remaining register fields at the 3 base settings }
//!      + GTF with all 4096 selectors x 6 index registers, GM with selectors 0..=255,
//!      + every letter of the (b) alphabet;
//!      each injected (`Interpreter::instruction`, no fetch) into a clone of a prepared VM:
//!      3 contexts (script; internal = paused inside contract A; predicate mode =
//!      `init_predicate` + `instruction::<_, true>`) x NC register presets. A preset loads
//!      the general registers 0x10..0x1f, 0x29..0x3b with the NC pointer/length classes
//!      (0, 1, 8, 32, tx start, script data, $is, $ssp, $sp, $hp, $hp+32, MEM-32, MEM-1,
//!      MEM, 2^32, 2^40, 2^63, u64::MAX) rotated by the preset number, so that every
//!      (field, class) and every (field, class) x (other field, class) pair occurs.
//!      Two more "presets" keep the registers exactly as the program preludes leave them
//!      (letters are benign there), one of them after `cfsi 64` ($sp == $ssp, needed by LDC).
//!      Quick uses every third class preset. Reserved registers are never forged: every
//!      prepared state is reached by real code.
//!  (b) all programs of <= 2 letters (quick) / <= 3 letters (thorough, length 3 run last under
//!      the time budget) over the alphabet `letters()` (~190 letters: one benign and one or
//!      more hostile operand choices per opcode, loops, undecodable words), run as real
//!      scripts: step-wise (`init_script` + `execute`) with an instruction counter, then
//!      end-to-end through `Interpreter::transact`. Program = world prelude (pointer
//!      registers 0x20..0x28) + extra prelude `xpre` (owned heap/stack, MEM-1, MEM, u64::MAX,
//!      2^40 ...) + letters + `ret $one`.
//!  (c) the same programs (<= 2 letters) and a reduced raw-word set (256 opcode bytes x 5
//!      argument patterns) as the code of contract A (deployed raw into a copy of the world
//!      storage, called by a fixed script) and as predicate code of a coin-predicate input
//!      (step-wise in predicate mode, then `predicates::check_predicates` and
//!      `estimate_predicates`); the raw words also as scripts.
//!  (d) script-data lengths 0..=9, 63, 64, 65, 1000, 4096 x (all single-letter programs + 3
//!      data-reading programs); every single-letter program followed by 1..3 trailing bytes
//!      (script length not a multiple of 4); 1-3 byte scripts; the empty script.
//!  (e) storage faults: `FaultyStorage` (c29_fault.rs) delegates to MemoryStorage and fails
//!      the k-th access (any table method, any InterpreterStorage method). For every program
//!      and EVERY k in 1..=N (N = number of accesses of the fault-free run of that program):
//!      script context: all <= 2-letter programs over the 34 storage letters; contract
//!      context: quick = all single letters of the 66-letter contract storage alphabet + all
//!      pairs of the 32 contract-only letters, thorough = all programs <= 3 letters; predicate
//!      context: <= 2 letters over the blob letters with the fault in the predicate's blob storage.
//!  (f) receipt-limit probe (DESIGN §7 candidate `ReceiptsCtxFull`): a LOG loop producing N
//!      receipts (N in {65532, 65533} quick, 65530..=65534 thorough) followed by each of 16
//!      tails, as script and inside contract A; plus, in (a), every letter injected into real
//!      VMs holding 65531.. receipts.
//!  (g) transaction shapes: every script transaction over input sets (all subsets of
//!      {coin(base), coin(X), message-coin, data-carrying message with an amount}) x contract
//!      inputs A,B present/absent x output sets (all subsets of {change(base), change(X),
//!      2 variable, coin(base), coin(X)}) x max_fee {0, 100000} x gas price {0, 10^6} x 10
//!      programs (ret, rvrt, div by zero, invalid instruction, out-of-gas loop, tr, tro, smo,
//!      call-B, call-A) = 40,960 cases. Validity is decided by the reference
//!      (`into_checked_basic`, `into_ready`; refused shapes are counted). Valid ones run
//!      through `Interpreter::transact`, `Transactor::transact` and `MemoryClient::transact`.
//!
//! ORACLE (from the statement only):
//!  * no host panic (catch_unwind) anywhere                  -> `C29:host-panic:<opcode|entry>:<location>`
//!  * never `InterpreterError::Bug` / `PredicateVerificationFailed::Bug` -> `C29:bug:<variant>`
//!  * end-to-end result is `Ok(state)`, or `Err(Storage)` when a fault was injected;
//!    anything else                                           -> `C29:unexpected-error:<variant>`
//!  * default gas schedule: every instruction that executes (returns Ok) strictly
//!    decreases `$ggas`                                       -> `C29:free-instruction:<OPCODE>`
//!  * a run with gas limit G executes at most G+1 instructions -> `C29:no-termination`
//! Level: Exploration — the instruction/program spaces (a)-(d),(f) are the bulk of the cases
//! (quick: 6.6 M of 6.6 M; thorough: ~22 M of 26 M) and carry four of the five oracle
//! clauses; the fault enumeration (e) is one sub-space, reported separately in the evidence
//! (`e_space`, outcome labels `e:*`).
//! Limit: an instruction that would loop *inside* the host without consuming gas cannot be
//! interrupted; it shows up as a hung / OOM-killed run (exit != 0), not as a verdict.

#[path = "../c29_fault.rs"]
mod c29_fault;
#[path = "../progkit.rs"]
mod progkit;

use std::collections::{
    BTreeMap,
    HashSet,
};

use c29_fault::FaultyStorage;
use fuel_asm::{
    op,
    GTFArgs,
    Instruction,
    Opcode,
    PanicReason,
    RawInstruction,
    RegId,
};
use fuel_storage::StorageMutate;
use fuel_tx::{
    field::{
        Inputs,
        ScriptData,
    },
    ConsensusParameters,
    Input,
    Script,
    TxPointer,
    UtxoId,
};
use fuel_types::{
    AssetId,
    BlobId,
    BlockHeight,
    Bytes32,
};
use fuel_vm::{
    checked_transaction::{
        CheckPredicateParams,
        Checked,
        IntoChecked,
    },
    consts::VM_MAX_RAM,
    context::Context,
    error::{
        InterpreterError,
        PredicateVerificationFailed,
    },
    interpreter::{
        predicates,
        Interpreter,
        MemoryInstance,
        NotSupportedEcal,
    },
    predicate::RuntimePredicate,
    state::{
        ExecuteState,
        ProgramState,
    },
    storage::{
        BlobData,
        ContractsAssetsStorage,
        InterpreterStorage,
        MemoryStorage,
    },
};
use progkit::{
    r,
    World,
    WorldCfg,
    A,
    B,
};
use serde::{
    Deserialize,
    Serialize,
};
use vcore::{
    guard::catch_any,
    json,
    run::hash64,
    run_check,
    space,
    Ctx,
    Level,
    Value,
};

type VmS<S> = Interpreter<MemoryInstance, S, Script>;
type Vm = VmS<MemoryStorage>;

// ------------------------------------------------------------------ observations

/// What a call into the subject did, by error *variant* (never by rendered text).
#[derive(Debug, Clone, PartialEq, Eq, Hash)]
enum Obs {
    /// Ok(..) with a label (proceed / return / returndata / revert / state name)
    Ok(&'static str),
    /// `InterpreterError::PanicInstruction` — a well-formed VM panic of an instruction
    VmPanic(PanicReason),
    /// `InterpreterError::Panic` — a well-formed panic not tied to an instruction
    ErrPanic(PanicReason),
    Storage(String),
    Bug(String),
    Other(String, String),
    HostPanic(String),
}

impl Obs {
    fn label(&self) -> String {
        match self {
            Obs::Ok(l) => format!("ok:{l}"),
            Obs::VmPanic(r) => format!("panic:{r:?}"),
            Obs::ErrPanic(r) => format!("err-panic:{r:?}"),
            Obs::Storage(_) => "err:storage".into(),
            Obs::Bug(_) => "BUG".into(),
            Obs::Other(v, _) => format!("err:{v}"),
            Obs::HostPanic(_) => "HOST-PANIC".into(),
        }
    }
}

fn of_error<E: core::fmt::Debug>(e: InterpreterError<E>) -> Obs {
    match e {
        InterpreterError::PanicInstruction(p) => Obs::VmPanic(*p.reason()),
        InterpreterError::Panic(r) => Obs::ErrPanic(r),
        InterpreterError::Storage(s) => Obs::Storage(format!("{s:?}")),
        InterpreterError::Bug(b) => Obs::Bug(format!("{b:?}")),
        InterpreterError::CheckError(c) => Obs::Other("CheckError".into(), format!("{c:?}")),
        InterpreterError::NoTransactionInitialized => {
            Obs::Other("NoTransactionInitialized".into(), String::new())
        }
        InterpreterError::DebugStateNotInitialized => {
            Obs::Other("DebugStateNotInitialized".into(), String::new())
        }
        InterpreterError::ReadyTransactionWrongGasPrice { .. } => {
            Obs::Other("ReadyTransactionWrongGasPrice".into(), String::new())
        }
    }
}

fn of_exec<E: core::fmt::Debug>(
    r: Result<Result<ExecuteState, InterpreterError<E>>, String>,
) -> Obs {
    match r {
        Err(m) => Obs::HostPanic(m),
        Ok(Ok(ExecuteState::Proceed)) => Obs::Ok("proceed"),
        Ok(Ok(ExecuteState::Return(_))) => Obs::Ok("return"),
        Ok(Ok(ExecuteState::ReturnData(_))) => Obs::Ok("returndata"),
        Ok(Ok(ExecuteState::Revert(_))) => Obs::Ok("revert"),
        Ok(Ok(ExecuteState::DebugEvent(_))) => Obs::Ok("debug"),
        Ok(Err(e)) => of_error(e),
    }
}

fn of_state<E: core::fmt::Debug>(
    r: Result<Result<ProgramState, InterpreterError<E>>, String>,
) -> Obs {
    match r {
        Err(m) => Obs::HostPanic(m),
        Ok(Ok(ProgramState::Return(_))) => Obs::Ok("Return"),
        Ok(Ok(ProgramState::ReturnData(_))) => Obs::Ok("ReturnData"),
        Ok(Ok(ProgramState::Revert(_))) => Obs::Ok("Revert"),
        Ok(Ok(_)) => Obs::Ok("Debug"),
        Ok(Err(e)) => of_error(e),
    }
}

fn of_predicates<T>(r: Result<Result<T, PredicateVerificationFailed>, String>) -> Obs {
    match r {
        Err(m) => Obs::HostPanic(m),
        Ok(Ok(_)) => Obs::Ok("predicates-ok"),
        Ok(Err(PredicateVerificationFailed::Bug(b))) => Obs::Bug(format!("{b:?}")),
        Ok(Err(PredicateVerificationFailed::Storage { .. })) => {
            Obs::Storage("predicate storage".into())
        }
        Ok(Err(PredicateVerificationFailed::PanicInstruction { instruction, .. })) => {
            Obs::VmPanic(*instruction.reason())
        }
        Ok(Err(PredicateVerificationFailed::Panic { reason, .. })) => Obs::ErrPanic(reason),
        Ok(Err(other)) => {
            let s = format!("{other:?}");
            let v = s
                .split(|c: char| !c.is_alphanumeric())
                .next()
                .unwrap_or("?")
                .to_string();
            Obs::Other(format!("predicate:{v}"), s)
        }
    }
}

/// `file:line` of a caught host panic, independent of where the tree is checked out.
fn panic_site(msg: &str) -> String {
    if let Some(i) = msg.rfind(" at ") {
        let loc = &msg[i + 4..];
        let loc = match loc.find("fuel-") {
            Some(j) => &loc[j..],
            None => loc,
        };
        return loc.to_string()
    }
    msg.lines()
        .next()
        .unwrap_or("")
        .chars()
        .map(|c| if c.is_ascii_digit() { '#' } else { c })
        .take(60)
        .collect()
}

fn bug_variant(rendered: &str) -> String {
    match rendered.find("variant: ") {
        Some(i) => rendered[i + 9..]
            .chars()
            .take_while(|c| c.is_alphanumeric())
            .collect(),
        None => "unknown".into(),
    }
}

fn opname(byte: u8) -> String {
    match Opcode::try_from(byte) {
        Ok(o) => format!("{o:?}"),
        Err(_) => format!("INVALID_{byte:02x}"),
    }
}

/// (key, what)
type Finding = (String, String);

/// The part of the oracle common to all entry points: host panic / Bug.
fn judge_common(obs: &Obs, entry: &str) -> Option<Finding> {
    match obs {
        Obs::HostPanic(m) => Some((
            format!("C29:host-panic:{entry}:{}", panic_site(m)),
            format!("host panic in {entry}: {m}"),
        )),
        Obs::Bug(b) => Some((
            format!("C29:bug:{}", bug_variant(b)),
            format!("{entry} returned an internal-bug error: {b}"),
        )),
        _ => None,
    }
}

/// End-to-end result: Ok(state), or Err(Storage) iff a fault was injected.
fn judge_final(obs: &Obs, entry: &str, fault_injected: bool) -> Option<Finding> {
    if let Some(f) = judge_common(obs, entry) {
        return Some(f)
    }
    match obs {
        Obs::Ok(_) => None,
        Obs::Storage(_) if fault_injected => None,
        Obs::Storage(s) => Some((
            "C29:unexpected-error:Storage".into(),
            format!("{entry}: storage error without an injected fault: {s}"),
        )),
        Obs::VmPanic(r) | Obs::ErrPanic(r) => Some((
            format!("C29:unexpected-error:Panic:{r:?}"),
            format!("{entry} ended with Err(Panic({r:?})) instead of a program state"),
        )),
        Obs::Other(v, s) => Some((
            format!("C29:unexpected-error:{v}"),
            format!("{entry} ended with {v}: {s}"),
        )),
        Obs::HostPanic(_) | Obs::Bug(_) => unreachable!(),
    }
}

// ------------------------------------------------------------------ environment

const G_SINGLE: u64 = 1_000_000;
const G_PROG: u64 = 20_000;
const G_PROBE: u64 = 2_000_000;
const MEM: u64 = VM_MAX_RAM;

// registers loaded by the extra prelude `xpre`
const R_L: u8 = 0x10; // 32
const R_M1: u8 = 0x11; // MEM-1
const R_MAX: u8 = 0x12; // u64::MAX
const R_HP: u8 = 0x13; // owned heap pointer: 64 bytes = 32 x 0xff, 32 x 0
const R_MEM: u8 = 0x14; // MEM
const R_HUGE: u8 = 0x15; // 2^40
const R_64: u8 = 0x16; // 64
const R_SP0: u8 = 0x17; // start of an owned 64-byte stack frame
const R_4: u8 = 0x19; // 4 = index of the first variable output
const R_D: u8 = 0x30; // scratch destinations
const R_D2: u8 = 0x31;

fn raw_of(i: Instruction) -> u32 {
    let r: RawInstruction = i.into();
    r
}

fn bytes_of(raws: &[u32]) -> Vec<u8> {
    raws.iter().flat_map(|r| r.to_be_bytes()).collect()
}

fn xpre() -> Vec<u32> {
    vec![
        op::movi(R_64, 64),
        op::aloc(R_64),
        op::move_(R_HP, RegId::HP),
        op::move_(R_SP0, RegId::SP),
        op::cfei(64),
        op::not(R_MAX, RegId::ZERO),
        op::sw(R_HP, R_MAX, 0),
        op::sw(R_HP, R_MAX, 1),
        op::sw(R_HP, R_MAX, 2),
        op::sw(R_HP, R_MAX, 3),
        op::movi(R_MEM, 1),
        op::slli(R_MEM, R_MEM, 26),
        op::subi(R_M1, R_MEM, 1),
        op::movi(R_HUGE, 1),
        op::slli(R_HUGE, R_HUGE, 40),
        op::movi(R_L, 32),
        op::movi(R_4, 4),
    ]
    .into_iter()
    .map(raw_of)
    .collect()
}

#[derive(Clone, Debug)]
struct Let {
    name: String,
    raw: u32,
    /// touches storage (member of the fault alphabets): 1 = script+contract, 2 = contract only
    st: u8,
}

fn letters() -> Vec<Let> {
    let z = RegId::ZERO;
    let one = RegId::ONE;
    let mut v: Vec<Let> = Vec::new();
    let mut p = |name: &str, i: Instruction, st: u8| {
        v.push(Let {
            name: name.to_string(),
            raw: raw_of(i),
            st,
        })
    };
    // trivial / control
    p("noop", op::noop(), 0);
    p("ret-1", op::ret(one), 0);
    p("rvrt", op::rvrt(R_L), 0);
    p("retd", op::retd(r::PATTERN, R_L), 0);
    p("retd!", op::retd(R_M1, R_MAX), 0);
    p("flag-unsafe", op::flag(one), 0);
    p("flag!", op::flag(R_MAX), 0);
    // ALU
    p("add", op::add(R_D, R_L, R_L), 0);
    p("add!", op::add(R_D, R_MAX, R_MAX), 0);
    p("sub!", op::sub(R_D, z, one), 0);
    p("mul!", op::mul(R_D, R_MAX, R_MAX), 0);
    p("div!", op::div(R_D, R_L, z), 0);
    p("mod!", op::mod_(R_D, R_L, z), 0);
    p("exp!", op::exp(R_D, R_MAX, R_MAX), 0);
    p("expi!", op::expi(R_D, R_MAX, 0xfff), 0);
    p("mlog!", op::mlog(R_D, z, z), 0);
    p("mroo!", op::mroo(R_D, R_MAX, z), 0);
    p("mroo", op::mroo(R_D, R_MAX, R_L), 0);
    p("mldv!", op::mldv(R_D, R_MAX, R_MAX, z), 0);
    p("sll!", op::sll(R_D, R_MAX, R_MAX), 0);
    p("srli!", op::srli(R_D, R_MAX, 0xfff), 0);
    p("niop!", op::niop(R_D, R_MAX, R_MAX, 0x3f), 0);
    p("muli!", op::muli(R_D, R_MAX, 0xfff), 0);
    p("divi!", op::divi(R_D, R_MAX, 0), 0);
    p("move-reserved!", op::move_(RegId::PC, R_MAX), 0);
    p("movi-reserved!", op::movi(RegId::HP, 0), 0);
    // wide integers
    p("wdcm", op::wdcm(R_D, r::PATTERN, r::PATTERN, 0), 0);
    p("wqcm!", op::wqcm(R_D, R_M1, R_M1, 0x3f), 0);
    p("wdop", op::wdop(R_HP, r::PATTERN, r::PATTERN, 0), 0);
    p("wqop!", op::wqop(R_HP, r::PATTERN, R_M1, 0x3f), 0);
    p("wqml", op::wqml(R_HP, r::PATTERN, r::PATTERN, 0), 0);
    p("wqml!", op::wqml(R_M1, R_HP, R_HP, 0x30), 0);
    p("wddv-by0", op::wddv(R_SP0, r::PATTERN, R_SP0, 0), 0);
    p("wqdv!", op::wqdv(R_HP, R_HP, R_SP0, 0x3f), 0);
    p("wdmd-by0", op::wdmd(R_HP, R_HP, R_HP, R_SP0), 0);
    p("wqmd", op::wqmd(R_HP, R_HP, R_HP, r::PATTERN), 0);
    p("wdam!", op::wdam(R_MAX, R_HP, R_HP, R_HP), 0);
    p("wqam-by0", op::wqam(R_HP, R_HP, R_HP, R_SP0), 0);
    p("wdmm", op::wdmm(R_HP, R_HP, R_HP, R_HP), 0);
    p("wqmm!", op::wqmm(R_HP, R_M1, R_HP, R_HP), 0);
    // memory
    p("aloc", op::aloc(R_L), 0);
    p("aloc-max!", op::aloc(R_MAX), 0);
    p("aloc-mem!", op::aloc(R_MEM), 0);
    p("cfei", op::cfei(32), 0);
    p("cfei!", op::cfei(0xff_ffff), 0);
    p("cfsi!", op::cfsi(0xff_ffff), 0);
    p("cfe!", op::cfe(R_MAX), 0);
    p("cfs", op::cfs(R_L), 0);
    p("cfs!", op::cfs(R_MAX), 0);
    p("cfsi-64", op::cfsi(64), 0);
    p("mcl", op::mcl(R_HP, R_L), 0);
    p("mcl!", op::mcl(R_M1, R_MAX), 0);
    p("mcl-unowned!", op::mcl(z, R_L), 0);
    p("mcli!", op::mcli(R_M1, 0x3_ffff), 0);
    p("mcp", op::mcp(R_HP, r::PATTERN, R_L), 0);
    p("mcp!", op::mcp(R_MAX, R_MAX, R_MAX), 0);
    p("mcp-overlap!", op::mcp(R_HP, R_HP, R_L), 0);
    p("mcpi!", op::mcpi(R_HP, R_M1, 0xfff), 0);
    p("meq", op::meq(R_D, R_HP, r::PATTERN, R_L), 0);
    p("meq!", op::meq(R_D, R_M1, R_M1, R_MAX), 0);
    p("lb!", op::lb(R_D, R_M1, 0xfff), 0);
    p("lw", op::lw(R_D, r::PATTERN, 0), 0);
    p("lw!", op::lw(R_D, R_MAX, 0xfff), 0);
    p("lw-mem!", op::lw(R_D, R_M1, 0), 0);
    p("lqw!", op::lqw(R_D, R_M1, 0xfff), 0);
    p("lhw!", op::lhw(R_D, R_MAX, 1), 0);
    p("sb!", op::sb(R_M1, R_L, 1), 0);
    p("sw", op::sw(R_HP, R_L, 4), 0);
    p("sw!", op::sw(R_MAX, R_L, 0xfff), 0);
    p("sw-unowned!", op::sw(z, R_L, 0), 0);
    p("sqw!", op::sqw(R_M1, R_L, 0xfff), 0);
    p("shw!", op::shw(R_HUGE, R_L, 0), 0);
    p("pshl", op::pshl(0xff_ffff), 0);
    p("pshh", op::pshh(0xff_ffff), 0);
    p("popl!", op::popl(0xff_ffff), 0);
    p("poph!", op::poph(0xff_ffff), 0);
    // jumps
    p("jmpb-self!", op::jmpb(z, 0), 0);
    p("jmpf-skip", op::jmpf(z, 0), 0);
    p("jmpf!", op::jmpf(R_MAX, 0x3_ffff), 0);
    p("jmp!", op::jmp(R_MAX), 0);
    p("jmp-is!", op::jmp(z), 0);
    p("ji!", op::ji(0xff_ffff), 0);
    p("jnzi-is!", op::jnzi(one, 0), 0);
    p("jnzb-loop!", op::jnzb(one, z, 0), 0);
    p("jnzf!", op::jnzf(one, R_MAX, 0xfff), 0);
    p("jne!", op::jne(R_MAX, z, one), 0);
    p("jnei!", op::jnei(z, one, 0xfff), 0);
    p("jnef!", op::jnef(z, one, R_HUGE, 0x3f), 0);
    p("jneb!", op::jneb(z, one, R_MAX, 0x3f), 0);
    p("jal!", op::jal(R_D, R_MAX, 0xfff), 0);
    p("jal-is!", op::jal(R_D, RegId::IS, 0), 0);
    // receipts / tx access
    p("log", op::log(R_L, R_L, R_L, R_L), 0);
    p("logd", op::logd(z, z, r::PATTERN, R_L), 0);
    p("logd!", op::logd(z, z, R_M1, R_MAX), 0);
    p("gm-caller", op::gm(R_D, 2), 0);
    p("gm-txstart", op::gm(R_D, 5), 0);
    p("gm!", op::gm(R_D, 0x3_ffff), 0);
    p("gtf-scriptlen", op::gtf_args(R_D, z, GTFArgs::ScriptLength), 0);
    p("gtf-input!", op::gtf_args(R_D, R_MAX, GTFArgs::InputCoinOwner), 0);
    p("gtf-witness!", op::gtf_args(R_D, R_HUGE, GTFArgs::WitnessData), 0);
    p("gtf-sel!", op::gtf(R_D, z, 0xfff), 0);
    // crypto
    p("eck1!", op::eck1(R_HP, r::PATTERN, r::PATTERN), 0);
    p("ecr1", op::ecr1(R_HP, r::PATTERN, r::PATTERN), 0);
    p("ecr1!", op::ecr1(R_M1, R_M1, R_M1), 0);
    p("ed19", op::ed19(r::PATTERN, r::PATTERN, r::PATTERN, R_L), 0);
    p("ed19!", op::ed19(r::PATTERN, r::PATTERN, r::PATTERN, R_MAX), 0);
    p("k256", op::k256(R_HP, r::PATTERN, R_L), 0);
    p("k256!", op::k256(R_HP, z, R_MAX), 0);
    p("s256", op::s256(R_HP, r::PATTERN, R_L), 0);
    p("s256!", op::s256(R_M1, R_M1, R_HUGE), 0);
    p("ecop", op::ecop(R_HP, z, z, r::PATTERN), 0);
    p("ecop!", op::ecop(R_HP, R_MAX, R_MAX, R_M1), 0);
    p("epar", op::epar(R_D, z, one, r::PATTERN), 0);
    p("epar!", op::epar(R_D, z, R_MAX, r::PATTERN), 0);
    p("ecal", op::ecal(z, z, z, z), 0);
    // chain / contracts (storage)
    p("bhei", op::bhei(R_D), 0);
    p("bhsh", op::bhsh(R_HP, z), 1);
    p("bhsh!", op::bhsh(R_HP, R_MAX), 1);
    p("time", op::time(R_D, z), 1);
    p("time!", op::time(R_D, R_MAX), 1);
    p("cb", op::cb(R_HP), 1);
    p("cb!", op::cb(R_M1), 1);
    p("bal", op::bal(R_D, r::ASSET_BASE, r::CALL_B), 1);
    p("bal!", op::bal(R_D, R_M1, R_M1), 1);
    p("csiz", op::csiz(R_D, r::CALL_A), 1);
    p("csiz-C", op::csiz(R_D, r::CALL_C), 1);
    p("csiz!", op::csiz(R_D, R_M1), 1);
    p("croo", op::croo(R_HP, r::CALL_B), 1);
    p("ccp", op::ccp(R_HP, r::CALL_B, z, R_L), 1);
    p("ccp!", op::ccp(R_HP, r::CALL_B, R_MAX, R_MAX), 1);
    p("ldc", op::ldc(r::CALL_B, z, R_L, 0), 1);
    p("ldc!", op::ldc(r::CALL_B, R_MAX, R_MAX, 0), 1);
    p("ldc-blob", op::ldc(r::PATTERN, z, R_L, 1), 1);
    p("ldc-mem", op::ldc(r::PATTERN, z, R_L, 2), 0);
    p("ldc-mode!", op::ldc(r::PATTERN, R_HUGE, R_MAX, 3), 0);
    p("bsiz", op::bsiz(R_D, r::PATTERN), 1);
    p("bsiz!", op::bsiz(R_D, R_M1), 1);
    p("bldd", op::bldd(R_HP, r::PATTERN, z, R_L), 1);
    p("bldd!", op::bldd(R_HP, r::PATTERN, R_MAX, R_MAX), 1);
    p("call-A", op::call(r::CALL_A, z, r::ASSET_BASE, RegId::CGAS), 1);
    p("call-B", op::call(r::CALL_B, z, r::ASSET_BASE, RegId::CGAS), 1);
    p("call-C", op::call(r::CALL_C, z, r::ASSET_BASE, RegId::CGAS), 1);
    p("call-D", op::call(r::CALL_D, z, r::ASSET_BASE, RegId::CGAS), 1);
    p("call-coins!", op::call(r::CALL_B, R_MAX, r::ASSET_X, R_MAX), 1);
    p("call-ptr!", op::call(R_M1, z, R_M1, z), 1);
    p("tr", op::tr(r::CALL_B, R_L, r::ASSET_X), 1);
    p("tr!", op::tr(r::CALL_B, R_MAX, r::ASSET_X), 1);
    p("tr-D!", op::tr(r::CALL_D, R_L, r::ASSET_X), 1);
    p("tro", op::tro(r::RECIPIENT, R_4, R_L, r::ASSET_X), 1);
    p("tro!", op::tro(r::RECIPIENT, R_MAX, R_MAX, r::ASSET_X), 1);
    p("smo", op::smo(r::RECIPIENT, r::PATTERN, R_L, z), 1);
    p("smo!", op::smo(r::RECIPIENT, R_M1, R_MAX, R_MAX), 1);
    // contract-only
    p("mint", op::mint(R_L, R_SP0), 2);
    p("mint!", op::mint(R_MAX, R_HP), 2);
    p("burn", op::burn(one, R_SP0), 2);
    p("burn!", op::burn(R_MAX, R_M1), 2);
    p("srw", op::srw(R_D, R_D2, r::PATTERN, 0), 2);
    p("srw!", op::srw(R_D, R_D2, R_M1, 0x3f), 2);
    p("srwq", op::srwq(R_HP, R_D2, r::PATTERN, one), 2);
    p("srwq!", op::srwq(R_HP, R_D2, R_HP, R_MAX), 2);
    p("sww", op::sww(r::PATTERN, R_D2, R_L), 2);
    p("sww-ffkey", op::sww(R_HP, R_D2, R_MAX), 2);
    p("swwq", op::swwq(r::PATTERN, R_D2, r::PATTERN, one), 2);
    p("swwq!", op::swwq(R_HP, R_D2, R_M1, R_MAX), 2);
    p("scwq", op::scwq(r::PATTERN, R_D2, one), 2);
    p("scwq-wrap!", op::scwq(R_HP, R_D2, R_4), 2);
    p("scwq!", op::scwq(r::PATTERN, R_D2, R_MAX), 2);
    p("sclr", op::sclr(r::PATTERN, one), 2);
    p("sclr-wrap!", op::sclr(R_HP, R_4), 2);
    p("sclr!", op::sclr(r::PATTERN, R_MAX), 2);
    p("srdd", op::srdd(R_HP, r::PATTERN, z, R_L), 2);
    p("srdd!", op::srdd(R_HP, r::PATTERN, R_MAX, R_MAX), 2);
    p("srdi", op::srdi(R_HP, r::PATTERN, z, 32), 2);
    p("srdi!", op::srdi(R_M1, r::PATTERN, R_MAX, 0x3f), 2);
    p("swrd", op::swrd(r::PATTERN, r::PATTERN, R_L), 2);
    p("swrd!", op::swrd(r::PATTERN, R_M1, R_MAX), 2);
    p("swri", op::swri(r::PATTERN, r::PATTERN, 8), 2);
    p("swri!", op::swri(R_HP, R_M1, 0xfff), 2);
    p("supd", op::supd(r::PATTERN, r::PATTERN, z, R_L), 2);
    p("supd!", op::supd(r::PATTERN, r::PATTERN, R_MAX, R_MAX), 2);
    p("supi", op::supi(r::PATTERN, r::PATTERN, one, 8), 2);
    p("supi!", op::supi(r::PATTERN, R_HP, R_MAX, 0x3f), 2);
    p("spld", op::spld(R_D, r::PATTERN), 2);
    p("spld!", op::spld(R_D, R_M1), 2);
    // undecodable words
    v.push(Let { name: "raw-00000000".into(), raw: 0, st: 0 });
    v.push(Let { name: "raw-ffffffff".into(), raw: 0xffff_ffff, st: 0 });
    v.push(Let { name: "noop-dirty".into(), raw: 0x47ff_ffff, st: 0 });
    v
}

struct Env {
    world: World,
    params: ConsensusParameters,
    cpp: CheckPredicateParams,
    xpre: Vec<u32>,
    letters: Vec<Let>,
}

fn pattern32() -> [u8; 32] {
    let mut k = [0u8; 32];
    for (i, b) in k.iter_mut().enumerate() {
        *b = i as u8 + 1;
    }
    k
}

impl Env {
    fn new() -> Env {
        let cfg = WorldCfg {
            // B: a citizen that logs, touches its storage and returns
            code_b: vec![
                op::log(RegId::ZERO, RegId::ZERO, RegId::ZERO, RegId::ZERO),
                op::ret(RegId::ONE),
            ],
            ..WorldCfg::default()
        };
        let mut world = World::new(cfg);
        // The VM only ever reads the `memory` layer of MemoryStorage; rebuild the world
        // storage with that single layer populated so that cloning a VM is cheap.
        let mut st = MemoryStorage::default();
        for (id, code) in [
            (A, &world.cfg.code_a),
            (B, &world.cfg.code_b),
            (progkit::C, &world.cfg.code_c),
        ] {
            let bytes: Vec<u8> = code.iter().copied().collect();
            st.deploy_contract_with_id(&[], &bytes, &id).expect("deploy");
        }
        for (c, a, v) in &world.cfg.balances {
            st.contract_asset_id_balance_insert(c, a, *v).expect("balance");
        }
        // state + blob addressed by the 32-byte PATTERN (01 02 .. 20) and the all-ones key
        let key = Bytes32::new(pattern32());
        let mut key2 = pattern32();
        key2[31] += 1;
        for c in [A, B] {
            st.contract_state_insert(&c, &key, &[0xAB; 32]).expect("state");
            st.contract_state_insert(&c, &Bytes32::new(key2), &[0xCD; 40])
                .expect("state");
            st.contract_state_insert(&c, &Bytes32::new([0xff; 32]), &[0xEE; 32])
                .expect("state");
        }
        StorageMutate::<BlobData>::insert(&mut st, &BlobId::new(pattern32()), &[0x5a; 100])
            .expect("blob");
        world.storage = st;
        let params = world.params.clone();
        let cpp = CheckPredicateParams::from(&params);
        Env {
            world,
            params,
            cpp,
            xpre: xpre(),
            letters: letters(),
        }
    }

    fn prelude_raws(&self) -> Vec<u32> {
        self.world.prelude.iter().map(|i| raw_of(*i)).collect()
    }

    /// program bytes shared by all modes: extra prelude + body + `ret $one`
    fn body_bytes(&self, body: &[u32]) -> Vec<u8> {
        let mut v = self.xpre.clone();
        v.extend_from_slice(body);
        v.push(raw_of(op::ret(RegId::ONE)));
        bytes_of(&v)
    }

    fn script_bytes(&self, body: &[u32]) -> Vec<u8> {
        let mut v = bytes_of(&self.prelude_raws());
        v.extend(self.body_bytes(body));
        v
    }

    /// the fixed script that calls contract A
    fn caller_bytes(&self) -> Vec<u8> {
        let mut v = self.prelude_raws();
        v.push(raw_of(op::call(
            r::CALL_A,
            RegId::ZERO,
            r::ASSET_BASE,
            RegId::CGAS,
        )));
        v.push(raw_of(op::ret(RegId::ONE)));
        bytes_of(&v)
    }

    fn storage_with_code_a(&self, code: &[u8]) -> MemoryStorage {
        let mut s = self.world.storage.clone();
        s.deploy_contract_with_id(&[], code, &A).expect("deploy");
        s
    }

    /// A checked script transaction of the world (None = rejected by the basic checks).
    fn checked(
        &self,
        script: Vec<u8>,
        script_data: Option<Vec<u8>>,
        predicate: Option<(Vec<u8>, u64)>,
        gas: u64,
    ) -> Result<Checked<Script>, String> {
        let mut tx = self.world.tx(script, gas);
        if let Some(d) = script_data {
            *tx.script_data_mut() = d;
        }
        if let Some((code, pgas)) = predicate {
            let owner = Input::predicate_owner(&code);
            tx.inputs_mut().push(Input::coin_predicate(
                UtxoId::new(Bytes32::new([9; 32]), 0),
                owner,
                1_000,
                AssetId::BASE,
                TxPointer::default(),
                pgas,
                code,
                (1..=40u8).collect(),
            ));
        }
        match catch_any(|| tx.into_checked_basic(BlockHeight::new(0), &self.params)) {
            Ok(Ok(c)) => Ok(c),
            Ok(Err(e)) => Err(format!("{e:?}")),
            Err(m) => Err(format!("HOST-PANIC {m}")),
        }
    }

    fn new_vm<S: InterpreterStorage>(&self, storage: S) -> VmS<S> {
        Interpreter::with_storage(
            MemoryInstance::new(),
            storage,
            self.world.interpreter_params(),
        )
    }
}

// ------------------------------------------------------------------ step-wise runs

struct StepRun {
    /// last observation
    last: Obs,
    steps: u64,
    findings: Vec<Finding>,
    terminated: bool,
}

fn reg_of<S>(vm: &VmS<S>, id: RegId) -> u64 {
    vm.registers()[id.to_u8() as usize]
}

/// Execute from the current `$pc` until the program ends, checking per instruction:
/// no host panic, no Bug, `$ggas` strictly decreases when the instruction executed.
fn run_steps<S: InterpreterStorage, const PREDICATE: bool>(
    vm: &mut VmS<S>,
    gas_limit: u64,
) -> StepRun {
    let mut steps = 0u64;
    let mut findings = Vec::new();
    let bound = gas_limit.saturating_add(1);
    loop {
        let pc = reg_of(vm, RegId::PC);
        let opb = vm.memory().read(pc, 4usize).map(|b| b[0]).ok();
        let name = || opb.map(opname).unwrap_or_else(|| "FETCH".into());
        let in_call = reg_of(vm, RegId::FP) != 0;
        let g0 = reg_of(vm, RegId::GGAS);
        let obs = of_exec(catch_any(|| vm.execute::<PREDICATE>()));
        steps += 1;
        if matches!(obs, Obs::HostPanic(_) | Obs::Bug(_)) {
            findings.extend(judge_common(&obs, &name()));
        }
        let fin = match &obs {
            Obs::Ok(l) => {
                let g1 = reg_of(vm, RegId::GGAS);
                if g1 >= g0 {
                    let name = name();
                    findings.push((
                        format!("C29:free-instruction:{name}"),
                        format!(
                            "{name} at pc={pc} executed ({l}) with $ggas {g0} -> {g1} under the default gas schedule"
                        ),
                    ));
                }
                match *l {
                    "proceed" => false,
                    "return" | "returndata" => PREDICATE || !in_call,
                    _ => true,
                }
            }
            _ => true,
        };
        if fin {
            return StepRun {
                last: obs,
                steps,
                findings,
                terminated: true,
            }
        }
        if steps > bound {
            findings.push((
                "C29:no-termination".into(),
                format!(
                    "still running after {steps} instructions with gas limit {gas_limit} ($ggas={})",
                    reg_of(vm, RegId::GGAS)
                ),
            ));
            return StepRun {
                last: obs,
                steps,
                findings,
                terminated: false,
            }
        }
    }
}

/// A VM over `MemoryStorage` initialised for predicate `idx` of `tx` (verification context).
fn predicate_vm(env: &Env, tx: &Script, gas: u64) -> Result<Vm, Obs> {
    let idx = tx.inputs().len() - 1;
    let program = RuntimePredicate::from_tx(tx, env.cpp.tx_offset, idx)
        .expect("last input is the predicate");
    let mut vm: Vm = env.new_vm(env.world.storage.clone());
    let r = catch_any(|| {
        vm.init_predicate(Context::PredicateVerification { program }, tx.clone(), gas)
    });
    match r {
        Ok(Ok(())) => Ok(vm),
        Ok(Err(e)) => Err(of_error(e)),
        Err(m) => Err(Obs::HostPanic(m)),
    }
}

// ------------------------------------------------------------------ program cases

#[derive(Serialize, Deserialize, Clone, Debug)]
struct Prog {
    /// "script" | "contract" | "predicate"
    mode: String,
    label: String,
    /// hex: the whole script / the code of contract A / the predicate code
    code: String,
    #[serde(default)]
    script_data: Option<String>,
    gas: u64,
    /// None: MemoryStorage (step-wise + end-to-end). Some(0): FaultyStorage counting run.
    /// Some(k>0): FaultyStorage failing the k-th access.
    #[serde(default)]
    fault_at: Option<u64>,
}

#[derive(Default)]
struct ProgOut {
    findings: Vec<Finding>,
    /// outcome labels (one per entry point exercised)
    labels: Vec<String>,
    steps: u64,
    accesses: u64,
    receipts: usize,
}

fn run_prog(env: &Env, p: &Prog) -> ProgOut {
    let mut out = ProgOut::default();
    let code = hex::decode(&p.code).expect("hex code");
    let data = p
        .script_data
        .as_ref()
        .map(|d| hex::decode(d).expect("hex data"));
    match p.mode.as_str() {
        "script" | "contract" => {
            let (script, storage) = if p.mode == "script" {
                (code, env.world.storage.clone())
            } else {
                (env.caller_bytes(), env.storage_with_code_a(&code))
            };
            let checked = match env.checked(script, data, None, p.gas) {
                Ok(c) => c,
                Err(e) => {
                    if e.starts_with("HOST-PANIC") {
                        out.findings.extend(judge_common(
                            &Obs::HostPanic(e[11..].to_string()),
                            "into_checked_basic",
                        ));
                    }
                    out.labels.push("check-rejected".into());
                    return out
                }
            };
            match p.fault_at {
                None => {
                    // 1. step-wise with an instruction counter
                    let mut vm = env.new_vm(storage.clone());
                    let ready = checked.clone().test_into_ready();
                    let init = catch_any(|| vm.init_script(ready));
                    let init_obs = match init {
                        Ok(Ok(())) => None,
                        Ok(Err(e)) => Some(of_error(e)),
                        Err(m) => Some(Obs::HostPanic(m)),
                    };
                    if let Some(o) = init_obs {
                        out.findings.extend(judge_final(&o, "init_script", false));
                        out.labels.push(format!("init:{}", o.label()));
                        return out
                    }
                    if !fuel_tx::field::Script::script(vm.transaction()).is_empty() {
                        let sr = run_steps::<_, false>(&mut vm, p.gas);
                        out.steps = sr.steps;
                        out.labels.push(format!("steps:{}", sr.last.label()));
                        let clean = sr.findings.is_empty();
                        out.findings.extend(sr.findings);
                        if !sr.terminated || !clean {
                            return out
                        }
                    }
                    // 2. end to end
                    let mut vm = env.new_vm(storage);
                    let ready = checked.test_into_ready();
                    let mut receipts = 0;
                    let obs = of_state(catch_any(|| {
                        let r = vm.transact(ready).map(|st| {
                            receipts = st.receipts().len();
                            *st.state()
                        });
                        r
                    }));
                    out.receipts = receipts;
                    out.findings.extend(judge_final(&obs, "transact", false));
                    out.labels.push(format!("transact:{}", obs.label()));
                }
                Some(k) => {
                    let mut vm = env.new_vm(FaultyStorage::new(storage, k));
                    let ready = checked.test_into_ready();
                    let obs =
                        of_state(catch_any(|| vm.transact(ready).map(|st| *st.state())));
                    out.accesses = vm.as_ref().accesses();
                    let injected = k > 0 && out.accesses >= k;
                    out.findings
                        .extend(judge_final(&obs, "transact", injected));
                    out.labels.push(format!(
                        "fault{}:{}",
                        if injected { "" } else { "-free" },
                        obs.label()
                    ));
                }
            }
        }
        "predicate" => {
            let script = bytes_of(&[raw_of(op::ret(RegId::ONE))]);
            let checked = match env.checked(script, data, Some((code, p.gas)), G_PROG) {
                Ok(c) => c,
                Err(e) => {
                    if e.starts_with("HOST-PANIC") {
                        out.findings.extend(judge_common(
                            &Obs::HostPanic(e[11..].to_string()),
                            "into_checked_basic",
                        ));
                    }
                    out.labels.push("check-rejected".into());
                    return out
                }
            };
            let tx: Script = checked.transaction().clone();
            match p.fault_at {
                None => {
                    match predicate_vm(env, &tx, p.gas) {
                        Err(o) => {
                            out.findings.extend(judge_common(&o, "init_predicate"));
                            out.labels.push(format!("init:{}", o.label()));
                            return out
                        }
                        Ok(mut vm) => {
                            let sr = run_steps::<_, true>(&mut vm, p.gas);
                            out.steps = sr.steps;
                            out.labels.push(format!("steps:{}", sr.last.label()));
                            let clean = sr.findings.is_empty();
                            out.findings.extend(sr.findings);
                            if !sr.terminated || !clean {
                                return out
                            }
                        }
                    }
                    let obs = of_predicates(catch_any(|| {
                        predicates::check_predicates(
                            &checked,
                            &env.cpp,
                            MemoryInstance::new(),
                            &env.world.storage,
                            NotSupportedEcal,
                        )
                    }));
                    out.findings.extend(judge_common(&obs, "check_predicates"));
                    out.labels.push(format!("check:{}", obs.label()));
                    let mut tx2 = tx.clone();
                    // estimation runs with min(max_gas_per_predicate, ..) gas: bound it by the
                    // case's gas limit (the default 100M would make every looping predicate
                    // execute 10^8 instructions)
                    let mut cpp = env.cpp.clone();
                    cpp.max_gas_per_predicate = p.gas;
                    let obs = of_predicates(catch_any(|| {
                        predicates::estimate_predicates(
                            &mut tx2,
                            &cpp,
                            MemoryInstance::new(),
                            &env.world.storage,
                            NotSupportedEcal,
                        )
                    }));
                    out.findings
                        .extend(judge_common(&obs, "estimate_predicates"));
                    out.labels.push(format!("estimate:{}", obs.label()));
                }
                Some(k) => {
                    let fs = FaultyStorage::new(env.world.storage.clone(), k);
                    let obs = of_predicates(catch_any(|| {
                        predicates::check_predicates(
                            &checked,
                            &env.cpp,
                            MemoryInstance::new(),
                            &fs,
                            NotSupportedEcal,
                        )
                    }));
                    out.accesses = fs.accesses();
                    out.findings.extend(judge_common(&obs, "check_predicates"));
                    out.labels.push(format!("fault:check:{}", obs.label()));
                }
            }
        }
        other => panic!("unknown mode {other}"),
    }
    out
}

include!("../c29_single.rs");
include!("../c29_explore.rs");
