//! C36 — Storage reads honour the read contract for every offset and length.
//!
//! Exhaustive enumeration of two finite grids; every element is a call into the real
//! code (`fuel_vm::storage::MemoryStorage`, the `&T` / `&mut T` forwarding impls and
//! `StorageRef` of fuel-storage, and single injected instructions of the real
//! interpreter).
//!
//! Part 1 (library level).
//!   Space: table {ContractsRawCode, ContractsState, BlobData} x access path {direct,
//!   `&T`, `&mut T`, `StorageRef`} x value length L in LENS x {present, missing key} x
//!   {read_exact, read_zerofill} x offset 0..=L+2 x buffer length 0..=L+2, plus
//!   read_alloc / size_of_value once per (table, path, L, present). Buffers are
//!   pre-filled with 0xAA; value bytes are in 0x01..=0xA0 (never 0, never 0xAA) and
//!   position dependent.
//!   Oracle (trait docs in fuel-storage/src/lib.rs + property statement):
//!     read_exact   : offset+n <= L  => Ok(Ok(L)) and buf == value[offset..offset+n];
//!                    otherwise      => Ok(Err(OutOfBounds)), buffer contents don't-care.
//!     read_zerofill: offset <= L    => Ok(Ok(L)) and buf == value[offset..] ++ zeros;
//!                    offset >  L    => Ok(Err(OutOfBounds)) (or Ok(Ok(L)) with an all-zero
//!                                      buffer: the statement says "failing only when").
//!     missing key  : Ok(Err(KeyNotFound)) / read_alloc None / size_of_value None.
//!     read_alloc == Some(value), size_of_value == Some(L).
//!     A forwarding path must satisfy the same oracle (and is reported under its own
//!     key only if the direct path is fine).
//!
//! Part 2 (instruction level). One prepared script VM (storage holds one contract and
//!   one blob per length class; all contracts + one absent contract id are listed in the
//!   tx inputs; `$sp == $ssp`; stale 0xAA bytes above `$sp`; a 0xAA-filled heap block as
//!   destination). Per case: clone, set operand registers, inject ONE instruction.
//!   Space: {LDC mode 0, LDC mode 1, CCP, BLDD} x object {each length class, absent}
//!   x offset G(L) x length G(L), G(L) = 0..=L+2 u {2^32, u64::MAX}; LDC mode 2 on a
//!   memory source of max(LENS) bytes with the same grid; CSIZ / BSIZ per object; LDC
//!   (3 modes) with a non-empty stack.
//!   Oracle: success => destination == value[offset..offset+len] with zeros beyond the
//!   end of the value, LDC additionally zero padding up to the next word and
//!   `$sp = $ssp = old + padded`, `$pc += 4`, CSIZ/BSIZ result == L, every other
//!   register (except `$cgas/$ggas`) and every other byte of stack and heap unchanged.
//!   Absent object => ContractNotFound / BlobNotFound. Length >= 2^32 => one of the
//!   applicable memory / size / gas panics. Non-empty stack => ExpectedUnallocatedStack.
//!
//! Bounds: LENS quick = {0,1,8,31,32,33}; thorough = {0..9,15,16,17,31,32,33,63,64,65,127,128,129,255,256,257}.

use fuel_asm::{
    op,
    GTFArgs,
    Instruction,
    PanicReason,
    RegId,
};
use fuel_storage::{
    Mappable,
    StorageAsRef,
    StorageMutate,
    StorageRead,
    StorageReadError,
    StorageSize,
};
use fuel_tx::{
    Input,
    Output,
    TxPointer,
    UtxoId,
};
use fuel_types::{
    BlobId,
    Bytes32,
    ContractId,
};
use fuel_vm::{
    consts::MEM_SIZE,
    storage::{
        BlobData,
        ContractsRawCode,
        ContractsState,
        ContractsStateKey,
        MemoryStorage,
    },
};
use std::collections::{
    BTreeMap,
    HashSet,
};
use vcore::{
    guard,
    json,
    run::hash64,
    run_check,
    space,
    vmkit::{
        self,
        Step,
        Vm,
    },
    Ctx,
    Level,
    Value,
};

const FILL: u8 = 0xAA;
const HUGE: [u64; 2] = [1u64 << 32, u64::MAX];
const STALE: u32 = 512; // stale stack bytes above $sp, >= largest padded LDC length
const HEAP: u32 = 512; // destination block on the heap
const DST_OFF: u64 = 16; // destination starts this far into the heap block
const GAS: u64 = 50_000_000;

fn lens_for(ctx: &Ctx) -> Vec<usize> {
    if ctx.quick() {
        vec![0, 1, 2, 7, 8, 9, 15, 16, 17, 31, 32, 33, 63, 64, 65]
    } else {
        vec![0, 1, 2, 3, 4, 5, 6, 7, 8, 9, 15, 16, 17, 31, 32, 33, 63, 64, 65, 127, 128, 129, 255, 256, 257]
    }
}

/// Position dependent bytes in 0x01..=0xA0 (never 0x00, never 0xAA).
fn value(len: usize, salt: usize) -> Vec<u8> {
    (0..len).map(|i| ((i + salt) % 160 + 1) as u8).collect()
}

// ---------------------------------------------------------------------------------
// accumulation per chunk (merged in chunk order => deterministic first case per key)

#[derive(Default)]
struct Acc {
    evals: u64,
    outcomes: BTreeMap<String, u64>,
    fps: HashSet<u64>,
    viols: Vec<(String, String, Value, u64)>,
    samples: Vec<Value>,
}

impl Acc {
    fn outcome(&mut self, l: &str) {
        *self.outcomes.entry(l.to_string()).or_insert(0) += 1;
    }

    fn viol(&mut self, key: String, what: String, case: Value) {
        if let Some(e) = self.viols.iter_mut().find(|e| e.0 == key) {
            e.3 += 1;
        } else {
            self.viols.push((key, what, case, 1));
        }
    }

    fn flush(self, ctx: &Ctx) {
        ctx.evals(self.evals);
        ctx.outcomes_merge(&self.outcomes);
        ctx.fps_merge(self.fps);
        for s in self.samples {
            ctx.sample(s);
        }
        for (k, w, c, n) in self.viols {
            ctx.violation(k.clone(), w, c);
            for _ in 1..n {
                ctx.violation(k.clone(), String::new(), Value::Null);
            }
        }
    }
}

// ---------------------------------------------------------------------------------
// tables

#[derive(Clone, Copy, PartialEq, Eq, Debug, Hash)]
enum Table {
    Code,
    State,
    Blob,
}
const TABLES: [Table; 3] = [Table::Code, Table::State, Table::Blob];

impl Table {
    fn name(self) -> &'static str {
        match self {
            Table::Code => "ContractsRawCode",
            Table::State => "ContractsState",
            Table::Blob => "BlobData",
        }
    }

    fn from_name(s: &str) -> Table {
        TABLES.into_iter().find(|t| t.name() == s).expect("table name")
    }

    fn salt(self) -> usize {
        match self {
            Table::Code => 0,
            Table::State => 50,
            Table::Blob => 100,
        }
    }
}

fn code_key(class: Option<usize>) -> ContractId {
    match class {
        Some(i) => ContractId::from([0x10 + i as u8; 32]),
        None => ContractId::from([0xEE; 32]),
    }
}

fn state_key(class: Option<usize>) -> ContractsStateKey {
    let c = ContractId::from([0x20; 32]);
    let k = match class {
        Some(i) => Bytes32::from([0x30 + i as u8; 32]),
        None => Bytes32::from([0xEE; 32]),
    };
    ContractsStateKey::new(&c, &k)
}

fn blob_key(class: Option<usize>) -> BlobId {
    match class {
        Some(i) => BlobId::from([0x60 + i as u8; 32]),
        None => BlobId::from([0xEE; 32]),
    }
}

fn build_storage(lens: &[usize]) -> MemoryStorage {
    let mut st = MemoryStorage::default();
    for (i, l) in lens.iter().enumerate() {
        <MemoryStorage as StorageMutate<ContractsRawCode>>::insert(
            &mut st,
            &code_key(Some(i)),
            &value(*l, Table::Code.salt()),
        )
        .unwrap();
        <MemoryStorage as StorageMutate<ContractsState>>::insert(
            &mut st,
            &state_key(Some(i)),
            &value(*l, Table::State.salt()),
        )
        .unwrap();
        <MemoryStorage as StorageMutate<BlobData>>::insert(
            &mut st,
            &blob_key(Some(i)),
            &value(*l, Table::Blob.salt()),
        )
        .unwrap();
    }
    st.commit();
    st.persist();
    st
}

#[derive(Clone, Copy, PartialEq, Eq, Debug, Hash)]
enum Path {
    Direct,
    Ref,
    RefMut,
    SRef,
}
const PATHS: [Path; 4] = [Path::Direct, Path::Ref, Path::RefMut, Path::SRef];

impl Path {
    fn name(self) -> &'static str {
        match self {
            Path::Direct => "direct",
            Path::Ref => "&T",
            Path::RefMut => "&mut T",
            Path::SRef => "StorageRef",
        }
    }
}

#[derive(Clone, Copy, PartialEq, Eq, Debug, Hash)]
enum LOp {
    Exact,
    Zerofill,
    Alloc,
    Size,
}

impl LOp {
    fn name(self) -> &'static str {
        match self {
            LOp::Exact => "read_exact",
            LOp::Zerofill => "read_zerofill",
            LOp::Alloc => "read_alloc",
            LOp::Size => "size_of_value",
        }
    }

    fn from_name(s: &str) -> LOp {
        [LOp::Exact, LOp::Zerofill, LOp::Alloc, LOp::Size]
            .into_iter()
            .find(|o| o.name() == s)
            .expect("op name")
    }
}

/// What one library call returned (host panics are observations).
#[derive(Debug, Clone, PartialEq, Eq)]
enum LibObs {
    Read(Result<usize, StorageReadError>, Vec<u8>),
    Alloc(Option<Vec<u8>>),
    Size(Option<usize>),
    HostPanic(String),
}

fn call_t<T>(st: &mut MemoryStorage, path: Path, lop: LOp, key: &T::Key, off: usize, n: usize) -> LibObs
where
    T: Mappable,
    MemoryStorage: StorageRead<T, Error = core::convert::Infallible> + StorageSize<T>,
{
    let mut buf = vec![FILL; n];
    let r = guard::catch_any(|| match lop {
        LOp::Exact | LOp::Zerofill => {
            let zf = lop == LOp::Zerofill;
            let b = &mut buf[..];
            let res = match path {
                Path::Direct => {
                    if zf {
                        <MemoryStorage as StorageRead<T>>::read_zerofill(st, key, off, b)
                    } else {
                        <MemoryStorage as StorageRead<T>>::read_exact(st, key, off, b)
                    }
                }
                Path::Ref => {
                    let r: &MemoryStorage = st;
                    if zf {
                        <&MemoryStorage as StorageRead<T>>::read_zerofill(&r, key, off, b)
                    } else {
                        <&MemoryStorage as StorageRead<T>>::read_exact(&r, key, off, b)
                    }
                }
                Path::RefMut => {
                    let r: &mut MemoryStorage = st;
                    if zf {
                        <&mut MemoryStorage as StorageRead<T>>::read_zerofill(&r, key, off, b)
                    } else {
                        <&mut MemoryStorage as StorageRead<T>>::read_exact(&r, key, off, b)
                    }
                }
                Path::SRef => {
                    // Self = MemoryStorage (not `&mut MemoryStorage`, which would go through the forwarding impl)
                    let r = <MemoryStorage as StorageAsRef>::storage_as_ref::<T>(st);
                    if zf {
                        r.read_zerofill(key, off, b)
                    } else {
                        r.read_exact(key, off, b)
                    }
                }
            };
            match res {
                Ok(x) => Ok(x),
                Err(e) => match e {},
            }
        }
        LOp::Alloc => {
            let res = match path {
                Path::Direct => <MemoryStorage as StorageRead<T>>::read_alloc(st, key),
                Path::Ref => {
                    let r: &MemoryStorage = st;
                    <&MemoryStorage as StorageRead<T>>::read_alloc(&r, key)
                }
                Path::RefMut => {
                    let r: &mut MemoryStorage = st;
                    <&mut MemoryStorage as StorageRead<T>>::read_alloc(&r, key)
                }
                Path::SRef => <MemoryStorage as StorageAsRef>::storage_as_ref::<T>(st).read_alloc(key),
            };
            match res {
                Ok(x) => Err(LibObs::Alloc(x)),
                Err(e) => match e {},
            }
        }
        LOp::Size => {
            let res = match path {
                // StorageRef has no size_of_value; it is probed through the direct impl
                Path::Direct | Path::SRef => <MemoryStorage as StorageSize<T>>::size_of_value(st, key),
                Path::Ref => {
                    let r: &MemoryStorage = st;
                    <&MemoryStorage as StorageSize<T>>::size_of_value(&r, key)
                }
                Path::RefMut => {
                    let r: &mut MemoryStorage = st;
                    <&mut MemoryStorage as StorageSize<T>>::size_of_value(&r, key)
                }
            };
            match res {
                Ok(x) => Err(LibObs::Size(x)),
                Err(e) => match e {},
            }
        }
    });
    match r {
        Err(m) => LibObs::HostPanic(m),
        Ok(Ok(res)) => LibObs::Read(res, buf),
        Ok(Err(o)) => o,
    }
}

fn lib_call(st: &mut MemoryStorage, table: Table, path: Path, lop: LOp, class: Option<usize>, off: usize, n: usize) -> LibObs {
    match table {
        Table::Code => call_t::<ContractsRawCode>(st, path, lop, &code_key(class), off, n),
        Table::State => call_t::<ContractsState>(st, path, lop, &state_key(class), off, n),
        Table::Blob => call_t::<BlobData>(st, path, lop, &blob_key(class), off, n),
    }
}

/// The reference. Ok(outcome label, nontrivial?) or Err(relation class, failure class, detail).
fn lib_oracle(lop: LOp, present: bool, v: &[u8], off: usize, n: usize, obs: &LibObs) -> Result<(&'static str, bool), (String, String, String)> {
    let l = v.len();
    let rel: String = if !present {
        "missing-key".into()
    } else {
        match lop {
            LOp::Exact => {
                if off.checked_add(n).map(|e| e <= l).unwrap_or(false) {
                    "fits".into()
                } else {
                    "past-end".into()
                }
            }
            LOp::Zerofill => {
                if off < l {
                    "offset<len".into()
                } else if off == l {
                    "offset==len".into()
                } else {
                    "offset>len".into()
                }
            }
            _ => "present".into(),
        }
    };
    let fail = |f: &str, d: String| Err((rel.clone(), f.to_string(), d));
    if let LibObs::HostPanic(m) = obs {
        return fail("host-panic", m.clone())
    }
    match lop {
        LOp::Alloc => {
            let LibObs::Alloc(a) = obs else { unreachable!() };
            match (present, a) {
                (true, Some(x)) if x == v => Ok(("read_alloc:Some(value)", true)),
                (false, None) => Ok(("read_alloc:None", false)),
                _ => fail("wrong-result", format!("read_alloc returned {a:?}")),
            }
        }
        LOp::Size => {
            let LibObs::Size(s) = obs else { unreachable!() };
            match (present, s) {
                (true, Some(x)) if *x == l => Ok(("size_of_value:Some(len)", true)),
                (false, None) => Ok(("size_of_value:None", false)),
                _ => fail("wrong-result", format!("size_of_value returned {s:?}")),
            }
        }
        LOp::Exact | LOp::Zerofill => {
            let LibObs::Read(res, buf) = obs else { unreachable!() };
            if !present {
                return match res {
                    Err(StorageReadError::KeyNotFound) => Ok(("missing:KeyNotFound", false)),
                    other => fail("wrong-result", format!("expected Err(KeyNotFound), got {other:?}")),
                }
            }
            if lop == LOp::Exact {
                if rel == "fits" {
                    match res {
                        Ok(t) if *t != l => fail("wrong-total-len", format!("returned Ok({t}), value has {l} bytes")),
                        Ok(_) if buf[..] != v[off..off + n] => fail("wrong-bytes", format!("buf={} expected={}", hex::encode(buf), hex::encode(&v[off..off + n]))),
                        Ok(_) => Ok(("read_exact:Ok", true)),
                        Err(e) => fail("rejected", format!("expected Ok({l}), got Err({e:?})")),
                    }
                } else {
                    match res {
                        Err(StorageReadError::OutOfBounds) => Ok(("read_exact:OutOfBounds", false)),
                        Ok(t) => fail("accepted", format!("expected Err(OutOfBounds), got Ok({t}) buf={}", hex::encode(buf))),
                        Err(e) => fail("wrong-error", format!("expected Err(OutOfBounds), got Err({e:?})")),
                    }
                }
            } else {
                let mut exp = vec![0u8; n];
                if off <= l {
                    let k = (l - off).min(n);
                    exp[..k].copy_from_slice(&v[off..off + k]);
                }
                if off <= l {
                    match res {
                        Ok(t) if *t != l => fail("wrong-total-len", format!("returned Ok({t}), value has {l} bytes")),
                        Ok(_) if *buf != exp => fail("wrong-bytes", format!("buf={} expected={}", hex::encode(buf), hex::encode(&exp))),
                        Ok(_) => Ok((if off == l { "read_zerofill:Ok(offset==len)" } else { "read_zerofill:Ok" }, true)),
                        Err(e) => fail("rejected", format!("expected Ok({l}), got Err({e:?})")),
                    }
                } else {
                    match res {
                        Err(StorageReadError::OutOfBounds) => Ok(("read_zerofill:OutOfBounds", false)),
                        // don't-care: the statement only says failure happens *only* here
                        Ok(t) if *t == l && *buf == exp => Ok(("read_zerofill:Ok(offset>len,zeros)", false)),
                        Ok(t) => fail("wrong-bytes", format!("offset beyond value: Ok({t}) buf={}", hex::encode(buf))),
                        Err(e) => fail("wrong-error", format!("expected Err(OutOfBounds), got Err({e:?})")),
                    }
                }
            }
        }
    }
}

/// One library case = (table, op, present, L, offset, n) through all four paths.
#[allow(clippy::too_many_arguments)]
fn check_lib(st: &mut MemoryStorage, lens: &[usize], table: Table, lop: LOp, present: bool, class: usize, off: usize, n: usize, acc: &mut Acc) {
    let l = lens[class];
    let v = value(l, table.salt());
    let key_class = if present { Some(class) } else { None };
    let case = json!({"part": "lib", "lens": lens, "table": table.name(), "op": lop.name(), "present": present, "len": l, "offset": off, "buflen": n});
    let mut direct_ok = true;
    let mut direct_obs = None;
    for path in PATHS {
        if path == Path::SRef && lop == LOp::Size {
            continue
        }
        let obs = lib_call(st, table, path, lop, key_class, off, n);
        acc.evals += 1;
        let verdict = lib_oracle(lop, present, &v, off, n, &obs);
        match &verdict {
            Ok((label, nontrivial)) => {
                acc.outcome(&format!("lib:{label}"));
                if *nontrivial {
                    acc.fps.insert(hash64(&(1u8, table, path, lop, l, off, n)));
                }
                let want = (table == Table::Blob && path == Path::RefMut && lop == LOp::Zerofill && present && l == 8 && off == 8 && n == 3)
                    || (table == Table::Code && path == Path::Direct && lop == LOp::Exact && present && l == 33 && off == 1 && n == 32)
                    || (table == Table::State && path == Path::Ref && lop == LOp::Zerofill && present && l == 8 && off == 5 && n == 6);
                if want {
                    let mut c = case.clone();
                    c.as_object_mut().unwrap().remove("lens");
                    c["path"] = json!(path.name());
                    c["observed"] = json!(format!("{obs:?}"));
                    acc.samples.push(c);
                }
            }
            Err((rel, failure, detail)) => {
                acc.outcome("lib:VIOLATION");
                if path == Path::Direct {
                    direct_ok = false;
                    acc.viol(
                        format!("C36:lib:{}:{}:{rel}:{failure}", table.name(), lop.name()),
                        format!("{} {}(offset={off}, buf.len()={n}) on a {} value of {l} bytes: {detail}", table.name(), lop.name(), if present { "stored" } else { "missing" }),
                        case.clone(),
                    );
                } else if direct_ok {
                    // the table impl is fine, the forwarding path is not
                    acc.viol(
                        // a forwarding impl is one line: one key per (path, method)
                        format!("C36:fwd:{}:{}", path.name(), lop.name()),
                        format!("{} through `{}` ({}, offset={off}, buf.len()={n}, value {l} bytes, {}; {rel}, {failure}): {detail}", lop.name(), path.name(), table.name(), if present { "stored" } else { "missing" }),
                        case.clone(),
                    );
                } else if Some(&obs) != direct_obs.as_ref() {
                    acc.viol(
                        format!("C36:fwd:{}:{}", path.name(), lop.name()),
                        format!("{} through `{}` ({}, offset={off}, buf.len()={n}, value {l} bytes): {obs:?} but direct call gave {direct_obs:?}", lop.name(), path.name(), table.name()),
                        case.clone(),
                    );
                }
            }
        }
        if path == Path::Direct {
            direct_obs = Some(obs);
        }
    }
}

fn lib_group(st: &mut MemoryStorage, lens: &[usize], table: Table, present: bool, class: usize, acc: &mut Acc) {
    let l = lens[class];
    check_lib(st, lens, table, LOp::Size, present, class, 0, 0, acc);
    check_lib(st, lens, table, LOp::Alloc, present, class, 0, 0, acc);
    for lop in [LOp::Exact, LOp::Zerofill] {
        for off in 0..=l + 2 {
            for n in 0..=l + 2 {
                check_lib(st, lens, table, lop, present, class, off, n, acc);
            }
        }
    }
}

// ---------------------------------------------------------------------------------
// instruction level

#[derive(Clone, Copy, PartialEq, Eq, Debug, Hash)]
enum VOp {
    LdcContract,
    LdcBlob,
    LdcMem,
    Ccp,
    Bldd,
    Csiz,
    Bsiz,
}
const COPY_OPS: [VOp; 4] = [VOp::Ccp, VOp::Bldd, VOp::LdcContract, VOp::LdcBlob];
const ALL_VOPS: [VOp; 7] = [VOp::Ccp, VOp::Bldd, VOp::LdcContract, VOp::LdcBlob, VOp::LdcMem, VOp::Csiz, VOp::Bsiz];

impl VOp {
    fn name(self) -> &'static str {
        match self {
            VOp::LdcContract => "LDC(contract)",
            VOp::LdcBlob => "LDC(blob)",
            VOp::LdcMem => "LDC(memory)",
            VOp::Ccp => "CCP",
            VOp::Bldd => "BLDD",
            VOp::Csiz => "CSIZ",
            VOp::Bsiz => "BSIZ",
        }
    }

    fn from_name(s: &str) -> VOp {
        ALL_VOPS.into_iter().find(|o| o.name() == s).expect("vm op name")
    }

    fn is_ldc(self) -> bool {
        matches!(self, VOp::LdcContract | VOp::LdcBlob | VOp::LdcMem)
    }

    fn is_blob(self) -> bool {
        matches!(self, VOp::LdcBlob | VOp::Bldd | VOp::Bsiz)
    }
}

struct Fx {
    lens: Vec<usize>,
    base: Vm,
    pre_stack: Vec<u8>,
    pre_heap: Vec<u8>,
    cid_ptr: Vec<u64>, // last = absent contract (listed in inputs)
    bid_ptr: Vec<u64>, // last = absent blob
    mem_src: u64,
    mem_len: usize,
    dst: u64,
}

fn must(s: Step, what: &str) {
    if s != Step::Proceed {
        panic!("fixture: {what} gave {s:?}");
    }
}

fn build_fx(lens: &[usize]) -> Fx {
    let params = vmkit::consensus();
    let storage = build_storage(lens);
    let n = lens.len();
    let mem_len = lens.iter().copied().max().unwrap_or(0);
    let mut data: Vec<u8> = vec![];
    for i in 0..=n {
        data.extend_from_slice(code_key(if i < n { Some(i) } else { None }).as_ref());
    }
    for i in 0..=n {
        data.extend_from_slice(blob_key(if i < n { Some(i) } else { None }).as_ref());
    }
    let mem_off = data.len();
    data.extend(value(mem_len + 8, 77));
    let script: Vec<u8> = [op::ret(RegId::ONE)].into_iter().collect();
    let ready = vmkit::ready_script(script, data, GAS, &params, |b| {
        for i in 0..=n {
            let id = code_key(if i < n { Some(i) } else { None });
            b.add_input(Input::contract(
                UtxoId::new(Bytes32::from([i as u8 + 1; 32]), 0),
                Bytes32::zeroed(),
                Bytes32::zeroed(),
                TxPointer::default(),
                id,
            ));
            b.add_output(Output::contract((i + 1) as u16, Bytes32::zeroed(), Bytes32::zeroed()));
        }
    });
    let mut vm = vmkit::vm_over(ready, storage, &params);
    must(vmkit::inject(&mut vm, op::gtf_args(0x10, RegId::ZERO, GTFArgs::ScriptData)), "gtf");
    let sd = vm.registers()[0x10];
    // stale bytes above $sp: allocate, dirty, free (genuine instructions)
    must(vmkit::inject(&mut vm, op::cfei(STALE)), "cfei");
    let ssp = vmkit::reg(&vm, RegId::SSP);
    vm.memory_mut().write_noownerchecks(ssp, STALE as u64).expect("stack fill").fill(FILL);
    must(vmkit::inject(&mut vm, op::cfsi(STALE)), "cfsi");
    // heap destination block
    must(vmkit::inject(&mut vm, op::movi(0x15, HEAP)), "movi");
    must(vmkit::inject(&mut vm, op::aloc(0x15)), "aloc");
    let hp = vmkit::reg(&vm, RegId::HP);
    vm.memory_mut().write_noownerchecks(hp, HEAP as u64).expect("heap fill").fill(FILL);
    assert_eq!(vmkit::reg(&vm, RegId::SP), vmkit::reg(&vm, RegId::SSP), "fixture: $sp == $ssp");
    assert_eq!(vmkit::reg(&vm, RegId::SP), ssp);
    assert_eq!(hp as usize + HEAP as usize, MEM_SIZE);
    let pre_stack = vm.memory().stack_raw().to_vec();
    let heap_raw = vm.memory().heap_raw();
    let pre_heap = heap_raw[heap_raw.len() - HEAP as usize..].to_vec();
    assert!(pre_stack.len() >= ssp as usize + STALE as usize);
    Fx {
        lens: lens.to_vec(),
        cid_ptr: (0..=n as u64).map(|i| sd + 32 * i).collect(),
        bid_ptr: (0..=n as u64).map(|i| sd + 32 * (n as u64 + 1) + 32 * i).collect(),
        mem_src: sd + mem_off as u64,
        mem_len,
        dst: hp + DST_OFF,
        pre_stack,
        pre_heap,
        base: vm,
    }
}

#[derive(Clone, Debug)]
struct VmCase {
    op: VOp,
    /// length class; None = absent object (not meaningful for LDC(memory))
    obj: Option<usize>,
    off: u64,
    len: u64,
    stack_used: bool,
}

enum Exp {
    /// write = (address, bytes incl. padding, unpadded length)
    Proceed {
        write: Option<(u64, Vec<u8>, usize)>,
        sp_inc: u64,
        result: Option<u64>,
        /// a panic that is also acceptable (don't-care case)
        alt: Vec<PanicReason>,
    },
    Panic(Vec<PanicReason>),
}

fn pad8(x: u64) -> u64 {
    x.div_ceil(8) * 8
}

fn case_json(fx: &Fx, c: &VmCase) -> Value {
    json!({"part": "vm", "lens": fx.lens, "op": c.op.name(), "object_len": c.obj.map(|i| fx.lens[i]), "offset": c.off, "length": c.len, "stack_used": c.stack_used})
}

fn check_vm(fx: &Fx, c: &VmCase, acc: &mut Acc) {
    use PanicReason::*;
    let n = fx.lens.len();
    let idx = c.obj.unwrap_or(n);
    let mut vm = fx.base.clone();
    if c.stack_used {
        must(vmkit::inject(&mut vm, op::cfei(8)), "cfei 8");
    }
    let id_ptr = if c.op.is_blob() { fx.bid_ptr[idx] } else { fx.cid_ptr[idx] };
    let a = if c.op == VOp::LdcMem { fx.mem_src } else { id_ptr };
    vmkit::set_reg(&mut vm, 0x10, a);
    vmkit::set_reg(&mut vm, 0x11, c.off);
    vmkit::set_reg(&mut vm, 0x12, c.len);
    vmkit::set_reg(&mut vm, 0x13, fx.dst);
    vmkit::set_reg(&mut vm, 0x14, 0xDEAD_BEEF);
    let ins: Instruction = match c.op {
        VOp::LdcContract => op::ldc(0x10, 0x11, 0x12, 0),
        VOp::LdcBlob => op::ldc(0x10, 0x11, 0x12, 1),
        VOp::LdcMem => op::ldc(0x10, 0x11, 0x12, 2),
        VOp::Ccp => op::ccp(0x13, 0x10, 0x11, 0x12),
        VOp::Bldd => op::bldd(0x13, 0x10, 0x11, 0x12),
        VOp::Csiz => op::csiz(0x14, 0x10),
        VOp::Bsiz => op::bsiz(0x14, 0x10),
    };
    let pre = vmkit::regs(&vm);
    let pre_stack: Vec<u8> = if c.stack_used { vm.memory().stack_raw().to_vec() } else { fx.pre_stack.clone() };
    let ssp = pre[RegId::SSP.to_u8() as usize];

    // ---- reference
    let huge_len = c.len >= (1 << 32);
    let huge_off = c.off >= (1 << 32);
    let not_found = if c.op.is_blob() { BlobNotFound } else { ContractNotFound };
    let val: Option<Vec<u8>> = c.obj.map(|i| value(fx.lens[i], if c.op.is_blob() { Table::Blob.salt() } else { Table::Code.salt() }));
    let l = val.as_ref().map(|v| v.len() as u64);
    let rel: &str = if c.stack_used {
        "stack-in-use"
    } else if matches!(c.op, VOp::Csiz | VOp::Bsiz) {
        if c.obj.is_some() { "present" } else { "missing" }
    } else if c.op != VOp::LdcMem && c.obj.is_none() {
        "missing"
    } else if huge_len {
        "huge-length"
    } else if huge_off {
        "huge-offset"
    } else {
        let l = if c.op == VOp::LdcMem { fx.mem_len as u64 } else { l.unwrap() };
        if c.off > l {
            "offset>len"
        } else if c.off == l {
            "offset==len"
        } else if c.off + c.len <= l {
            "within"
        } else {
            "crosses-end"
        }
    };
    let huge_set: Vec<PanicReason> = match c.op {
        VOp::Ccp | VOp::Bldd => vec![MemoryOverflow, MemoryOwnership, OutOfGas],
        VOp::LdcContract => vec![MemoryOverflow, ContractMaxSize, MemoryGrowthOverlap, OutOfGas],
        _ => vec![MemoryOverflow, MemoryGrowthOverlap, OutOfGas],
    };
    let exp: Exp = if c.stack_used {
        Exp::Panic(vec![ExpectedUnallocatedStack])
    } else {
        match c.op {
            VOp::Csiz | VOp::Bsiz => match l {
                Some(l) => Exp::Proceed { write: None, sp_inc: 0, result: Some(l), alt: vec![] },
                None => Exp::Panic(vec![not_found]),
            },
            VOp::LdcMem => {
                if huge_len {
                    Exp::Panic(huge_set)
                } else if c.len == 0 {
                    // zero-length copy: nothing to read; an out-of-range source may or may not be rejected
                    Exp::Proceed { write: None, sp_inc: 0, result: None, alt: if huge_off { vec![MemoryOverflow] } else { vec![] } }
                } else if huge_off {
                    Exp::Panic(vec![MemoryOverflow])
                } else {
                    let s = (fx.mem_src + c.off) as usize;
                    let mut bytes = pre_stack[s..s + c.len as usize].to_vec();
                    bytes.resize(pad8(c.len) as usize, 0);
                    Exp::Proceed { write: Some((ssp, bytes, c.len as usize)), sp_inc: pad8(c.len), result: None, alt: vec![] }
                }
            }
            _ => match &val {
                None => {
                    let mut set = vec![not_found];
                    if huge_len {
                        set.extend(huge_set);
                    }
                    Exp::Panic(set)
                }
                Some(_) if huge_len => Exp::Panic(huge_set),
                Some(v) => {
                    let mut bytes: Vec<u8> = (0..c.len)
                        .map(|i| match c.off.checked_add(i) {
                            Some(p) if p < v.len() as u64 => v[p as usize],
                            _ => 0,
                        })
                        .collect();
                    if c.op.is_ldc() {
                        bytes.resize(pad8(c.len) as usize, 0);
                        Exp::Proceed { write: Some((ssp, bytes, c.len as usize)), sp_inc: pad8(c.len), result: None, alt: vec![] }
                    } else {
                        Exp::Proceed { write: Some((fx.dst, bytes, c.len as usize)), sp_inc: 0, result: None, alt: vec![] }
                    }
                }
            },
        }
    };

    // ---- run
    let step = vmkit::inject(&mut vm, ins);
    acc.evals += 1;
    let opn = c.op.name();
    let mut fails: Vec<(&str, String)> = vec![];
    if let Step::HostPanic(m) = &step {
        fails.push(("host-panic", m.clone()));
    } else {
        match &exp {
            Exp::Panic(set) => match &step {
                Step::Panic(r) if set.contains(r) => {}
                other => fails.push(("outcome", format!("expected panic {set:?}, observed {other:?}"))),
            },
            Exp::Proceed { write, sp_inc, result, alt } => match &step {
                Step::Panic(r) if alt.contains(r) => {}
                Step::Proceed => {
                    let post = vmkit::regs(&vm);
                    // registers
                    let mut want = pre;
                    want[RegId::PC.to_u8() as usize] += 4;
                    want[RegId::SP.to_u8() as usize] += sp_inc;
                    want[RegId::SSP.to_u8() as usize] += sp_inc;
                    if let Some(r) = result {
                        want[0x14] = *r;
                    }
                    for i in 0..vmkit::REGS {
                        if i == RegId::CGAS.to_u8() as usize || i == RegId::GGAS.to_u8() as usize {
                            continue
                        }
                        if post[i] != want[i] {
                            fails.push(("registers", format!("register {i:#x}: expected {}, observed {} (before: {})", want[i], post[i], pre[i])));
                            break
                        }
                    }
                    // memory
                    let mut exp_stack = pre_stack.clone();
                    let mut exp_heap = fx.pre_heap.clone();
                    let heap_base = (MEM_SIZE - exp_heap.len()) as u64;
                    let mut dst_range = (0u64, 0u64, 0u64);
                    if let Some((addr, bytes, unpadded)) = write {
                        dst_range = (*addr, addr + *unpadded as u64, addr + bytes.len() as u64);
                        if *addr >= heap_base {
                            let s = (*addr - heap_base) as usize;
                            exp_heap[s..s + bytes.len()].copy_from_slice(bytes);
                        } else {
                            let s = *addr as usize;
                            if exp_stack.len() < s + bytes.len() {
                                exp_stack.resize(s + bytes.len(), 0);
                            }
                            exp_stack[s..s + bytes.len()].copy_from_slice(bytes);
                        }
                    }
                    let post_stack = vm.memory().stack_raw();
                    let hr = vm.memory().heap_raw();
                    let post_heap = &hr[hr.len().saturating_sub(exp_heap.len())..];
                    let mut diffs: Vec<u64> = vec![];
                    if post_stack.len() != exp_stack.len() {
                        fails.push(("other-memory", format!("stack extent: expected {} bytes, observed {}", exp_stack.len(), post_stack.len())));
                    } else {
                        diffs.extend((0..exp_stack.len()).filter(|i| exp_stack[*i] != post_stack[*i]).map(|i| i as u64));
                    }
                    if post_heap.len() != exp_heap.len() {
                        fails.push(("other-memory", format!("heap extent: expected {} bytes, observed {}", exp_heap.len(), post_heap.len())));
                    } else {
                        diffs.extend((0..exp_heap.len()).filter(|i| exp_heap[*i] != post_heap[*i]).map(|i| heap_base + i as u64));
                    }
                    let show = |what: &str, lo: u64, hi: u64| -> String {
                        let (e, o): (Vec<u8>, Vec<u8>) = if lo >= heap_base {
                            let (a, b) = ((lo - heap_base) as usize, (hi - heap_base) as usize);
                            (exp_heap[a..b].to_vec(), post_heap[a..b].to_vec())
                        } else {
                            (exp_stack[lo as usize..hi as usize].to_vec(), post_stack[lo as usize..hi as usize].to_vec())
                        };
                        format!("{what} [{lo}..{hi}): expected {}, observed {}", hex::encode(e), hex::encode(o))
                    };
                    let (d0, d1, d2) = dst_range;
                    if diffs.iter().any(|a| *a >= d0 && *a < d1) {
                        fails.push(("dst-bytes", show("destination", d0, d1)));
                    }
                    if diffs.iter().any(|a| *a >= d1 && *a < d2) {
                        // narrow class: the padding holds exactly the source bytes that follow the requested range
                        let follow: Vec<u8> = (c.len..pad8(c.len))
                            .map(|i| {
                                let p = c.off.saturating_add(i);
                                match (&val, c.op) {
                                    (_, VOp::LdcMem) => pre_stack.get((fx.mem_src.saturating_add(p)) as usize).copied().unwrap_or(0),
                                    (Some(v), _) => v.get(p as usize).copied().unwrap_or(0),
                                    _ => 0,
                                }
                            })
                            .collect();
                        let observed: &[u8] = if d1 >= heap_base { &[] } else { &post_stack[d1 as usize..d2 as usize] };
                        let aspect = if observed == &follow[..] { "padding-continues-source" } else { "padding-bytes" };
                        fails.push((aspect, show("word padding after the copied bytes", d1, d2)));
                    }
                    if let Some(a) = diffs.iter().find(|a| !(**a >= d0 && **a < d2)) {
                        fails.push(("other-memory", format!("byte at address {a} outside the destination [{d0}..{d2}) changed")));
                    }
                }
                other => fails.push(("outcome", format!("expected success, observed {other:?}"))),
            },
        }
    }

    let label = match &step {
        Step::Proceed => format!("vm:{opn}:proceed:{rel}"),
        s => format!("vm:{opn}:{}", s.label()),
    };
    acc.outcome(&label);
    if fails.is_empty() {
        if step == Step::Proceed {
            acc.fps.insert(hash64(&(2u8, c.op, c.obj.map(|i| fx.lens[i]), c.off, c.len)));
        }
        let want = !c.stack_used
            && matches!(
                (c.op, c.obj.map(|i| fx.lens[i]), c.off, c.len),
                (VOp::LdcBlob, Some(33), 30, 9) | (VOp::Ccp, Some(8), 8, 10) | (VOp::Bldd, Some(1), 0, 3) | (VOp::LdcMem, _, 1, 9) | (VOp::Csiz, Some(31), _, _)
            );
        if want {
            let mut j = case_json(fx, c);
            j.as_object_mut().unwrap().remove("lens");
            j["observed"] = json!(format!("{step:?}"));
            j["sp_after"] = json!(vmkit::reg(&vm, RegId::SP));
            j["result_reg"] = json!(vm.registers()[0x14]);
            if let Exp::Proceed { write: Some((addr, bytes, _)), .. } = &exp {
                j["dst_addr"] = json!(addr);
                j["dst_bytes_checked"] = json!(hex::encode(bytes));
            }
            acc.samples.push(j);
        }
    } else {
        for (aspect, detail) in fails {
            acc.viol(
                if matches!(aspect, "registers" | "other-memory" | "host-panic") {
                    format!("C36:vm:{opn}:{aspect}")
                } else {
                    format!("C36:vm:{opn}:{rel}:{aspect}")
                },
                format!("{opn} object_len={:?} offset={} length={}: {detail}", c.obj.map(|i| fx.lens[i]), c.off, c.len),
                case_json(fx, c),
            );
        }
    }
}

fn grid(l: usize) -> Vec<u64> {
    let mut g: Vec<u64> = (0..=l as u64 + 2).collect();
    g.extend(HUGE);
    g
}

/// All cases of one (op, object) group, simplest first.
fn vm_group(fx: &Fx, op: VOp, obj: Option<usize>, acc: &mut Acc) {
    match op {
        VOp::Csiz | VOp::Bsiz => check_vm(fx, &VmCase { op, obj, off: 0, len: 0, stack_used: false }, acc),
        _ => {
            let l = match (op, obj) {
                (VOp::LdcMem, _) => fx.mem_len,
                (_, Some(i)) => fx.lens[i],
                (_, None) => 1,
            };
            let g = grid(l);
            for off in &g {
                for len in &g {
                    check_vm(fx, &VmCase { op, obj, off: *off, len: *len, stack_used: false }, acc);
                }
            }
            if op.is_ldc() && (obj.is_some() || op == VOp::LdcMem) {
                check_vm(fx, &VmCase { op, obj, off: 0, len: l as u64, stack_used: true }, acc);
            }
        }
    }
}

// ---------------------------------------------------------------------------------
// driver

fn explore(ctx: &Ctx) {
    let lens = lens_for(ctx);
    ctx.rule(
        "full product grids (see `lib` / `vm` coverage keys), every element one real call; a case is non-trivial when the \
         read returned Ok(Ok(_)) / Some(_) (library) or the instruction completed (VM); distinct = distinct \
         (table|op, path, value length, offset, length) among those",
    );
    ctx.assume("MemoryStorage writes (StorageMutate::insert) store the given bytes; cross-checked by read_alloc == value");
    ctx.assume("instruction level runs in an external (script) context only: the frame code-size update of LDC in internal contexts is not covered");
    ctx.assume("gas is not part of this property: $cgas/$ggas after the instruction are not compared");
    ctx.set(
        "dont_care",
        json!([
            "buffer contents after an Err(_) read",
            "read_zerofill with offset > len: Err(OutOfBounds), or Ok(len) with an all-zero buffer",
            "which of MemoryOverflow / MemoryOwnership / MemoryGrowthOverlap / ContractMaxSize / OutOfGas (and the not-found reason for an absent object) is raised for a length >= 2^32",
            "LDC(memory) with length 0 and a source address >= 2^32: no-op or MemoryOverflow",
            "registers and memory after a panic; $cgas/$ggas; receipts",
        ]),
    );

    // ---- part 1
    let mut groups: Vec<(Table, bool, usize)> = vec![];
    for class in 0..lens.len() {
        for present in [true, false] {
            for t in TABLES {
                groups.push((t, present, class));
            }
        }
    }
    let before = std::time::Instant::now();
    {
        let lens = &lens;
        let groups = &groups;
        space::par_chunks(
            groups.len() as u64,
            1,
            || (build_storage(lens), Acc::default()),
            |i, (st, acc)| {
                let (t, p, c) = groups[i as usize];
                lib_group(st, lens, t, p, c, acc);
            },
            |(_, acc)| acc.flush(ctx),
        );
    }
    let per_len: Vec<u64> = lens.iter().map(|l| ((l + 3) * (l + 3)) as u64).collect();
    ctx.set(
        "lib",
        json!({
            "tables": TABLES.iter().map(|t| t.name()).collect::<Vec<_>>(),
            "paths": PATHS.iter().map(|p| p.name()).collect::<Vec<_>>(),
            "ops": ["read_exact", "read_zerofill", "read_alloc", "size_of_value"],
            "value_lengths": lens,
            "offsets": "0..=len+2", "buffer_lengths": "0..=len+2", "keys": ["present", "missing"],
            "grid_points_per_length": per_len,
            "prefill": "0xAA",
            "seconds": before.elapsed().as_secs_f64(),
        }),
    );

    // ---- part 2
    let before = std::time::Instant::now();
    let fx = build_fx(&lens);
    let mut vgroups: Vec<(VOp, Option<usize>)> = vec![];
    for class in 0..lens.len() {
        for op in COPY_OPS {
            vgroups.push((op, Some(class)));
        }
        vgroups.push((VOp::Csiz, Some(class)));
        vgroups.push((VOp::Bsiz, Some(class)));
    }
    for op in COPY_OPS {
        vgroups.push((op, None));
    }
    vgroups.push((VOp::Csiz, None));
    vgroups.push((VOp::Bsiz, None));
    vgroups.push((VOp::LdcMem, None));
    {
        let fx = &fx;
        let vgroups = &vgroups;
        space::par_chunks(
            vgroups.len() as u64,
            1,
            Acc::default,
            |i, acc| {
                let (op, obj) = vgroups[i as usize];
                vm_group(fx, op, obj, acc);
            },
            |acc| acc.flush(ctx),
        );
    }
    ctx.set(
        "vm",
        json!({
            "ops": ALL_VOPS.iter().map(|o| o.name()).collect::<Vec<_>>(),
            "object_lengths": lens,
            "objects": "one contract + one blob per length, one absent contract (listed in inputs), one absent blob",
            "offset_and_length_grid": "0..=len+2 plus 2^32 and u64::MAX (both dimensions)",
            "memory_source_len": fx.mem_len,
            "context": "script, $sp == $ssp, 512 stale 0xAA bytes above $sp, 512-byte 0xAA heap block; destination = $hp+16 (CCP/BLDD) or $ssp (LDC)",
            "groups": vgroups.len(),
            "seconds": before.elapsed().as_secs_f64(),
        }),
    );
}

fn replay(case: &Value, ctx: &Ctx) {
    let lens: Vec<usize> = serde_json::from_value(case["lens"].clone()).expect("lens");
    let mut acc = Acc::default();
    match case["part"].as_str() {
        Some("lib") => {
            let table = Table::from_name(case["table"].as_str().expect("table"));
            let lop = LOp::from_name(case["op"].as_str().expect("op"));
            let present = case["present"].as_bool().expect("present");
            let len = case["len"].as_u64().expect("len") as usize;
            let class = lens.iter().position(|l| *l == len).expect("len class");
            let off = case["offset"].as_u64().expect("offset") as usize;
            let n = case["buflen"].as_u64().expect("buflen") as usize;
            let mut st = build_storage(&lens);
            check_lib(&mut st, &lens, table, lop, present, class, off, n, &mut acc);
        }
        Some("vm") => {
            let fx = build_fx(&lens);
            let op = VOp::from_name(case["op"].as_str().expect("op"));
            let obj = case["object_len"].as_u64().map(|l| lens.iter().position(|x| *x as u64 == l).expect("len class"));
            let c = VmCase {
                op,
                obj,
                off: case["offset"].as_u64().expect("offset"),
                len: case["length"].as_u64().expect("length"),
                stack_used: case["stack_used"].as_bool().unwrap_or(false),
            };
            check_vm(&fx, &c, &mut acc);
        }
        other => panic!("unknown part {other:?}"),
    }
    acc.flush(ctx);
}

fn main() {
    run_check("C36", Level::Exploration, explore, replay)
}
