//! C15 — Contract and predicate identifiers follow the specification.
//!
//! SPACE (bounded exhaustive product, enumerated completely, simplest first):
//!   codes    = lengths L × 3 content patterns (all 0x00, all 0xff, position dependent);
//!              quick  L = 0..=72 ∪ {16 KiB·m + d : m = 1..3, d = −9..=9};
//!              thorough L = 0..=264 ∪ {16 KiB·m + d : m = 1..6, d = −17..=17}
//!                           ∪ {contract_max_size − 9 ..= contract_max_size};
//!   slot sets = all subsets of a universe of 4 (quick) / 6 (thorough) storage slots whose
//!              keys are 00…00, ff…ff, a pair of keys whose SHA-256 images share their first
//!              16 bits (found by a deterministic counter search; forces a deep branch in the
//!              sparse tree), 00…01 and a byte pattern; × value patterns (distinct non-zero
//!              values, all-zero values; thorough also all-ff);
//!   salts    = 00…00, ff…ff, a byte pattern.
//!   Per code also: predicates = that code with its first word replaced by `ret 1`
//!   (lengths >= 4) × 3 predicate input kinds (coin, message-coin, message-data) ×
//!   owner ∈ {reference owner, reference owner with bit b flipped, b ∈ FLIP_BITS}.
//!
//! ORACLE (vcore::oracle only: sha2, RFC 6962 `mth`, compact sparse `smt_root`):
//!   code root  = mth(16 KiB chunks of the code, last chunk zero-padded to a multiple of 8);
//!   state root = smt_root({sha256(key) -> 32-byte value});
//!   contract id = sha256("FUEL" ‖ salt ‖ code root ‖ state root);
//!   predicate owner = sha256("FUEL" ‖ code root of the predicate).
//!   Library probes: Contract::{root_from_code, root, initial_state_root (two iteration
//!   orders), id, default_state_root, EMPTY_CONTRACT_ID}, Input::{predicate_owner,
//!   is_predicate_owner_valid}, `TransactionBuilder::create(..).add_contract_created()`
//!   (output and cached metadata), `into_checked_basic` of a hand-made Create whose
//!   ContractCreated output carries the REFERENCE id/state root (must be accepted) or one
//!   of them with a flipped bit (must be refused), `Checked::check_signatures`.
//!   VM probes: `Transactor::deploy` of the reference Create → `ContractsRawCode[ref id]`
//!   = code, `ContractsState` = exactly the slots under the reference id; `CROO` run in a
//!   script over that storage (contract in inputs) writes the reference code root;
//!   `Checked<Script>::check_predicates` accepts the reference owner and refuses every
//!   flipped owner.
//!
//! HISTORY family (one in-memory Create value, prepared -> edited -> re-prepared): all
//!   sequences of length <= 2 (quick) / 3 (thorough) over {next salt, toggle slot 0/2/3,
//!   modify slot 0/2, flip/append/drop the last code byte, precompute} × 3 preparations
//!   (builder finalize, into_checked_basic round trip, no metadata = control) × 5 codes ×
//!   3 slot sets; edits go through the public `*_mut` accessors, the reference follows
//!   them on plain values. Afterwards: the transaction still carrying the prepared
//!   value's output is refused (unless the edits cancelled out); with the output set to
//!   the reference id/state root of the EDITED value it is accepted, deployed under that
//!   id (nothing under any earlier id) and CROO gives the reference root.
//!   Keys `C15:create:edited-tx-rejected`, `C15:create:edited-tx-stale-output-accepted`,
//!   `C15:vm:deploy:stale-id`.
//!
//! KEYS: `C15:lib:<function>`, `C15:builder:contract_created`, `C15:create:<class>`,
//!   `C15:vm:deploy:<class>`, `C15:vm:croo:<class>`, `C15:vm:check_predicates:<class>`,
//!   `C15:lib:check_signatures:<class>`. A probe whose expected value is *derived* from a
//!   library primitive that already failed on the same case (e.g. the predicate owner when
//!   `root_from_code` is wrong for that code) is not reported a second time; it is counted
//!   in the outcome histogram as `downstream_of_reported_primitive`.

use std::collections::{
    BTreeMap,
    BTreeSet,
    HashSet,
};

use fuel_asm::{
    op,
    GTFArgs,
    RegId,
};
use fuel_storage::StorageInspect;
use fuel_tx::{
    field::Outputs,
    ConsensusParameters,
    Contract,
    Finalizable,
    Input,
    Output,
    policies::Policies,
    Script,
    StorageSlot,
    Transaction,
    TransactionBuilder,
    TxPointer,
    UtxoId,
    Witness,
};
use fuel_types::{
    Address,
    BlockHeight,
    Bytes32,
    ContractId,
    Nonce,
    Salt,
};
use fuel_vm::{
    checked_transaction::{
        CheckPredicateParams,
        Checked,
        CheckPredicates,
        EstimatePredicates,
        IntoChecked,
    },
    interpreter::{
        InterpreterParams,
        MemoryInstance,
        NotSupportedEcal,
    },
    storage::{
        ContractsRawCode,
        MemoryStorage,
    },
    transactor::Transactor,
};
use vcore::{
    guard,
    json,
    oracle::{
        self,
        H256,
    },
    run::hash64,
    run_check,
    space,
    vmkit::{
        self,
        Step,
    },
    Ctx,
    Level,
    Value,
};

const CHUNK: usize = 16 * 1024;
/// 0x4655454C, "FUEL" (specification: identifiers/contract-id.md, predicate-id.md).
const SEED: [u8; 4] = [0x46, 0x55, 0x45, 0x4C];
const FLIP_BITS: [usize; 8] = [0, 1, 7, 8, 127, 128, 254, 255];
const OUTPUT_FLIP_BITS: [usize; 3] = [0, 77, 255];
const PRED_KINDS: [&str; 3] = ["coin", "message_coin", "message_data"];

type Tr = Transactor<MemoryInstance, MemoryStorage, Script>;

// ------------------------------------------------------------------ the space

fn lengths(thorough: bool, contract_max: usize) -> Vec<usize> {
    let mut s = BTreeSet::new();
    let (small, ms, d) = if thorough { (264usize, 6usize, 17isize) } else { (72, 3, 9) };
    for l in 0..=small {
        s.insert(l);
    }
    for m in 1..=ms {
        for k in -d..=d {
            s.insert((CHUNK * m).checked_add_signed(k).unwrap());
        }
    }
    if thorough {
        for k in 0..=9 {
            s.insert(contract_max - k);
        }
    }
    s.into_iter().filter(|l| *l <= contract_max).collect()
}

fn code_bytes(len: usize, pat: u8) -> Vec<u8> {
    match pat {
        0 => vec![0u8; len],
        1 => vec![0xffu8; len],
        _ => (0..len)
            .map(|i| (i.wrapping_mul(131).wrapping_add((i >> 8).wrapping_mul(31)).wrapping_add(7) & 0xff) as u8)
            .collect(),
    }
}

fn pattern32(start: u8) -> H256 {
    let mut k = [0u8; 32];
    for (i, b) in k.iter_mut().enumerate() {
        *b = start.wrapping_add(i as u8);
    }
    k
}

/// First pair (in counter order) of keys `c1…c1 ‖ counter` whose SHA-256 images agree
/// on their first 16 bits.
fn colliding_pair() -> (H256, H256) {
    let mut seen: BTreeMap<[u8; 2], H256> = BTreeMap::new();
    for c in 0u64.. {
        let mut k = [0xc1u8; 32];
        k[24..].copy_from_slice(&c.to_be_bytes());
        let h = oracle::sha256(&[&k]);
        if let Some(prev) = seen.insert([h[0], h[1]], k) {
            return (prev, k)
        }
    }
    unreachable!()
}

fn slot_universe(n: usize) -> Vec<H256> {
    let (a, b) = colliding_pair();
    let mut one = [0u8; 32];
    one[31] = 1;
    let all = vec![[0u8; 32], [0xffu8; 32], a, b, one, pattern32(1)];
    all[..n].to_vec()
}

fn slot_value(i: usize, valpat: u8) -> H256 {
    match valpat {
        0 => {
            let mut v = [0xa0 + i as u8; 32];
            v[0] = 0x11 * (i as u8 + 1);
            v
        }
        1 => [0u8; 32],
        _ => [0xffu8; 32],
    }
}

fn slots_of(uni: &[H256], mask: u64, valpat: u8) -> Vec<(H256, H256)> {
    (0..uni.len())
        .filter(|i| mask >> i & 1 == 1)
        .map(|i| (uni[i], slot_value(i, valpat)))
        .collect()
}

fn salt_of(i: u8) -> H256 {
    match i {
        0 => [0u8; 32],
        1 => [0xffu8; 32],
        _ => pattern32(0x51),
    }
}

fn flip(v: &H256, bit: usize) -> H256 {
    let mut o = *v;
    o[bit / 8] ^= 0x80 >> (bit % 8);
    o
}

// ------------------------------------------------------------------ reference

fn ref_code_root(code: &[u8]) -> H256 {
    let mut leaves: Vec<Vec<u8>> = vec![];
    let mut rest = code;
    while !rest.is_empty() {
        let n = rest.len().min(CHUNK);
        let mut leaf = rest[..n].to_vec();
        rest = &rest[n..];
        if rest.is_empty() {
            while leaf.len() % 8 != 0 {
                leaf.push(0);
            }
        }
        leaves.push(leaf);
    }
    oracle::mth(&leaves)
}

fn ref_state_root(slots: &[(H256, H256)]) -> H256 {
    let map: BTreeMap<H256, Vec<u8>> = slots
        .iter()
        .map(|(k, v)| (oracle::sha256(&[k]), v.to_vec()))
        .collect();
    oracle::smt_root(&map)
}

fn ref_contract_id(salt: &H256, root: &H256, state: &H256) -> H256 {
    oracle::sha256(&[&SEED, salt, root, state])
}

fn ref_owner(root: &H256) -> H256 {
    oracle::sha256(&[&SEED, root])
}

// ------------------------------------------------------------------ accumulator

#[derive(Default)]
struct Acc {
    evals: u64,
    fps: HashSet<u64>,
    outcomes: BTreeMap<String, u64>,
    viols: BTreeMap<String, (String, Value, u64)>,
    samples: Vec<Value>,
}

impl Acc {
    fn out(&mut self, label: &str) {
        *self.outcomes.entry(label.to_string()).or_insert(0) += 1;
    }

    fn viol(&mut self, key: &str, what: String, case: &Value) {
        let e = self
            .viols
            .entry(key.to_string())
            .or_insert_with(|| (what, case.clone(), 0));
        e.2 += 1;
    }

    fn flush(self, ctx: &Ctx) {
        ctx.evals(self.evals);
        ctx.fps_merge(self.fps);
        ctx.outcomes_merge(&self.outcomes);
        for (key, (what, case, n)) in self.viols {
            for _ in 0..n {
                ctx.violation(key.clone(), what.clone(), case.clone());
            }
        }
        for s in self.samples {
            if ctx.want_sample() {
                ctx.sample(s);
            }
        }
    }
}

fn hx(v: &[u8]) -> String {
    hex::encode(v)
}

fn short<T: core::fmt::Debug>(t: &T) -> String {
    format!("{t:?}").chars().take(200).collect()
}

// ------------------------------------------------------------------ per-code probes

struct CodeInfo {
    len: usize,
    pat: u8,
    bytes: Vec<u8>,
    root: H256,
    /// the library's code-root primitive agreed with the reference on this code
    lib_ok: bool,
}

fn code_case(len: usize, pat: u8) -> Value {
    json!({"phase": "code", "len": len, "pat": pat})
}

fn probe_code(len: usize, pat: u8, params: &ConsensusParameters, with_predicates: bool, acc: &mut Acc) -> CodeInfo {
    let bytes = code_bytes(len, pat);
    let root = ref_code_root(&bytes);
    let case = code_case(len, pat);
    acc.evals += 1;

    let mut lib_ok = true;
    match guard::catch_any(|| (Contract::root_from_code(&bytes), Contract::from(bytes.clone()).root())) {
        Ok((a, b)) => {
            if *a != root || *b != root {
                lib_ok = false;
                acc.viol(
                    "C15:lib:code_root",
                    format!(
                        "code len={len} pattern={pat}: reference root {} but root_from_code={} Contract::root={}",
                        hx(&root),
                        hx(&*a),
                        hx(&*b)
                    ),
                    &case,
                );
            }
        }
        Err(m) => {
            lib_ok = false;
            acc.viol("C15:lib:code_root", format!("code len={len} pattern={pat}: root_from_code panicked: {m}"), &case);
        }
    }
    acc.out(if lib_ok { "code_root:agrees" } else { "code_root:DIFFERS" });

    // predicate owner of the raw code bytes (every length, including 0)
    probe_owner_lib(&bytes, &root, lib_ok, &case, acc);

    // VM side: the code with its first word replaced by `ret 1` is a predicate
    if with_predicates && len >= 4 {
        let mut pred = bytes.clone();
        pred[..4].copy_from_slice(&ret1());
        let proot = ref_code_root(&pred);
        let p_ok = match guard::catch_any(|| Contract::root_from_code(&pred)) {
            Ok(r) => *r == proot,
            Err(_) => false,
        };
        let own_ok = p_ok && probe_owner_lib(&pred, &proot, p_ok, &case, acc);
        for kind in 0..PRED_KINDS.len() {
            probe_predicate_vm(&pred, &proot, kind, own_ok, params, &case, acc);
        }
    }

    acc.fps.insert(hash64(&("code", root)));
    CodeInfo {
        len,
        pat,
        bytes,
        root,
        lib_ok,
    }
}

/// `Input::predicate_owner` / `is_predicate_owner_valid` against the reference.
/// Returns whether the library agreed on all of them.
fn probe_owner_lib(code: &[u8], root: &H256, root_ok: bool, case: &Value, acc: &mut Acc) -> bool {
    let exp = ref_owner(root);
    let got = guard::catch_any(|| Input::predicate_owner(code));
    let ok = matches!(&got, Ok(a) if **a == exp);
    if !ok {
        if root_ok {
            acc.viol(
                "C15:lib:predicate_owner",
                format!(
                    "predicate of {} bytes: reference owner sha256(\"FUEL\" ‖ root) = {}, Input::predicate_owner = {}",
                    code.len(),
                    hx(&exp),
                    match &got {
                        Ok(a) => hx(&**a),
                        Err(m) => format!("panic {m}"),
                    }
                ),
                case,
            );
        } else {
            acc.out("downstream_of_reported_primitive");
        }
    }
    acc.out(if ok { "predicate_owner:agrees" } else { "predicate_owner:DIFFERS" });

    let mut valid_ok = true;
    let valid = guard::catch_any(|| Input::is_predicate_owner_valid(&Address::from(exp), code));
    if valid != Ok(true) {
        valid_ok = false;
        if root_ok && ok {
            acc.viol(
                "C15:lib:is_predicate_owner_valid:reference_refused",
                format!("predicate of {} bytes: reference owner {} not accepted: {valid:?}", code.len(), hx(&exp)),
                case,
            );
        } else {
            acc.out("downstream_of_reported_primitive");
        }
    }
    for b in FLIP_BITS {
        let w = flip(&exp, b);
        let r = guard::catch_any(|| Input::is_predicate_owner_valid(&Address::from(w), code));
        if r != Ok(false) {
            valid_ok = false;
            if root_ok && ok {
                acc.viol(
                    "C15:lib:is_predicate_owner_valid:flipped_accepted",
                    format!("predicate of {} bytes: owner with bit {b} flipped gave {r:?}", code.len()),
                    case,
                );
            } else {
                acc.out("downstream_of_reported_primitive");
            }
        }
    }
    ok && valid_ok
}

fn pred_input(kind: usize, owner: H256, predicate: Vec<u8>, gas_used: u64, params: &ConsensusParameters) -> Input {
    let owner = Address::from(owner);
    match kind {
        0 => Input::coin_predicate(
            UtxoId::new(Bytes32::new([1; 32]), 0),
            owner,
            1_000,
            *params.base_asset_id(),
            TxPointer::default(),
            gas_used,
            predicate,
            vec![],
        ),
        1 => Input::message_coin_predicate(
            Address::from([2u8; 32]),
            owner,
            1_000,
            Nonce::from([3u8; 32]),
            gas_used,
            predicate,
            vec![],
        ),
        _ => Input::message_data_predicate(
            Address::from([2u8; 32]),
            owner,
            1_000,
            Nonce::from([3u8; 32]),
            gas_used,
            vec![1, 2, 3],
            predicate,
            vec![],
        ),
    }
}

fn ret1() -> Vec<u8> {
    [op::ret(RegId::ONE)].into_iter().collect()
}

/// `gas` = predicate gas of input 0 and (message-data kind only) of the helper input.
fn pred_tx(kind: usize, owner: H256, predicate: &[u8], gas: (u64, u64), params: &ConsensusParameters) -> Script {
    let mut b = TransactionBuilder::script(ret1(), vec![]);
    b.with_params(params.clone());
    b.script_gas_limit(10_000);
    b.max_fee_limit(0);
    b.add_input(pred_input(kind, owner, predicate.to_vec(), gas.0, params));
    if kind == 2 {
        // a message with data cannot pay fees: add a spendable coin guarded by the bare
        // `ret 1` predicate under ITS reference owner, so that only input 0 varies
        let helper = ret1();
        b.add_input(pred_input(0, ref_owner(&ref_code_root(&helper)), helper, gas.1, params));
    }
    b.finalize()
}

/// One predicate (input kind `kind`): reference owner must be accepted by
/// `check_signatures` and `check_predicates`, every flipped owner refused by both.
fn probe_predicate_vm(
    pred: &[u8],
    proot: &H256,
    kind: usize,
    lib_owner_ok: bool,
    params: &ConsensusParameters,
    case: &Value,
    acc: &mut Acc,
) {
    let cp = CheckPredicateParams::from(params);
    let st = MemoryStorage::default();
    let exp = ref_owner(proot);
    // the message-data kind carries a helper input (see `pred_tx`); a library that is
    // wrong about the helper is reported by `probe_helper`, not here
    let lib_owner_ok = lib_owner_ok && (kind != 2 || probe_helper(&mut Acc::default()));

    // the gas a `ret 1` predicate of this length uses (estimation ignores the owner)
    let mut est = pred_tx(kind, exp, pred, (0, 0), params);
    let r = guard::catch_any(|| est.estimate_predicates(&cp, MemoryInstance::new(), &st));
    if !matches!(r, Ok(Ok(()))) {
        panic!("harness: estimation of a `ret 1` predicate of {} bytes ({}) failed: {r:?}", pred.len(), PRED_KINDS[kind]);
    }
    let gas_used = (est.inputs_predicate_gas(0), if kind == 2 { est.inputs_predicate_gas(1) } else { 0 });

    let mut owners = vec![(None, exp)];
    owners.extend(FLIP_BITS.iter().map(|b| (Some(*b), flip(&exp, *b))));
    for (bit, owner) in owners {
        acc.evals += 1;
        let tx = pred_tx(kind, owner, pred, gas_used, params);
        let checked = match guard::catch_any(|| tx.into_checked_basic(BlockHeight::new(0), params)) {
            Ok(Ok(c)) => c,
            other => {
                // basic checks do not depend on the owner; a refusal here is a refusal
                // of the whole transaction
                let what = short(&other.map(|r| r.map(|_| ())));
                if bit.is_none() {
                    report_pred(acc, lib_owner_ok, "C15:vm:check_predicates:reference_owner_refused", kind, pred.len(), bit, &what, case);
                }
                acc.out("predicate:refused_by_basic_checks");
                continue
            }
        };
        let sig = guard::catch_any(|| checked.clone().check_signatures(&params.chain_id()).map(|_| ()));
        let vmr = guard::catch_any(|| {
            checked
                .check_predicates(&cp, MemoryInstance::new(), &st, NotSupportedEcal)
                .map(|_| ())
        });
        match bit {
            None => {
                if !matches!(sig, Ok(Ok(()))) {
                    report_pred(acc, lib_owner_ok, "C15:lib:check_signatures:reference_owner_refused", kind, pred.len(), bit, &short(&sig), case);
                }
                if !matches!(vmr, Ok(Ok(()))) {
                    report_pred(acc, lib_owner_ok, "C15:vm:check_predicates:reference_owner_refused", kind, pred.len(), bit, &short(&vmr), case);
                    acc.out("check_predicates:reference_owner:REFUSED");
                } else {
                    acc.out("check_predicates:reference_owner:accepted");
                    acc.fps.insert(hash64(&("pred", kind, exp)));
                }
            }
            Some(_) => {
                if !matches!(sig, Ok(Err(_))) {
                    report_pred(acc, lib_owner_ok, "C15:lib:check_signatures:flipped_owner_accepted", kind, pred.len(), bit, &short(&sig), case);
                }
                match &vmr {
                    Ok(Err(e)) => {
                        let label = format!("{e:?}");
                        let label = label.split(['{', '(', ' ']).filter(|s| !s.is_empty()).take(2).collect::<Vec<_>>().join(":");
                        acc.out(&format!("check_predicates:flipped_owner:refused:{label}"));
                    }
                    _ => {
                        report_pred(acc, lib_owner_ok, "C15:vm:check_predicates:flipped_owner_accepted", kind, pred.len(), bit, &short(&vmr), case);
                        acc.out("check_predicates:flipped_owner:ACCEPTED");
                    }
                }
            }
        }
    }
}

#[allow(clippy::too_many_arguments)]
fn report_pred(acc: &mut Acc, lib_owner_ok: bool, key: &str, kind: usize, len: usize, bit: Option<usize>, got: &str, case: &Value) {
    if !lib_owner_ok {
        acc.out("downstream_of_reported_primitive");
        return
    }
    let owner = match bit {
        None => "the reference owner".to_string(),
        Some(b) => format!("the reference owner with bit {b} flipped"),
    };
    acc.viol(
        key,
        format!("{} predicate input, predicate `ret 1` + {} bytes, owner = {owner}: {got}", PRED_KINDS[kind], len - 4),
        case,
    );
}

trait PredGas {
    fn inputs_predicate_gas(&self, i: usize) -> u64;
}
impl PredGas for Script {
    fn inputs_predicate_gas(&self, i: usize) -> u64 {
        use fuel_tx::field::Inputs;
        self.inputs()[i].predicate_gas_used().expect("predicate input")
    }
}

/// The bare `ret 1` predicate that guards the helper coin of the message-data kind.
fn probe_helper(acc: &mut Acc) -> bool {
    let code = ret1();
    let root = ref_code_root(&code);
    let case = json!({"phase": "helper"});
    acc.evals += 1;
    let root_ok = matches!(guard::catch_any(|| Contract::root_from_code(&code)), Ok(r) if *r == root);
    if !root_ok {
        acc.viol("C15:lib:code_root", format!("code = the single instruction `ret 1`: reference root {} differs from root_from_code", hx(&root)), &case);
    }
    root_ok && probe_owner_lib(&code, &root, root_ok, &case, acc)
}

// ------------------------------------------------------------------ per-slot-set probes

struct SlotInfo {
    mask: u64,
    valpat: u8,
    slots: Vec<(H256, H256)>,
    root: H256,
    lib_ok: bool,
}

fn to_storage_slots(slots: &[(H256, H256)]) -> Vec<StorageSlot> {
    slots
        .iter()
        .map(|(k, v)| StorageSlot::new(Bytes32::from(*k), Bytes32::from(*v)))
        .collect()
}

fn probe_slots(uni: &[H256], mask: u64, valpat: u8, acc: &mut Acc) -> SlotInfo {
    let slots = slots_of(uni, mask, valpat);
    let root = ref_state_root(&slots);
    let case = json!({"phase": "slots", "universe": uni.len(), "mask": mask, "valpat": valpat});
    acc.evals += 1;
    let mut ss = to_storage_slots(&slots);
    ss.sort();
    let fwd = guard::catch_any(|| Contract::initial_state_root(ss.iter()));
    let rev = guard::catch_any(|| Contract::initial_state_root(ss.iter().rev()));
    let lib_ok = matches!((&fwd, &rev), (Ok(a), Ok(b)) if **a == root && **b == root);
    if !lib_ok {
        acc.viol(
            "C15:lib:initial_state_root",
            format!(
                "slot set mask={mask:#b} ({} slots) value pattern {valpat}: reference root {} but initial_state_root = {} (sorted order), {} (reverse order)",
                slots.len(),
                hx(&root),
                short(&fwd.map(|r| hx(&*r))),
                short(&rev.map(|r| hx(&*r)))
            ),
            &case,
        );
    }
    if mask == 0 {
        let d = guard::catch_any(Contract::default_state_root);
        if !matches!(&d, Ok(r) if **r == root) {
            acc.viol(
                "C15:lib:default_state_root",
                format!("reference empty root {} but default_state_root = {}", hx(&root), short(&d.map(|r| hx(&*r)))),
                &case,
            );
        }
    }
    acc.out(if lib_ok { "state_root:agrees" } else { "state_root:DIFFERS" });
    if !slots.is_empty() {
        acc.fps.insert(hash64(&("state", root)));
    }
    SlotInfo {
        mask,
        valpat,
        slots,
        root,
        lib_ok,
    }
}

// ------------------------------------------------------------------ full-case probes

fn fee_input(params: &ConsensusParameters) -> Input {
    // a signed coin whose witness slot exists; signatures are not part of basic checks
    Input::coin_signed(
        UtxoId::new(Bytes32::new([9; 32]), 0),
        Address::from([0x11u8; 32]),
        1_000,
        *params.base_asset_id(),
        TxPointer::default(),
        1,
    )
}

fn hand_made_create(
    code: &CodeInfo,
    si: &SlotInfo,
    salt: &H256,
    out_id: &H256,
    out_state: &H256,
    params: &ConsensusParameters,
) -> fuel_tx::Create {
    Transaction::create(
        0,
        Policies::new().with_max_fee(0),
        Salt::from(*salt),
        to_storage_slots(&si.slots),
        vec![fee_input(params)],
        vec![Output::contract_created(ContractId::from(*out_id), Bytes32::from(*out_state))],
        vec![Witness::from(code.bytes.clone()), Witness::from(vec![])],
    )
}

fn probe_full(code: &CodeInfo, si: &SlotInfo, uni_len: usize, salt_i: u8, params: &ConsensusParameters, acc: &mut Acc) {
    let salt = salt_of(salt_i);
    let id = ref_contract_id(&salt, &code.root, &si.root);
    let case = json!({
        "phase": "full", "len": code.len, "pat": code.pat,
        "universe": uni_len, "mask": si.mask, "valpat": si.valpat, "salt": salt_i,
    });
    acc.evals += 1;
    acc.fps.insert(hash64(&("id", id)));
    let desc = format!(
        "code len={} pattern={}, slots mask={:#b} values={}, salt #{}",
        code.len, code.pat, si.mask, si.valpat, salt_i
    );

    // -- Contract::id on the reference roots
    let lib_id = guard::catch_any(|| Contract::id(&Salt::from(salt), &Bytes32::from(code.root), &Bytes32::from(si.root)));
    let id_ok = matches!(&lib_id, Ok(i) if **i == id);
    if !id_ok {
        acc.viol(
            "C15:lib:contract_id",
            format!(
                "{desc}: reference id sha256(\"FUEL\" ‖ salt ‖ root ‖ state root) = {} but Contract::id = {}",
                hx(&id),
                short(&lib_id.map(|i| hx(&*i)))
            ),
            &case,
        );
    }
    acc.out(if id_ok { "contract_id:agrees" } else { "contract_id:DIFFERS" });
    let prim_ok = code.lib_ok && si.lib_ok && id_ok;
    let report = |acc: &mut Acc, key: &str, what: String| {
        if prim_ok {
            acc.viol(key, format!("{desc}: {what}"), &case);
        } else {
            acc.out("downstream_of_reported_primitive");
        }
    };

    // -- the builder computes the ContractCreated output and the cached metadata
    let built = guard::catch_any(|| {
        let mut ss = to_storage_slots(&si.slots);
        ss.reverse(); // the builder sorts
        let mut b = TransactionBuilder::create(Witness::from(code.bytes.clone()), Salt::from(salt), ss);
        b.with_params(params.clone());
        b.add_input(fee_input(params));
        b.add_witness(Witness::from(vec![]));
        b.add_contract_created();
        b.finalize_without_signature()
    });
    match &built {
        Ok(tx) => {
            let outs: Vec<&Output> = tx.outputs().iter().filter(|o| matches!(o, Output::ContractCreated { .. })).collect();
            let out_ok = outs.len() == 1
                && matches!(outs[0], Output::ContractCreated { contract_id, state_root } if **contract_id == id && **state_root == si.root);
            let meta_ok = match tx.metadata().as_ref() {
                Some(m) => *m.body.contract_id == id && *m.body.contract_root == code.root && *m.body.state_root == si.root,
                None => false,
            };
            if !out_ok || !meta_ok {
                report(
                    acc,
                    "C15:builder:contract_created",
                    format!(
                        "builder output {:?} / metadata {:?}; reference id {} code root {} state root {}",
                        outs,
                        tx.metadata().as_ref().map(|m| &m.body),
                        hx(&id),
                        hx(&code.root),
                        hx(&si.root)
                    ),
                );
            }
            acc.out(if out_ok && meta_ok { "builder:agrees" } else { "builder:DIFFERS" });
        }
        Err(m) => report(acc, "C15:builder:contract_created", format!("builder panicked: {m}")),
    }

    // -- basic checks accept the reference output and refuse a wrong id / state root
    let reference_tx = hand_made_create(code, si, &salt, &id, &si.root, params);
    let checked = guard::catch_any(|| reference_tx.into_checked_basic(BlockHeight::new(0), params));
    let checked = match checked {
        Ok(Ok(c)) => {
            acc.out("create:reference_output:accepted");
            Some(c)
        }
        other => {
            report(
                acc,
                "C15:create:reference_output_refused",
                format!("Create carrying the reference id/state root refused by basic checks: {}", short(&other.map(|r| r.map(|_| ())))),
            );
            acc.out("create:reference_output:REFUSED");
            None
        }
    };
    for b in OUTPUT_FLIP_BITS {
        for which in ["contract_id", "state_root"] {
            let (oid, ost) = if which == "contract_id" { (flip(&id, b), si.root) } else { (id, flip(&si.root, b)) };
            let tx = hand_made_create(code, si, &salt, &oid, &ost, params);
            let r = guard::catch_any(|| tx.into_checked_basic(BlockHeight::new(0), params).map(|_| ()));
            acc.evals += 1;
            match r {
                Ok(Err(_)) => acc.out("create:wrong_output:refused"),
                other => {
                    report(
                        acc,
                        &format!("C15:create:wrong_{which}_accepted"),
                        format!("Create whose ContractCreated output has bit {b} of the {which} flipped: {}", short(&other)),
                    );
                    acc.out("create:wrong_output:ACCEPTED");
                }
            }
        }
    }

    // -- deployment stores the contract under the reference id with exactly the slots;
    //    CROO over that storage writes the reference code root
    let Some(checked) = checked else {
        acc.out("deploy:skipped(reference tx refused)");
        return
    };
    deploy_and_croo(checked, &code.bytes, &code.root, &si.slots, &id, &[], params, &report, acc);

    if (code.len == 7 || code.len == CHUNK + 1 || code.len == 2 * CHUNK - 3) && code.pat == 2 && si.valpat == 0 && si.mask == (1 << uni_len) - 1 && salt_i == 2 {
        acc.samples.push(json!({
            "case": case, "reference": {"code_root": hx(&code.root), "state_root": hx(&si.root), "contract_id": hx(&id), "predicate_owner_of_code": hx(&ref_owner(&code.root))},
            "observed": "root_from_code, initial_state_root, Contract::id, builder output+metadata, basic checks (1 accept, 6 refusals), deploy, ContractsRawCode/ContractsState, CROO all equal to the reference",
        }));
    }
}

/// Deploy `checked` into an empty storage and compare what the VM stored, and what
/// CROO then reports, with the reference values of (code, slots, id). `old_ids` must
/// hold nothing afterwards.
#[allow(clippy::too_many_arguments)]
fn deploy_and_croo(
    checked: Checked<fuel_tx::Create>,
    code: &[u8],
    code_root: &H256,
    slots: &[(H256, H256)],
    id: &H256,
    old_ids: &[H256],
    params: &ConsensusParameters,
    report: &dyn Fn(&mut Acc, &str, String),
    acc: &mut Acc,
) {
    let id = *id;
    let mut t: Tr = Transactor::new(MemoryInstance::new(), MemoryStorage::default(), InterpreterParams::new(0, params));
    let r = guard::catch_any(|| t.deploy(checked).map(|_| ()));
    if !matches!(r, Ok(Ok(()))) {
        report(acc, "C15:vm:deploy:failed", format!("Transactor::deploy of the reference Create: {}", short(&r)));
        acc.out("deploy:FAILED");
        return
    }
    acc.out("deploy:ok");
    let st: &MemoryStorage = t.as_ref();
    let cid = ContractId::from(id);
    let code_at = |i: &H256| {
        guard::catch_any(|| {
            StorageInspect::<ContractsRawCode>::get(st, &ContractId::from(*i)).map(|o| {
                o.map(|c| {
                    let c: &Contract = &c;
                    AsRef::<[u8]>::as_ref(c).to_vec()
                })
            })
        })
    };
    let stored = code_at(&id);
    if !matches!(&stored, Ok(Ok(Some(c))) if c == code) {
        report(
            acc,
            "C15:vm:deploy:code_not_under_reference_id",
            format!(
                "ContractsRawCode[{}] after deploy = {}",
                hx(&id),
                match &stored {
                    Ok(Ok(Some(c))) => format!("{} other bytes", c.len()),
                    o => short(o),
                }
            ),
        );
    }
    for old in old_ids {
        let o = code_at(old);
        if !matches!(&o, Ok(Ok(None))) {
            report(
                acc,
                "C15:vm:deploy:stale-id",
                format!(
                    "after deploying the edited transaction (reference id {}) ContractsRawCode holds {} under the id {} of an earlier value of the same transaction",
                    hx(&id),
                    match &o {
                        Ok(Ok(Some(c))) => format!("{} bytes", c.len()),
                        o => short(o),
                    },
                    hx(old)
                ),
            );
        }
    }
    let observed: BTreeSet<(H256, H256, Vec<u8>)> = st
        .all_contract_state()
        .map(|(k, v)| (**k.contract_id(), **k.state_key(), v.as_ref().to_vec()))
        .collect();
    let expected: BTreeSet<(H256, H256, Vec<u8>)> = slots.iter().map(|(k, v)| (id, *k, v.to_vec())).collect();
    if observed != expected {
        report(
            acc,
            "C15:vm:deploy:state_mismatch",
            format!(
                "ContractsState after deploy has {} entries ({} under the reference id), expected exactly the {} slots under {}",
                observed.len(),
                observed.iter().filter(|e| e.0 == id).count(),
                expected.len(),
                hx(&id)
            ),
        );
    }

    let storage = st.clone();
    let script: Vec<u8> = [
        op::movi(0x10, 32),
        op::aloc(0x10),
        op::gtf_args(0x11, RegId::ZERO, GTFArgs::ScriptData),
        op::croo(RegId::HP, 0x11),
        op::ret(RegId::ONE),
    ]
    .into_iter()
    .collect();
    let vm = guard::catch_any(|| {
        let ready = vmkit::ready_script(script, id.to_vec(), 10_000_000, params, |b| {
            b.add_input(Input::contract(
                UtxoId::new(Bytes32::new([7; 32]), 0),
                Bytes32::zeroed(),
                Bytes32::zeroed(),
                TxPointer::default(),
                cid,
            ));
            b.add_output(Output::contract(1, Bytes32::zeroed(), Bytes32::zeroed()));
        });
        vmkit::vm_over(ready, storage, params)
    });
    let mut vm = match vm {
        Ok(vm) => vm,
        Err(m) => panic!("harness: CROO script does not initialise: {m}"),
    };
    let (last, _) = vmkit::run_until_stop(&mut vm, 16);
    if last != Step::Return(1) {
        report(acc, "C15:vm:croo:failed", format!("script [movi, aloc, gtf, croo, ret] over the deployed contract ended with {last:?}"));
        acc.out("croo:FAILED");
        return
    }
    let hp = vmkit::reg(&vm, RegId::HP);
    let got: Vec<u8> = vm.memory().read(hp, 32usize).map(|s| s.to_vec()).unwrap_or_default();
    if got != code_root {
        report(acc, "C15:vm:croo:wrong_root", format!("CROO wrote {} but the reference code root is {}", hx(&got), hx(code_root)));
        acc.out("croo:DIFFERS");
    } else {
        acc.out("croo:agrees");
    }
}

// ------------------------------------------------------------------ history family
//
// One in-memory `Create` value is prepared (metadata cached by the builder's finalize,
// by a complete into_checked_basic round trip, or — control — not at all), then edited
// through the public `*_mut` accessors, optionally re-prepared (`precompute`) between
// edits, and finally checked and deployed. All action sequences of length <= k over
// `HIST_ACTIONS`, on a reduced set of base values. The reference follows the edits on
// plain values; whatever the history, the library and the VM must use the identifiers
// of the value the transaction holds NOW.

const HIST_ACTIONS: [&str; 10] = [
    "salt:=next",
    "slot0:toggle",
    "slot2:toggle",
    "slot3:toggle",
    "slot0:modify",
    "slot2:modify",
    "code:flip-last-byte",
    "code:append-byte",
    "code:drop-last-byte",
    "precompute",
];
const HIST_PREPS: [&str; 3] = ["builder(metadata cached)", "checked-round-trip(metadata cached)", "control(no metadata)"];
const HIST_CODES: [(usize, u8); 5] = [(0, 0), (8, 2), (13, 2), (CHUNK + 5, 2), (2 * CHUNK - 3, 1)];
const HIST_MASKS: [u64; 3] = [0, 0b0101, 0b1111];

#[derive(Clone)]
struct Val {
    code: Vec<u8>,
    slots: BTreeMap<H256, H256>,
    salt: u8,
}

impl Val {
    fn slots_vec(&self) -> Vec<(H256, H256)> {
        self.slots.iter().map(|(k, v)| (*k, *v)).collect()
    }

    fn ids(&self) -> (H256, H256, H256) {
        let root = ref_code_root(&self.code);
        let state = ref_state_root(&self.slots_vec());
        (ref_contract_id(&salt_of(self.salt), &root, &state), root, state)
    }
}

fn set_created_output(tx: &mut fuel_tx::Create, id: &H256, state: &H256) {
    for o in tx.outputs_mut().iter_mut() {
        if matches!(o, Output::ContractCreated { .. }) {
            *o = Output::contract_created(ContractId::from(*id), Bytes32::from(*state));
        }
    }
}

fn probe_history(base: usize, seq: &[u64], params: &ConsensusParameters, acc: &mut Acc) {
    use fuel_tx::{
        field::{
            BytecodeWitnessIndex,
            Salt as SaltField,
            StorageSlots,
            Witnesses,
        },
        Cacheable,
    };
    let uni = slot_universe(4);
    let prep = base % HIST_PREPS.len();
    let (len, pat) = HIST_CODES[(base / HIST_PREPS.len()) % HIST_CODES.len()];
    let mask = HIST_MASKS[base / HIST_PREPS.len() / HIST_CODES.len()];
    let case = json!({"phase": "history", "base": base, "actions": seq});
    let desc = format!(
        "Create prepared by {} with code len={len} pattern={pat}, slots mask={mask:#b}, salt #0, then [{}]",
        HIST_PREPS[prep],
        seq.iter().map(|a| HIST_ACTIONS[*a as usize]).collect::<Vec<_>>().join(", ")
    );
    let report = |acc: &mut Acc, key: &str, what: String| acc.viol(key, format!("{desc}: {what}"), &case);
    acc.evals += 1;

    let mut val = Val {
        code: code_bytes(len, pat),
        slots: slots_of(&uni, mask, 0).into_iter().collect(),
        salt: 0,
    };
    let (id0, _, state0) = val.ids();
    let chain_id = params.chain_id();

    // ---- the prepared transaction
    let built = guard::catch_any(|| {
        let hand = Transaction::create(
            0,
            Policies::new().with_max_fee(0),
            Salt::from(salt_of(0)),
            to_storage_slots(&val.slots_vec()),
            vec![fee_input(params)],
            vec![Output::contract_created(ContractId::from(id0), Bytes32::from(state0))],
            vec![Witness::from(val.code.clone()), Witness::from(vec![])],
        );
        match prep {
            0 => {
                let mut b = TransactionBuilder::create(Witness::from(val.code.clone()), Salt::from(salt_of(0)), to_storage_slots(&val.slots_vec()));
                b.with_params(params.clone());
                b.add_input(fee_input(params));
                b.add_witness(Witness::from(vec![]));
                b.add_contract_created();
                Ok(b.finalize_without_signature())
            }
            1 => hand.into_checked_basic(BlockHeight::new(0), params).map(|c| {
                let (tx, _): (fuel_tx::Create, _) = c.into();
                tx
            }),
            _ => Ok(hand),
        }
    });
    let mut tx = match built {
        Ok(Ok(tx)) => tx,
        other => {
            // already reported by the product family (reference output refused / builder)
            acc.out(&format!("history:base-not-prepared:{}", short(&other.map(|r| r.map(|_| ()))).chars().take(40).collect::<String>()));
            return
        }
    };
    if (prep < 2) != tx.metadata().is_some() {
        panic!("harness: preparation {} left metadata {:?}", HIST_PREPS[prep], tx.metadata().is_some());
    }

    // ---- the edits, on the transaction and on the reference value
    let mut old_ids = vec![id0];
    let mut effective = 0;
    for a in seq {
        let before = (val.code.clone(), val.slots.clone(), val.salt);
        match HIST_ACTIONS[*a as usize] {
            "salt:=next" => {
                val.salt = (val.salt + 1) % 3;
                *tx.salt_mut() = Salt::from(salt_of(val.salt));
            }
            act @ ("slot0:toggle" | "slot2:toggle" | "slot3:toggle") => {
                let i = (act.as_bytes()[4] - b'0') as usize;
                let key = uni[i];
                if val.slots.remove(&key).is_some() {
                    tx.storage_slots_mut().as_mut().retain(|s| **s.key() != key);
                } else {
                    let v = slot_value(i, 0);
                    val.slots.insert(key, v);
                    tx.storage_slots_mut().as_mut().push(StorageSlot::new(Bytes32::from(key), Bytes32::from(v)));
                }
            }
            act @ ("slot0:modify" | "slot2:modify") => {
                let i = (act.as_bytes()[4] - b'0') as usize;
                let key = uni[i];
                if let Some(v) = val.slots.get_mut(&key) {
                    *v = if *v == slot_value(i, 0) { slot_value(i, 2) } else { slot_value(i, 0) };
                    let nv = *v;
                    let mut r = tx.storage_slots_mut();
                    for s in r.as_mut().iter_mut() {
                        if **s.key() == key {
                            *s = StorageSlot::new(Bytes32::from(key), Bytes32::from(nv));
                        }
                    }
                }
            }
            act @ ("code:flip-last-byte" | "code:append-byte" | "code:drop-last-byte") => {
                match act {
                    "code:flip-last-byte" => {
                        if let Some(b) = val.code.last_mut() {
                            *b ^= 0xff;
                        }
                    }
                    "code:append-byte" => val.code.push(0x5a),
                    _ => {
                        val.code.pop();
                    }
                }
                let idx = *tx.bytecode_witness_index() as usize;
                tx.witnesses_mut()[idx] = Witness::from(val.code.clone());
            }
            _ => {
                let r = guard::catch_any(|| tx.precompute(&chain_id));
                if !matches!(r, Ok(Ok(()))) {
                    report(acc, "C15:create:precompute-failed", short(&r));
                    return
                }
            }
        }
        if before != (val.code.clone(), val.slots.clone(), val.salt) {
            effective += 1;
            old_ids.push(val.ids().0);
        }
    }
    let (id, root, state) = val.ids();
    old_ids.retain(|o| *o != id);
    old_ids.sort();
    old_ids.dedup();
    acc.out(&format!("history:effective-edits={effective}"));
    if effective > 0 {
        acc.fps.insert(hash64(&("hist", prep, id0, id, seq)));
    }

    // ---- (b) the edited transaction still carrying the output of the prepared value
    let stale_must_pass = id == id0 && state == state0;
    let r = guard::catch_any(|| tx.clone().into_checked_basic(BlockHeight::new(0), params));
    match (&r, stale_must_pass) {
        (Ok(Ok(_)), true) | (Ok(Err(_)), false) => acc.out(if stale_must_pass { "history:unchanged-value:accepted" } else { "history:stale-output:refused" }),
        (Ok(Ok(_)), false) => {
            report(
                acc,
                "C15:create:edited-tx-stale-output-accepted",
                format!(
                    "the transaction now has reference id {} / state root {} but is accepted with the ContractCreated output {} / {} of the value it was prepared with",
                    hx(&id),
                    hx(&state),
                    hx(&id0),
                    hx(&state0)
                ),
            );
            acc.out("history:stale-output:ACCEPTED");
        }
        (other, _) => {
            report(
                acc,
                "C15:create:edited-tx-rejected",
                format!("edits returned to the prepared value (output is the reference output) but basic checks gave {}", short(&other.as_ref().map(|r| r.as_ref().map(|_| ())))),
            );
        }
    }
    // a wrongly accepted transaction: where does the VM put it?
    if let (Ok(Ok(c)), false) = (r, stale_must_pass) {
        let mut t: Tr = Transactor::new(MemoryInstance::new(), MemoryStorage::default(), InterpreterParams::new(0, params));
        if matches!(guard::catch_any(|| t.deploy(c).map(|_| ())), Ok(Ok(()))) {
            let st: &MemoryStorage = t.as_ref();
            let under_ref = guard::catch_any(|| StorageInspect::<ContractsRawCode>::get(st, &ContractId::from(id)).map(|o| o.is_some()));
            if !matches!(under_ref, Ok(Ok(true))) {
                report(
                    acc,
                    "C15:vm:deploy:stale-id",
                    format!("deploy of the accepted transaction stored nothing under the reference id {} of the code/slots/salt it carries", hx(&id)),
                );
            }
        }
    }

    // ---- (a) output fixed up to the reference values of the edited value
    set_created_output(&mut tx, &id, &state);
    let checked = match guard::catch_any(|| tx.into_checked_basic(BlockHeight::new(0), params)) {
        Ok(Ok(c)) => {
            acc.out("history:fixed-up-output:accepted");
            c
        }
        other => {
            report(
                acc,
                "C15:create:edited-tx-rejected",
                format!(
                    "ContractCreated output set to the reference id {} / state root {} of the edited value, basic checks gave {}",
                    hx(&id),
                    hx(&state),
                    short(&other.map(|r| r.map(|_| ())))
                ),
            );
            acc.out("history:fixed-up-output:REFUSED");
            return
        }
    };
    deploy_and_croo(checked, &val.code, &root, &val.slots_vec(), &id, &old_ids, params, &report, acc);

    if prep == 0 && len == CHUNK + 5 && mask == 0b1111 && [&[0u64, 9][..], &[9, 6], &[2, 7]].contains(&seq) {
        acc.samples.push(json!({"case": case, "history": desc, "reference_id_prepared": hx(&id0), "reference_id_now": hx(&id),
            "observed": "stale output refused; fixed-up output accepted; deployed under the reference id of the edited value, nothing under earlier ids; CROO = reference root"}));
    }
}

fn explore_history(ctx: &Ctx, params: &ConsensusParameters) {
    let k: u32 = ctx.pick(2, 3);
    let n_bases = (HIST_PREPS.len() * HIST_CODES.len() * HIST_MASKS.len()) as u64;
    let n_seq = space::seq_count(HIST_ACTIONS.len() as u64, k);
    let total = n_seq * n_bases;
    let skipped = std::sync::atomic::AtomicU64::new(0);
    space::par_chunks(
        total,
        n_bases,
        Acc::default,
        |i, acc| {
            if ctx.out_of_time() {
                skipped.fetch_add(1, std::sync::atomic::Ordering::Relaxed);
                return
            }
            // sequences slowest (shortest first), bases fastest (simplest first)
            let seq = space::seq_at(HIST_ACTIONS.len() as u64, k, i / n_bases);
            probe_history((i % n_bases) as usize, &seq, params, acc);
        },
        |acc| acc.flush(ctx),
    );
    let skipped = skipped.into_inner();
    if skipped > 0 {
        ctx.cap(format!("time budget: {skipped} of {total} histories not run"));
    }
    ctx.set(
        "history",
        json!({
            "actions": HIST_ACTIONS, "max_sequence_length": k, "sequences": n_seq,
            "preparations": HIST_PREPS, "base_codes(len,pattern)": HIST_CODES, "base_slot_masks": HIST_MASKS,
            "histories": total, "histories_completed": total - skipped,
            "final_probes": "stale output refused (or accepted when the edits cancel out); output fixed up to the reference -> accepted; deploy under the reference id, nothing under earlier ids; CROO",
        }),
    );
}

// ------------------------------------------------------------------ driver

fn empty_contract_id(acc: &mut Acc) {
    let id = ref_contract_id(&[0u8; 32], &ref_code_root(&[]), &ref_state_root(&[]));
    acc.evals += 1;
    if *Contract::EMPTY_CONTRACT_ID != id {
        acc.viol(
            "C15:lib:EMPTY_CONTRACT_ID",
            format!("reference id of (empty code, zero salt, no slots) = {} but the constant is {}", hx(&id), hx(&*Contract::EMPTY_CONTRACT_ID)),
            &json!({"phase": "empty"}),
        );
    }
}

fn explore(ctx: &Ctx) {
    let params = vmkit::consensus();
    let contract_max = params.contract_params().contract_max_size() as usize;
    let lens = lengths(ctx.thorough(), contract_max);
    let uni = slot_universe(ctx.pick(4, 6));
    let valpats: u8 = ctx.pick(2, 3);
    let n_salts: u8 = 3;
    let pats: u8 = 3;

    ctx.rule(
        "full product codes(length × 3 content patterns) × subsets of the slot universe × value patterns × salts, \
         code slowest / salt fastest, every element run through all library and VM probes; plus per code 3 predicate \
         input kinds × (reference owner + 8 flipped owners). Non-trivial = the case was evaluated against the reference \
         (every case is); distinct = distinct reference code roots + state roots (non-empty sets) + contract ids + accepted (kind, owner) pairs",
    );
    ctx.assume("sha2 and vcore::oracle::{mth, smt_root} are correct; MemoryStorage is a faithful test backend");
    ctx.assume("ConsensusParameters::standard(); gas price 0; predicates are `ret 1` followed by the code's remaining bytes");
    ctx.set(
        "dont_care",
        json!([
            "which error refuses a flipped owner / a wrong ContractCreated output (recorded in the histogram)",
            "predicates shorter than one instruction (refused for other reasons)",
            "gas used, receipts, change outputs of the deployment",
            "duplicate or unsorted storage slots (invalid transactions)",
        ]),
    );
    ctx.set(
        "space",
        json!({
            "lengths": lens.len(), "length_min": lens.first(), "length_max": lens.last(),
            "content_patterns": ["all 0x00", "all 0xff", "position dependent"],
            "slot_universe": uni.iter().map(|k| hx(k)).collect::<Vec<_>>(),
            "slot_universe_hashed": uni.iter().map(|k| hx(&oracle::sha256(&[k]))).collect::<Vec<_>>(),
            "slot_subsets": 1u64 << uni.len(), "value_patterns": valpats, "salts": n_salts,
            "owner_flip_bits": FLIP_BITS, "output_flip_bits": OUTPUT_FLIP_BITS, "predicate_input_kinds": PRED_KINDS,
            "contract_max_size": contract_max,
        }),
    );

    let mut head = Acc::default();
    empty_contract_id(&mut head);
    probe_helper(&mut head);

    // slot sets (small): once, sequentially, simplest first
    let mut slot_infos = vec![];
    for valpat in 0..valpats {
        for mask in 0..(1u64 << uni.len()) {
            slot_infos.push(probe_slots(&uni, mask, valpat, &mut head));
        }
    }
    // order for the product: mask-major within a value pattern is already simplest first
    head.flush(ctx);

    explore_history(ctx, &params);

    let n_codes = lens.len() as u64 * pats as u64;
    let per_code = slot_infos.len() as u64 * n_salts as u64;
    let done = std::sync::atomic::AtomicU64::new(0);
    let skipped = std::sync::atomic::AtomicU64::new(0);
    space::par_chunks(
        n_codes,
        1,
        Acc::default,
        |ci, acc| {
            if ctx.out_of_time() {
                skipped.fetch_add(1, std::sync::atomic::Ordering::Relaxed);
                return
            }
            let len = lens[(ci / pats as u64) as usize];
            let pat = (ci % pats as u64) as u8;
            let code = probe_code(len, pat, &params, true, acc);
            for si in &slot_infos {
                for salt in 0..n_salts {
                    probe_full(&code, si, uni.len(), salt, &params, acc);
                }
            }
            done.fetch_add(1, std::sync::atomic::Ordering::Relaxed);
        },
        |acc| acc.flush(ctx),
    );
    let done = done.into_inner();
    let skipped = skipped.into_inner();
    if skipped > 0 {
        ctx.cap(format!("time budget: {skipped} of {n_codes} codes not run"));
    }
    ctx.set(
        "counts",
        json!({"codes": n_codes, "codes_completed": done, "slot_sets": slot_infos.len(), "full_cases_per_code": per_code, "full_cases": done * per_code}),
    );
}

fn replay(case: &Value, ctx: &Ctx) {
    let params = vmkit::consensus();
    let mut acc = Acc::default();
    match case["phase"].as_str() {
        Some("empty") => empty_contract_id(&mut acc),
        Some("history") => {
            let seq: Vec<u64> = case["actions"].as_array().unwrap().iter().map(|v| v.as_u64().unwrap()).collect();
            probe_history(case["base"].as_u64().unwrap() as usize, &seq, &params, &mut acc);
        }
        Some("helper") => {
            probe_helper(&mut acc);
        }
        Some("code") => {
            probe_code(case["len"].as_u64().unwrap() as usize, case["pat"].as_u64().unwrap() as u8, &params, true, &mut acc);
        }
        Some("slots") => {
            let uni = slot_universe(case["universe"].as_u64().unwrap() as usize);
            probe_slots(&uni, case["mask"].as_u64().unwrap(), case["valpat"].as_u64().unwrap() as u8, &mut acc);
        }
        Some("full") => {
            let uni = slot_universe(case["universe"].as_u64().unwrap() as usize);
            let code = probe_code(case["len"].as_u64().unwrap() as usize, case["pat"].as_u64().unwrap() as u8, &params, false, &mut acc);
            let si = probe_slots(&uni, case["mask"].as_u64().unwrap(), case["valpat"].as_u64().unwrap() as u8, &mut acc);
            probe_full(&code, &si, uni.len(), case["salt"].as_u64().unwrap() as u8, &params, &mut acc);
        }
        other => panic!("unknown phase {other:?}"),
    }
    acc.flush(ctx);
}

fn main() {
    run_check("C15", Level::Exploration, explore, replay)
}
