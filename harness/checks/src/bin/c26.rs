//! C26 — Gas is charged monotonically and never exceeds the limit.
//!
//! Every element of the spaces below is executed on the real interpreter
//! (`Interpreter::instruction` / `execute` / `transact` through vcore::vmkit and
//! progkit::World); the oracles are in `c26_sched.rs` (schedule re-implementation and the
//! Appendix C reference cost map) and in `c26_bc.rs` (a gas ledger: two counters and a
//! stack of amounts kept by callers).
//!
//! Schedules: default, unit (`GasCostsValuesV7::unit()`), and two FINGERPRINT schedules
//! in which every value of `GasCostsValuesV7` (every fixed field, every base and every
//! per-unit rate of every `DependentCost`) is a distinct prime; fingerprint-a makes the
//! dependent fields at even list positions Heavy and the odd ones Light, fingerprint-b
//! the other way round. The struct literal has no `..`: a new schedule field is a
//! compile error.
//!
//! (a) Schedule conformance. Space: schedules x contexts {script, inside contract A
//!     (entered by a real CALL with forwarded gas < $ggas, so $cgas != $ggas)} x the case
//!     list of `c26_a::cases` (every opcode of `fuel_asm::Opcode` with benign operands;
//!     dependent arguments swept over {0,1,7,8,9,100,1000,65536} (immediates: up to
//!     their maximum); code size of the target contract and blob sizes swept over the
//!     same set by redeploying contract B / one blob per length; storage slots
//!     {unset, 32 bytes, 100 bytes} x {cold, hot}). Per case: clone the prepared VM, set
//!     operand registers, inject ONE instruction word.
//!     Oracle: delta $ggas == reference cost and delta $cgas == the same (a return
//!     inside the call additionally credits the caller's kept gas); an OutOfGas panic
//!     with reference cost <= $cgas is a violation. Opcodes that cannot be made to
//!     succeed are listed in the evidence (expected: ECAL — no handler, no schedule
//!     entry).
//! (b) Invariants at every step of every program of length <= k (k = 3 quick, 4
//!     thorough; unit schedule: 2 / 3) over a 22-letter alphabet (see `c26_bc::alphabet`): calls into A (just
//!     returns), B/0 (uses some gas, RETD), B/2 (forwards everything to A: depth 2), B/1
//!     (burns everything with a dependent-cost loop) with requested gas in {0, 1,
//!     available-1, available, available+1, $cgas, u64::MAX, exact need, exact need-1,
//!     half}; plus noop, cfei, log, aloc, tr, ret, rvrt. Oracle per step: $cgas <= $ggas
//!     <= limit; $ggas non-increasing; charge == reference cost for every instruction the
//!     reference map covers without history; callee $cgas == min(requested, available
//!     after the call's own cost) == gas of the Call receipt; on return caller $cgas ==
//!     kept + unspent; $ggas == $cgas + sum of gas kept by callers; OutOfGas => $cgas == 0
//!     and $ggas reduced by the old $cgas, and only if reference cost > $cgas. End to end
//!     (`Interpreter::transact`): ScriptResult.gas_used == limit - final $ggas of the
//!     stepped run, result kind and receipts agree.
//! (c) Fault points: every program of (b) is re-run (stepped + transact) with every gas
//!     limit in {prefix sums of the per-instruction charges of the reference run} + {-1,
//!     0, +1}; limits inside the common prelude only for programs of length <= 1. The
//!     ledger predicts, from the reference run's per-instruction costs, the exact step
//!     of the OutOfGas panic ("exactly when cost > available $cgas"), the registers
//!     before/after every step, and the receipts prefix. For programs of length <= 1
//!     (quick) / <= 2 (thorough) EVERY limit 0..=L_big is run (validates that nothing
//!     changes between fault points, including for the `half` letter whose thresholds
//!     are not prefix sums).
//!
//! Level: fault_enumeration — > 95 % of the executed runs are gas-limit fault points.

#[path = "../progkit.rs"]
mod progkit;
#[path = "../c26_sched.rs"]
mod c26_sched;
#[path = "../c26_a.rs"]
mod c26_a;
#[path = "../c26_bc.rs"]
mod c26_bc;

use c26_a::*;
use c26_bc::*;
use c26_sched::*;
use fuel_asm::Opcode;
use progkit::*;
use std::collections::{
    BTreeMap,
    BTreeSet,
    HashSet,
};
use vcore::{
    guard,
    json,
    run::hash64,
    run_check,
    space,
    Ctx,
    Level,
    Value,
};

fn schedule(name: &str) -> Sched {
    match name {
        "default" => sched_default(),
        "unit" => sched_unit(),
        "fingerprint-a" => sched_fingerprint(false),
        "fingerprint-b" => sched_fingerprint(true),
        other => panic!("unknown schedule {other}"),
    }
}

// ================================================================== part (a)

fn variants() -> Vec<Option<usize>> {
    let mut v = vec![None];
    v.extend(SWEEP.iter().map(|n| Some(*n as usize)));
    v
}

fn variant_cases(s: &Sched, var: Option<usize>, epar_max: u64) -> (EnvA, Vec<ACase>) {
    let w = world_a(s, var);
    let env = build_env(&w);
    let cs = cases(&env, var.map(|n| n as u64).unwrap_or(4), var.is_none(), epar_max);
    (env, cs)
}

fn a_case_json(s: &Sched, var: Option<usize>, c: &ACase) -> Value {
    json!({"part": "a", "sched": s.name, "variant": var, "label": c.label})
}

#[derive(Default)]
struct AccA {
    covered: BTreeSet<String>,
    not_executed: BTreeMap<String, String>,
    per_sched: BTreeMap<String, u64>,
    labels: BTreeSet<String>,
    viols: Vec<(String, String, Value)>,
    fps: Vec<u64>,
    samples: Vec<Value>,
    ok: u64,
    evals: u64,
}

const A_SCHEDS: [&str; 4] = ["default", "unit", "fingerprint-a", "fingerprint-b"];

fn explore_a(ctx: &Ctx) {
    let epar_max = ctx.pick(100, 1000);
    let vars = variants();
    let mut tot = AccA::default();
    // one work item per (schedule, world variant); merged in index order
    space::par_chunks(
        (A_SCHEDS.len() * vars.len()) as u64,
        1,
        AccA::default,
        |idx, acc| {
            let name = A_SCHEDS[idx as usize / vars.len()];
            let var = vars[idx as usize % vars.len()];
            let s = schedule(name);
            let (env, cs) = match guard::catch_any(|| variant_cases(&s, var, epar_max)) {
                Ok(x) => x,
                Err(m) => panic!("part (a) preparation failed for {name}/{var:?}: {m}"),
            };
            for c in &cs {
                acc.evals += 1;
                match run_case(&s, &env, c) {
                    AOutcome::Ok { cost } => {
                        acc.covered.insert(c.op.clone());
                        *acc.per_sched.entry(name.to_string()).or_insert(0) += 1;
                        acc.ok += 1;
                        acc.fps.push(hash64(&(0u8, name, var, &c.label, cost)));
                        acc.labels.insert(c.label.clone());
                        if name == "fingerprint-a"
                            && ["MCP/script/1000", "SWW/contract/unset cold", "CALL/script/B[1000] no coins"]
                                .contains(&c.label.as_str())
                        {
                            acc.samples.push(json!({"part": "a", "sched": name, "case": c.label, "word": format!("{:#010x}", c.raw), "charged": cost}));
                        }
                    }
                    AOutcome::NotExecuted(why) => {
                        acc.not_executed.insert(format!("{name}:{}", c.label), why);
                    }
                    AOutcome::Violation { key, what } => {
                        acc.viols.push((key, what, a_case_json(&s, var, c)));
                    }
                }
            }
        },
        |a| {
            tot.covered.extend(a.covered);
            tot.not_executed.extend(a.not_executed);
            for (k, n) in a.per_sched {
                *tot.per_sched.entry(k).or_insert(0) += n;
            }
            tot.labels.extend(a.labels);
            tot.ok += a.ok;
            tot.evals += a.evals;
            ctx.fps_merge(a.fps);
            for s in a.samples {
                ctx.sample(s);
            }
            if !a.viols.is_empty() {
                ctx.outcome("a:VIOLATION", a.viols.len() as u64);
            }
            for (k, w, c) in a.viols {
                ctx.violation(k, w, c);
            }
        },
    );
    ctx.evals(tot.evals);
    ctx.outcome("a:charged-as-reference", tot.ok);
    if !tot.not_executed.is_empty() {
        ctx.outcome("a:not-executed", tot.not_executed.len() as u64);
    }
    let AccA { covered, not_executed, per_sched, labels, .. } = tot;
    // coverage of the opcode space
    let mut all: Vec<String> = vec![];
    let mut unknown: Vec<String> = vec![];
    for byte in 0..=255u8 {
        if let Ok(o) = Opcode::try_from(byte) {
            let n = format!("{o:?}");
            if rule(&n) == Rule::Unknown {
                unknown.push(n.clone());
            }
            all.push(n);
        }
    }
    let uncovered: Vec<String> = all.iter().filter(|n| !covered.contains(*n)).cloned().collect();
    ctx.set("a_opcodes_total", json!(all.len()));
    ctx.set("a_opcodes_covered", json!(covered.len()));
    ctx.set(
        "a_opcodes_uncovered",
        json!(uncovered.iter().map(|n| {
            let why = if n == "ECAL" {
                "no ECAL handler is installed (NotSupportedEcal panics) and GasCostsValuesV7 has no field for it".to_string()
            } else {
                "no succeeding case".to_string()
            };
            json!({"opcode": n, "why": why})
        }).collect::<Vec<_>>()),
    );
    ctx.set("a_cases_per_schedule", json!(per_sched));
    ctx.set("a_distinct_case_labels", json!(labels.len()));
    ctx.set("a_not_executed", json!(not_executed));
    ctx.set("a_dependent_sweep", json!(SWEEP));
    ctx.set(
        "a_storage_note",
        json!("storage instructions (SCWQ SRW SRWQ SWW SWWQ SCLR SRDD SRDI SWRD SWRI SUPD SUPI SPLD) and the 40-byte balance-entry surcharge of CALL/TR/MINT: the composite reference (noop + per-slot cold/hot read + write + new bytes + clear) follows the micro-operation structure of the anchored code, so this part detects CHANGES of behaviour, not an error in the intended schedule"),
    );
    if !unknown.is_empty() {
        ctx.cap(format!("opcodes unknown to the reference cost map: {unknown:?}"));
    }
    let unexpected: Vec<&String> = uncovered.iter().filter(|n| *n != "ECAL").collect();
    if !unexpected.is_empty() || !not_executed.is_empty() {
        ctx.cap(format!(
            "part (a): opcodes without a succeeding case {unexpected:?}; cases not executed: {:?}",
            not_executed.keys().take(8).collect::<Vec<_>>()
        ));
    }
}

fn replay_a(case: &Value, ctx: &Ctx) {
    let s = schedule(case["sched"].as_str().expect("sched"));
    let var = case["variant"].as_u64().map(|n| n as usize);
    let label = case["label"].as_str().expect("label");
    let (env, cs) = variant_cases(&s, var, 1000);
    let c = cs.iter().find(|c| c.label == label).expect("case label");
    if let AOutcome::Violation { key, what } = run_case(&s, &env, c) {
        ctx.violation(key, what, case.clone());
    }
}

// ================================================================== parts (b), (c)

#[derive(Default)]
struct Acc {
    viols: Vec<(String, String, Value)>,
    outcomes: BTreeMap<String, u64>,
    fps: HashSet<u64>,
    runs: u64,
    steps: u64,
    limits: u64,
    skipped: u64,
    step_capped: u64,
    samples: Vec<Value>,
}

impl Acc {
    fn out(&mut self, k: &str) {
        *self.outcomes.entry(k.to_string()).or_insert(0) += 1;
    }
}

fn bc_case(st: &Setup, k: u32, seq: &[u64], limit: u64) -> Value {
    json!({"part": "bc", "sched": st.sched.name, "k": k, "letters": seq, "names": program_names(&st.alphabet, seq), "limit": limit})
}

fn end_class(st: &Setup, t: &Trace) -> String {
    let last = t.steps.last().expect("non-empty trace");
    let place = if last.in_call { "callee" } else { "script" };
    let phase = if t.steps.len() <= st.prelude_len { "prelude" } else { "body" };
    match &last.step {
        s if is_oog(s) => format!("oog@{place}/{phase}"),
        s => format!("{}@{place}", s.label()),
    }
}

/// One (program, limit): stepped run through (b), transact cross-check, and (if a
/// reference run is given) the (c) prediction. Returns the trace.
fn one_run(st: &Setup, k: u32, seq: &[u64], script: &[u8], limit: u64, reference: Option<&Trace>, acc: &mut Acc) -> Trace {
    let t = run_trace(st, script, limit);
    acc.runs += 1;
    acc.steps += t.steps.len() as u64;
    if t.step_capped {
        acc.step_capped += 1;
        return t
    }
    let push = |x: Option<V>, acc: &mut Acc| -> bool {
        match x {
            Some(V { key, what }) => {
                let what = format!("[{}] program {:?}: {what}", st.sched.name, program_names(&st.alphabet, seq));
                acc.viols.push((key, what, bc_case(st, k, seq, limit)));
                acc.out("bc:VIOLATION");
                true
            }
            None => false,
        }
    };
    if push(check_b(&t), acc) {
        return t
    }
    if push(check_e2e(st, script, &t), acc) {
        return t
    }
    if let Some(u) = reference {
        if push(compare_c(u, &t), acc) {
            return t
        }
    }
    let cls = end_class(st, &t);
    acc.out(&format!("{}:{cls}", if reference.is_some() { "c" } else { "b" }));
    if t.steps.len() > st.prelude_len {
        acc.fps.insert(hash64(&(1u8, st.sched.name, seq, t.steps.len(), &cls)));
    }
    t
}

fn program(st: &Setup, k: u32, idx: u64) -> (Vec<u64>, Vec<u8>) {
    let (seq, ins) = program_at(&st.alphabet, k, idx);
    (seq, st.script_of(&ins))
}

fn do_program(st: &Setup, k: u32, idx: u64, full_sweep_len: usize, ctx: &Ctx, acc: &mut Acc) {
    if ctx.out_of_time() {
        acc.skipped += 1;
        return
    }
    let (seq, script) = program(st, k, idx);
    let before = acc.viols.len();
    let u = one_run(st, k, &seq, &script, st.l_big, None, acc);
    // a program whose reference run already violates (b) gets no fault points: the
    // prediction of (c) would be built on a broken run (replay does the same)
    if u.step_capped || acc.viols.len() > before || acc.viols.len() > 4 {
        return
    }
    let limits: Vec<u64> = if seq.len() <= full_sweep_len {
        (0..st.l_big).collect()
    } else {
        fault_limits(&u, st.prelude_cost.saturating_sub(1))
    };
    for l in limits {
        acc.limits += 1;
        let t = one_run(st, k, &seq, &script, l, Some(&u), acc);
        let want_second = match st.sched.name {
            "default" => 15,
            "unit" => 7,
            _ => 14,
        };
        if acc.samples.is_empty()
            && seq.len() == 2
            && seq[1] == want_second
            && t.steps.last().map(|s| s.in_call && is_oog(&s.step)).unwrap_or(false)
            && t.steps.len() > st.prelude_len + 3
        {
            let last = t.steps.last().unwrap();
            acc.samples.push(json!({
                "part": "c", "sched": st.sched.name, "program": program_names(&st.alphabet, &seq), "limit": l,
                "reference_limit": st.l_big, "steps": t.steps.len(),
                "last_step": {"op": last.opname, "cgas_before": last.c0, "ggas_before": last.g0, "reference_cost": last.refc, "outcome": "OutOfGas in callee", "cgas_after": last.c1, "ggas_after": last.g1},
                "gas_used": l - t.final_ggas(),
            }));
        }
        if acc.viols.len() > 4 {
            return
        }
    }
}

fn explore_bc(ctx: &Ctx) {
    let scheds: Vec<&str> = vec!["default", "fingerprint-a", "unit"];
    let mut info = serde_json::Map::new();
    for name in scheds {
        // the unit schedule (everything costs 1, every limit is a fault point, the
        // burner needs one step per unit of gas) is run one letter shorter
        let k = if name == "unit" { ctx.pick(2u32, 3u32) } else { ctx.pick(3u32, 4u32) };
        let t0 = ctx.elapsed();
        let s = schedule(name);
        let st = match guard::catch_any(|| Setup::new(&s, k)) {
            Ok(st) => st,
            Err(m) => panic!("setup for schedule {name} failed: {m}"),
        };
        // every limit for short programs; affordable only where L_big is small
        let full_sweep_len: usize = if st.l_big <= 20_000 { ctx.pick(1, 2) } else { ctx.pick(0, 1) };
        let n = space::seq_count(st.alphabet.len() as u64, k);
        let mut total = Acc::default();
        space::par_chunks(
            n,
            16,
            Acc::default,
            |idx, acc| do_program(&st, k, idx, full_sweep_len, ctx, acc),
            |a| {
                for (k_, w, c) in a.viols {
                    ctx.violation(k_, w, c);
                }
                ctx.outcomes_merge(&a.outcomes);
                ctx.fps_merge(a.fps);
                total.runs += a.runs;
                total.steps += a.steps;
                total.limits += a.limits;
                total.skipped += a.skipped;
                total.step_capped += a.step_capped;
                for s in a.samples {
                    if total.samples.is_empty() {
                        total.samples.push(s);
                    }
                }
            },
        );
        ctx.evals(total.runs);
        for s in total.samples {
            ctx.sample(s);
        }
        if total.skipped > 0 {
            ctx.cap(format!("schedule {name}: time budget reached, {} of {n} programs not run", total.skipped));
        }
        if total.step_capped > 0 {
            ctx.cap(format!("schedule {name}: {} runs hit the {MAX_STEPS}-step cap", total.step_capped));
        }
        info.insert(
            name.to_string(),
            json!({
                "k": k, "programs": n, "programs_not_run": total.skipped, "runs": total.runs, "fault_point_runs": total.limits,
                "steps": total.steps, "reference_limit_L_big": st.l_big, "prelude_cost": st.prelude_cost,
                "max_letter_cost": st.max_letter_cost, "burner_aloc_units": st.burn_units,
                "every_limit_for_programs_up_to_length": full_sweep_len,
                "wall_s": ctx.elapsed() - t0,
            }),
        );
        if name == "default" {
            ctx.set(
                "bc_alphabet",
                json!(st.alphabet.iter().map(|l| json!({"name": l.name, "instructions": l.ins.iter().map(|i| format!("{i:?}")).collect::<Vec<_>>()})).collect::<Vec<_>>()),
            );
        }
    }
    ctx.set("bc", Value::Object(info));
}

fn replay_bc(case: &Value, ctx: &Ctx) {
    let s = schedule(case["sched"].as_str().expect("sched"));
    let k = case["k"].as_u64().expect("k") as u32;
    let seq: Vec<u64> = serde_json::from_value(case["letters"].clone()).expect("letters");
    let limit = case["limit"].as_u64().expect("limit");
    let st = Setup::new(&s, k);
    let ins: Vec<_> = seq.iter().flat_map(|i| st.alphabet[*i as usize].ins.iter().copied()).collect();
    let script = st.script_of(&ins);
    let mut acc = Acc::default();
    let u = one_run(&st, k, &seq, &script, st.l_big, None, &mut acc);
    if limit != st.l_big && acc.viols.is_empty() {
        one_run(&st, k, &seq, &script, limit, Some(&u), &mut acc);
    }
    for (k_, w, c) in acc.viols {
        ctx.violation(k_, w, c);
    }
}

// ================================================================== driver

fn explore(ctx: &Ctx) {
    ctx.rule(
        "(a) one injected instruction per (schedule, context, case); (b) every program of length <= k over the \
         22-letter alphabet, stepped with the reference limit and run through transact; (c) the same program under \
         every fault-point gas limit. A run is non-trivial when it executed at least one instruction after the \
         common prelude; distinct = distinct (schedule, program, number of steps, outcome class) resp. \
         (schedule, variant, case, charged amount)",
    );
    ctx.assume("the schedule VALUES (public fields of GasCostsValuesV7) are inputs; only the mapping opcode -> field/argument and the arithmetic are re-implemented");
    ctx.assume("reference cost map = DESIGN.md Appendix C (forced sharing cfs->cfsi, lqw/lhw->lw, sqw/shw->sw, jal->jmp is part of the reference)");
    ctx.assume("(c): per-instruction costs of the alphabet do not depend on the gas registers, so every run under a smaller limit is a prefix of the reference run; checked (key C26:c:diverged)");
    ctx.set(
        "dont_care",
        json!([
            "amount charged by an instruction that panics for a reason other than OutOfGas (the alphabet contains none; part (a) counts such cases as not executed)",
            "which of OutOfGas and another applicable panic wins",
            "registers other than $cgas/$ggas after a panic",
            "the intended values of the storage micro-operation composite (see a_storage_note)",
            "ECAL (no schedule entry)",
        ]),
    );
    ctx.set(
        "schedules",
        json!({
            "default": "GasCostsValues::default() (V7)",
            "unit": "GasCostsValuesV7::unit()",
            "fingerprint-a": sched_fingerprint(false).describe(),
            "fingerprint-b": "same primes, Light/Heavy swapped",
        }),
    );
    explore_a(ctx);
    ctx.set("a_wall_s", json!(ctx.elapsed()));
    explore_bc(ctx);
}

fn replay(case: &Value, ctx: &Ctx) {
    match case["part"].as_str() {
        Some("a") => replay_a(case, ctx),
        Some("bc") => replay_bc(case, ctx),
        other => panic!("unknown part {other:?}"),
    }
}

fn main() {
    run_check("C26", Level::FaultEnumeration, explore, replay)
}
