use fuel_asm::{op, RegId};
use vcore::vmkit::*;
fn main() {
    vcore::guard::install_quiet_hook();
    let mut vm = vm_for_script(&[op::movi(0x10, 5), op::addi(0x11, 0x10, 7), op::ret(0x11)], vec![1,2,3], 1_000_000);
    println!("pc={} is={} ssp={} sp={} hp={} ggas={} cgas={}", reg(&vm, RegId::PC), reg(&vm, RegId::IS), reg(&vm, RegId::SSP), reg(&vm, RegId::SP), reg(&vm, RegId::HP), reg(&vm, RegId::GGAS), reg(&vm, RegId::CGAS));
    let mut v2 = vm.clone();
    println!("{:?}", inject(&mut v2, op::add(0x12, RegId::ONE, RegId::ONE)));
    println!("r12={} pc={}", v2.registers()[0x12], reg(&v2, RegId::PC));
    println!("{:?}", inject(&mut v2, op::add(RegId::ZERO, RegId::ONE, RegId::ONE)));
    println!("{:?}", run_until_stop(&mut vm, 100));
    println!("receipts={:?}", vm.receipts());
    let t = std::time::Instant::now();
    let mut n = 0u64;
    for _ in 0..1_000_000 { let mut c = v2.clone(); if inject(&mut c, op::add(0x12, RegId::ONE, RegId::ONE)) == Step::Proceed { n += 1; } }
    println!("1M clone+inject: {:?} ok={n}", t.elapsed());
}
