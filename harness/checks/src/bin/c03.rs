//! C03 — Transaction id commits to exactly the non-malleable content.
//!
//! Space (bounded exhaustive enumeration, generators in `../txcorpus.rs`):
//!  * transactions: quick = the star sub-product of TX(2) (every dimension over its full
//!    domain at two base points, all input-kind × output-kind pairs, six chargeable kinds)
//!    plus 1,296 Mint values; where `precompute` refuses a corpus value for a reason
//!    unrelated to ids (Create without bytecode witness, Upgrade whose witness does not
//!    hold consensus parameters) its minimally repaired copy is checked as well;
//!  * chain ids {0, 1, 2^32, u64::MAX};
//!  * byte sweep: EVERY single byte of each canonical encoding with bit 0 and with bit 7
//!    flipped; the mutant is decoded back; mutants that decode and whose re-encoding
//!    equals the mutated bytes are kept (same structure, one field value changed), the
//!    others (undecodable, or structure-changing: length/count words, padding, fields the
//!    decoder normalises) are skipped and counted; a flipped length/count word whose new
//!    value exceeds the whole encoding is classified as structure-changing without
//!    decoding (it cannot be satisfied by the buffer);
//!  * typed family (never goes through the decoder, so it reaches the values the wire
//!    format cannot represent — predicate variants with EMPTY predicate code, C01's known
//!    ambiguity class): predicate input X in {CoinPredicate, MessageCoinPredicate,
//!    MessageDataPredicate} x predicate length {0,1,8,9} x predicate data length {0,3} x
//!    message data length {0,5} (where applicable) with non-zero predicate_gas_used, placed
//!    before [CoinSigned, Contract] inputs and [Change, Variable, Contract, Coin] outputs in
//!    each of the six chargeable kinds (192 values): oracle items 1, 3, 4 on the value, and
//!    34 single typed field mutations (predicate_gas_used := 0, 1, MAX through
//!    `set_predicate_gas_used`; coin tx pointers; contract input utxo id / roots / tx
//!    pointer; change amount; variable to/amount/asset; contract output roots; receipts
//!    root; witness content / count — must keep the id; amount, owner/recipient, asset
//!    id/nonce, predicate, predicate data, witness index, utxo id, contract id, change
//!    to/asset, contract output input index, coin output amount, script gas limit — must
//!    change it);
//!  * thorough: the same sweep over the sub-product kind(6) × body(2) × input lists(57) ×
//!    output lists(31) × witness lists {[], [5 bytes], [3, 8 bytes]} × policy sets {none,
//!    all six small, all six max}, then the id formula and the cache checks (no sweep)
//!    over the full product, one policy set after the other, until the time budget is
//!    used up (cap reported).
//!
//! Oracle (from the statement; layout and malleability list from `../txlayout.rs`, which
//! is hand-written from the format tables and never calls `prepare_sign`):
//!  1. `id(tx, chain) == SHA-256(chain_id as 8 big-endian bytes ‖ E)` where E is the
//!     canonical encoding with every malleable field zeroed (receipts root; change output
//!     amount; variable output to/amount/asset; contract input utxo id / balance root /
//!     state root / tx pointer; contract output balance root / state root; coin input tx
//!     pointer; predicate gas used of coin and message inputs; for Mint the same fields of
//!     its embedded contract input and output) and the witnesses removed (witness bytes
//!     dropped, witnesses count zero);
//!  2. for each kept single-byte mutant: its id differs from the original's IFF the byte
//!     is outside every malleable field and outside the witnesses;
//!  3. ids under the four chain ids are pairwise different;
//!  4. after `precompute(chain)`: `cached_id() == Some(fresh id)` and `id()` returns it;
//!     a second `precompute(chain)` leaves id and metadata unchanged; `precompute` with
//!     another chain id afterwards caches that chain's fresh id.
//!
//! Keys: `C03:<field class>:<verdict>` for field-level findings (field class = variant +
//! field name, e.g. `Input::MessageCoinPredicate.predicateGasUsed`; verdict in
//! {malleable-field-affects-id, committed-field-does-not-affect-id} — the same key whether the formula (1) or the sweep (2)
//! exposes it: when the formula fails, every single field class and every pair of field
//! classes is tried with its malleability toggled to name the culprit) and
//! `C03:<tx kind>:<class>` with
//! class in {id-formula, chain-id-ignored, cached-id,
//! id-after-precompute, precompute-not-idempotent, cached-id-after-re-precompute,
//! encoding, panic}, and `C03:Chargeable:witnesses-not-removed` (formula or sweep).

#[path = "../txcorpus.rs"]
mod txcorpus;
#[path = "../txlayout.rs"]
mod txlayout;

use fuel_tx::{
    field,
    Cacheable,
    Input,
    Output,
    Transaction,
    TxPointer,
    UniqueIdentifier,
    UtxoId,
    Witness,
};
use fuel_types::{
    canonical::{
        Deserialize,
        Serialize,
    },
    ChainId,
};
use std::{
    collections::{
        BTreeMap,
        BTreeSet,
        HashSet,
    },
    sync::Mutex,
};
use txcorpus::CorpusLevel;
use txlayout::{
    tx_kind,
    Class,
    Field,
    Layout,
};
use vcore::{
    guard,
    json,
    oracle::sha256,
    run::hash64,
    run_check,
    space,
    Ctx,
    Level,
    Value,
};

const CHAINS: [u64; 4] = [0, 1, 1 << 32, u64::MAX];
const FLIPS: [u8; 2] = [0x01, 0x80];

// ------------------------------------------------------------------ accumulator

/// per field class: [kept & id unchanged, kept & id changed, skipped (undecodable or structure-changing)]
type ClassCounts = BTreeMap<String, [u64; 3]>;

#[derive(Default)]
struct Acc {
    evals: u64,
    fps: HashSet<u64>,
    outcomes: BTreeMap<String, u64>,
    viols: BTreeMap<String, (String, Value, u64)>,
    classes: ClassCounts,
}

impl Acc {
    fn outcome(&mut self, label: &str) {
        *self.outcomes.entry(label.to_string()).or_insert(0) += 1;
    }

    fn outcome_n(&mut self, label: &str, n: u64) {
        if n > 0 {
            *self.outcomes.entry(label.to_string()).or_insert(0) += n;
        }
    }

    fn viol(&mut self, key: String, what: &dyn Fn() -> String, case: &Value) {
        match self.viols.get_mut(&key) {
            Some(e) => e.2 += 1,
            None => {
                self.viols.insert(key, (what(), case.clone(), 1));
            }
        }
    }

    fn flush(self, ctx: &Ctx, classes: &Mutex<ClassCounts>) {
        ctx.evals(self.evals);
        ctx.fps_merge(self.fps);
        ctx.outcomes_merge(&self.outcomes);
        for (key, (what, case, n)) in self.viols {
            ctx.violation(key.clone(), what, case);
            for _ in 1..n {
                ctx.violation(key.clone(), "", Value::Null);
            }
        }
        let mut g = classes.lock().unwrap();
        for (k, v) in self.classes {
            let e = g.entry(k).or_insert([0; 3]);
            for i in 0..3 {
                e[i] += v[i];
            }
        }
    }
}

// ------------------------------------------------------------------ the oracle

fn want_id(chain: u64, signing: &[u8]) -> [u8; 32] {
    sha256(&[&chain.to_be_bytes(), signing])
}

fn get_id(tx: &Transaction, chain: u64) -> Result<[u8; 32], String> {
    guard::catch_any(|| *tx.id(&ChainId::new(chain)))
}

const V_MALLEABLE: &str = "malleable-field-affects-id";
const V_COMMITTED: &str = "committed-field-does-not-affect-id";

/// Which deviation from the statement's zeroing list explains a wrong id? (diagnosis only:
/// chooses the KEYS; the verdict was already reached by comparing with the formula.)
/// Tries every single field class, then every pair of field classes, with its
/// malleability toggled. Returns (key, explanation) per explaining class.
fn diagnose(layout: &Layout, chain: u64, got: &[u8; 32], kind: &str) -> Vec<(String, String)> {
    let classes: Vec<(&str, bool)> = layout
        .fields
        .iter()
        .filter(|f| !f.in_witnesses)
        .map(|f| (f.class_path.as_str(), f.malleable))
        .collect::<BTreeSet<_>>()
        .into_iter()
        .collect();
    let verdict = |cp: &str, malleable: bool| {
        if malleable {
            (
                format!("C03:{cp}:{V_MALLEABLE}"),
                format!("the id is the hash of the encoding in which the malleable field {cp} is NOT zeroed"),
            )
        } else {
            (
                format!("C03:{cp}:{V_COMMITTED}"),
                format!("the id is the hash of the encoding in which the non-malleable field {cp} is zeroed as well"),
            )
        }
    };
    for (cp, malleable) in &classes {
        let over = |f: &Field| (f.class_path == *cp).then_some(!f.malleable);
        if &want_id(chain, &layout.signing_bytes_with(&over)) == got {
            return vec![verdict(cp, *malleable)]
        }
    }
    for (a, (cpa, ma)) in classes.iter().enumerate() {
        for (cpb, mb) in classes.iter().skip(a + 1) {
            let over = |f: &Field| (f.class_path == *cpa || f.class_path == *cpb).then_some(!f.malleable);
            if &want_id(chain, &layout.signing_bytes_with(&over)) == got {
                return vec![verdict(cpa, *ma), verdict(cpb, *mb)]
            }
        }
    }
    // witnesses kept?
    let mut with_wit = Vec::new();
    for f in &layout.fields {
        if f.malleable && !f.in_witnesses {
            with_wit.resize(with_wit.len() + (f.end - f.start), 0);
        } else {
            with_wit.extend_from_slice(&layout.bytes[f.start..f.end]);
        }
    }
    if &want_id(chain, &with_wit) == got {
        return vec![(
            "C03:Chargeable:witnesses-not-removed".to_string(),
            "the id is the hash of the zeroed encoding WITH the witnesses".into(),
        )]
    }
    vec![(
        format!("C03:{kind}:id-formula"),
        "the id differs from the hash of the zeroed, witness-free encoding (no one or two field classes explain it)".into(),
    )]
}

fn metadata_eq(a: &Transaction, b: &Transaction) -> bool {
    match (a, b) {
        (Transaction::Script(x), Transaction::Script(y)) => x.metadata() == y.metadata(),
        (Transaction::Create(x), Transaction::Create(y)) => x.metadata() == y.metadata(),
        (Transaction::Upgrade(x), Transaction::Upgrade(y)) => x.metadata() == y.metadata(),
        (Transaction::Upload(x), Transaction::Upload(y)) => x.metadata() == y.metadata(),
        (Transaction::Blob(x), Transaction::Blob(y)) => x.metadata() == y.metadata(),
        (Transaction::Mint(x), Transaction::Mint(y)) => x.cached_id() == y.cached_id(),
        _ => false,
    }
}

fn h(b: &[u8]) -> String {
    hex::encode(b)
}

struct Checked {
    layout: Layout,
    ids: [[u8; 32]; 4],
    precompute_refused: bool,
    kept_same: u64,
    kept_changed: u64,
    skipped: u64,
}

/// All checks for one transaction value (without metadata). `sweep_chains`: chain ids
/// under which the byte sweep compares ids (empty = no sweep).
fn check_value(tx: &Transaction, descr: &str, case: &Value, sweep_chains: &[usize], acc: &mut Acc) -> Option<Checked> {
    let kind = tx_kind(tx);
    let layout = Layout::of_tx(tx);
    if let Err(m) = layout.self_check() {
        panic!("layout walker is inconsistent ({m}) for {descr}");
    }
    let bytes = match guard::catch_any(|| tx.to_bytes()) {
        Ok(b) => b,
        Err(m) => {
            acc.viol(format!("C03:{kind}:panic"), &|| format!("to_bytes panicked: {m} for {descr}"), case);
            return None
        }
    };
    if bytes != layout.bytes {
        acc.outcome("VIOLATION_encoding");
        acc.viol(
            format!("C03:{kind}:encoding"),
            &|| format!("the canonical encoding differs from the layout walker's encoding for {descr} (see C04 for the position)"),
            case,
        );
        return None
    }

    // 1. the formula, per chain id
    let signing = layout.signing_bytes();
    let mut ids = [[0u8; 32]; 4];
    let mut formula_ok = true;
    for (ci, chain) in CHAINS.iter().enumerate() {
        acc.evals += 1;
        let got = match get_id(tx, *chain) {
            Ok(g) => g,
            Err(m) => {
                acc.outcome("VIOLATION_panic");
                acc.viol(format!("C03:{kind}:panic"), &|| format!("id() panicked: {m} for {descr}"), case);
                return None
            }
        };
        ids[ci] = got;
        let want = want_id(*chain, &signing);
        if got == want {
            acc.outcome("id_matches_formula");
        } else {
            formula_ok = false;
            acc.outcome("VIOLATION_id_formula");
            for (key, why) in diagnose(&layout, *chain, &got, kind) {
                acc.viol(
                    key,
                    &|| format!(
                        "id(chain {chain}) = {} but SHA-256(chain ‖ zeroed encoding without witnesses) = {}: {why}; {descr}",
                        h(&got),
                        h(&want)
                    ),
                    case,
                );
            }
        }
    }
    if formula_ok {
        acc.fps.insert(hash64(&("tx", &bytes)));
    }

    // 3. the chain id is committed to
    for a in 0..4 {
        for b in a + 1..4 {
            acc.evals += 1;
            if ids[a] == ids[b] {
                acc.outcome("VIOLATION_chain_id_ignored");
                acc.viol(
                    format!("C03:{kind}:chain-id-ignored"),
                    &|| format!("chain ids {} and {} give the same id {} for {descr}", CHAINS[a], CHAINS[b], h(&ids[a])),
                    case,
                );
            }
        }
    }

    // 4. the cache
    let mut pre = tx.clone();
    let mut refused = false;
    for (ci, chain) in CHAINS.iter().enumerate() {
        acc.evals += 1;
        match guard::catch_any(|| pre.precompute(&ChainId::new(*chain))) {
            Ok(Ok(())) => {}
            Ok(Err(_)) => {
                refused = true;
                acc.outcome(&format!("precompute_refused_{kind}"));
                break
            }
            Err(m) => {
                acc.outcome("VIOLATION_panic");
                acc.viol(format!("C03:{kind}:panic"), &|| format!("precompute panicked: {m} for {descr}"), case);
                break
            }
        }
        acc.outcome("precompute_ok");
        let cached = pre.cached_id().map(|b| *b);
        if cached != Some(ids[ci]) {
            acc.outcome("VIOLATION_cached_id");
            let class = if ci == 0 { "cached-id" } else { "cached-id-after-re-precompute" };
            acc.viol(
                format!("C03:{kind}:{class}"),
                &|| format!(
                    "after precompute(chain {chain}) cached_id() = {:?}, the id computed without metadata is {}; {descr}",
                    cached.map(|c| h(&c)),
                    h(&ids[ci])
                ),
                case,
            );
        }
        // (id() on a precomputed value returns the cache by design: only compared when the cache is right)
        if cached == Some(ids[ci]) {
            match get_id(&pre, *chain) {
                Ok(g) if g == ids[ci] => {}
                other => {
                    acc.outcome("VIOLATION_id_after_precompute");
                    acc.viol(
                        format!("C03:{kind}:id-after-precompute"),
                        &|| format!(
                            "id() on the precomputed transaction gives {:?}, without metadata {}; {descr}",
                            other.as_ref().map(|g| h(g)),
                            h(&ids[ci])
                        ),
                        case,
                    );
                }
            }
        }
        // idempotence
        let mut again = pre.clone();
        let r = guard::catch_any(|| again.precompute(&ChainId::new(*chain)));
        if !matches!(r, Ok(Ok(()))) || again.cached_id() != pre.cached_id() || !metadata_eq(&again, &pre) || again != pre {
            acc.outcome("VIOLATION_precompute_not_idempotent");
            acc.viol(
                format!("C03:{kind}:precompute-not-idempotent"),
                &|| format!(
                    "a second precompute(chain {chain}) gives {r:?} / cached id {:?} (first: {:?}) or different metadata; {descr}",
                    again.cached_id(),
                    pre.cached_id()
                ),
                case,
            );
        } else {
            acc.outcome("precompute_idempotent");
        }
    }

    // 2. the byte sweep
    let (mut kept_same, mut kept_changed, mut skipped) = (0u64, 0u64, 0u64);
    if !sweep_chains.is_empty() {
        let mut m = bytes.clone();
        for pos in 0..bytes.len() {
            let f = layout.field_at(pos);
            let expect_same = f.malleable || f.in_witnesses;
            for (bi, bit) in FLIPS.iter().enumerate() {
                m[pos] = bytes[pos] ^ bit;
                // a length / count beyond the whole encoding cannot be satisfied: structure-changing
                if f.class == Class::Length && f.end - f.start == 8 && !f.class_path.ends_with("policyTypes") {
                    let mut w = [0u8; 8];
                    w.copy_from_slice(&m[f.start..f.end]);
                    if u64::from_be_bytes(w) > bytes.len() as u64 {
                        skipped += 1;
                        acc.outcome("mutant_skipped_length_word_exceeds_encoding_(not_decoded)");
                        acc.classes.entry(f.class_path.clone()).or_insert([0; 3])[2] += 1;
                        continue
                    }
                }
                let dec = guard::catch_any(|| Transaction::from_bytes(&m));
                let t2 = match dec {
                    Ok(Ok(t)) => t,
                    Ok(Err(_)) => {
                        skipped += 1;
                        acc.outcome("mutant_skipped_undecodable");
                        acc.classes.entry(f.class_path.clone()).or_insert([0; 3])[2] += 1;
                        continue
                    }
                    Err(_) => {
                        skipped += 1;
                        acc.outcome("mutant_skipped_decoder_panicked_(see_C02)");
                        acc.classes.entry(f.class_path.clone()).or_insert([0; 3])[2] += 1;
                        continue
                    }
                };
                if !matches!(guard::catch_any(|| t2.to_bytes()), Ok(b) if b == m) {
                    skipped += 1;
                    acc.outcome("mutant_skipped_structure_changed");
                    acc.classes.entry(f.class_path.clone()).or_insert([0; 3])[2] += 1;
                    continue
                }
                let mut all_same = true;
                let mut all_changed = true;
                for ci in sweep_chains {
                    acc.evals += 1;
                    let id2 = match get_id(&t2, CHAINS[*ci]) {
                        Ok(g) => g,
                        Err(msg) => {
                            acc.viol(
                                format!("C03:{kind}:panic"),
                                &|| format!("id() of the mutant (byte {pos} ^ {bit:#04x}) panicked: {msg}; {descr}"),
                                case,
                            );
                            continue
                        }
                    };
                    let same = id2 == ids[*ci];
                    all_same &= same;
                    all_changed &= !same;
                    if same != expect_same {
                        let (verdict, text) = if f.in_witnesses {
                            ("witnesses-not-removed", "lies inside the witnesses, but the id changed")
                        } else if f.malleable {
                            (V_MALLEABLE, "lies inside a malleable field, but the id changed")
                        } else {
                            (V_COMMITTED, "lies outside every malleable field and outside the witnesses, but the id did not change")
                        };
                        acc.outcome(&format!("VIOLATION_{verdict}"));
                        // witnesses are removed by code shared by all chargeable kinds: one key
                        let owner = if f.in_witnesses { "Chargeable" } else { f.class_path.as_str() };
                        let verdict = if f.in_witnesses { "witnesses-not-removed" } else { verdict };
                        acc.viol(
                            format!("C03:{owner}:{verdict}"),
                            &|| format!(
                                "byte {pos} (field {}, byte {} of it) flipped with {bit:#04x} {text} (chain {}): {} -> {}; {descr}",
                                f.path,
                                pos - f.start,
                                CHAINS[*ci],
                                h(&ids[*ci]),
                                h(&id2)
                            ),
                            case,
                        );
                    }
                }
                let e = acc.classes.entry(f.class_path.clone()).or_insert([0; 3]);
                if all_same {
                    kept_same += 1;
                    e[0] += 1;
                } else {
                    kept_changed += 1;
                    e[1] += 1;
                }
                if all_same || all_changed {
                    acc.fps.insert(hash64(&(kind, &f.class_path, pos - f.start, bi, all_same)));
                }
            }
            m[pos] = bytes[pos];
        }
        acc.outcome_n("mutant_kept_id_unchanged_(malleable_or_witness_byte)", kept_same);
        acc.outcome_n("mutant_kept_id_changed_(committed_byte)", kept_changed);
    }
    Some(Checked {
        layout,
        ids,
        precompute_refused: refused,
        kept_same,
        kept_changed,
        skipped,
    })
}

fn descr(level: CorpusLevel, idx: u64, repaired: bool) -> String {
    format!(
        "{}{} [{} #{idx}]",
        txcorpus::tx_point(level, idx).describe(),
        if repaired { " (repaired for precompute)" } else { "" },
        level.name()
    )
}

fn check_tx(level: CorpusLevel, idx: u64, sweep_chains: &[usize], acc: &mut Acc) -> Option<Checked> {
    let tx = txcorpus::tx_at(level, idx);
    let case = json!({"level": level.name(), "idx": idx});
    let r = check_value(&tx, &descr(level, idx, false), &case, sweep_chains, acc);
    if r.as_ref().map(|c| c.precompute_refused).unwrap_or(false) {
        if let Some(rep) = txlayout::repaired_for_precompute(&tx) {
            acc.outcome("repaired_copy_checked");
            // the repaired copy differs from the corpus value only in a witness / witness index:
            // formula + cache checks, no second sweep
            check_value(&rep, &descr(level, idx, true), &case, &[], acc);
        }
    }
    r
}


// ------------------------------------------------------------------ typed family (no decoder)
//
// Values the decoder cannot produce (predicate variants with EMPTY predicate code, message
// data variants with empty data — C01's known ambiguity class) never appear as kept mutants
// of the byte sweep. This family reaches them, and every malleable field, through the typed
// API only: a predicate input X (3 variants x predicate length {0,1,8,9} x predicate data
// length {0,3} x message data length {0,5}) with NON-ZERO predicate_gas_used is placed in
// front of [CoinSigned, Contract] inputs and [Change, Variable, Contract, Coin] outputs in
// each chargeable kind; (1) the id formula on the value; (2) single typed field mutations.

const FAM_PLEN: [usize; 4] = [0, 1, 8, 9];
const FAM_PDLEN: [usize; 2] = [0, 3];
const FAM_DLEN: [usize; 2] = [0, 5];
const FAM_X: u64 = 3 * 4 * 2 * 2;

fn inputs_of(tx: &mut Transaction) -> &mut Vec<Input> {
    use field::Inputs as _;
    match tx {
        Transaction::Script(t) => t.inputs_mut(),
        Transaction::Create(t) => t.inputs_mut(),
        Transaction::Upgrade(t) => t.inputs_mut(),
        Transaction::Upload(t) => t.inputs_mut(),
        Transaction::Blob(t) => t.inputs_mut(),
        Transaction::Mint(_) => panic!("mint has no inputs"),
    }
}

fn outputs_of(tx: &mut Transaction) -> &mut Vec<Output> {
    use field::Outputs as _;
    match tx {
        Transaction::Script(t) => t.outputs_mut(),
        Transaction::Create(t) => t.outputs_mut(),
        Transaction::Upgrade(t) => t.outputs_mut(),
        Transaction::Upload(t) => t.outputs_mut(),
        Transaction::Blob(t) => t.outputs_mut(),
        Transaction::Mint(_) => panic!("mint has no outputs"),
    }
}

fn witnesses_of(tx: &mut Transaction) -> &mut Vec<Witness> {
    use field::Witnesses as _;
    match tx {
        Transaction::Script(t) => t.witnesses_mut(),
        Transaction::Create(t) => t.witnesses_mut(),
        Transaction::Upgrade(t) => t.witnesses_mut(),
        Transaction::Upload(t) => t.witnesses_mut(),
        Transaction::Blob(t) => t.witnesses_mut(),
        Transaction::Mint(_) => panic!("mint has no witnesses"),
    }
}

/// The family member (kind, x); `None` for index combinations that do not exist
/// (message data length only applies to the message-data variant).
fn family_tx(kind: usize, x: u64) -> Option<(Transaction, String)> {
    let variant = (x % 3) as usize;
    let plen = FAM_PLEN[((x / 3) % 4) as usize];
    let pdlen = FAM_PDLEN[((x / 12) % 2) as usize];
    let dsel = ((x / 24) % 2) as usize;
    if variant != 2 && dsel != 0 {
        return None
    }
    let dlen = FAM_DLEN[dsel];
    let gas = txcorpus::word_pattern(0x77);
    let id = |k: u8| txcorpus::id32(1, 0x30 + k);
    let pred = txcorpus::bytes_of(plen, 0x31);
    let pdata = txcorpus::bytes_of(pdlen, 0x32);
    let data = txcorpus::bytes_of(dlen, 0x33);
    let x_input = match variant {
        0 => Input::coin_predicate(
            UtxoId::new(id(0).into(), 2),
            id(1).into(),
            txcorpus::word_pattern(0x34),
            id(2).into(),
            TxPointer::new(9u32.into(), 4),
            gas,
            pred,
            pdata,
        ),
        1 => Input::message_coin_predicate(id(3).into(), id(4).into(), txcorpus::word_pattern(0x35), id(5).into(), gas, pred, pdata),
        _ => Input::message_data_predicate(id(3).into(), id(4).into(), txcorpus::word_pattern(0x35), id(5).into(), gas, data, pred, pdata),
    };
    // policies: all six small; one 5-byte witness; rich body
    let b1 = txcorpus::base_points(kind)[1];
    let mut tx = txcorpus::tx_build(kind, [b1[0], 0, 0, txcorpus::seq2_index(10, &[5]), b1[4]]);
    *inputs_of(&mut tx) = vec![x_input, txcorpus::base_input(0, 1), txcorpus::base_input(2, 1)];
    *outputs_of(&mut tx) = vec![
        txcorpus::base_output(2, 0),
        txcorpus::base_output(3, 0),
        txcorpus::base_output(1, 1),
        txcorpus::base_output(0, 1),
    ];
    let d = format!(
        "{} with inputs [{} predicate.len={plen} predicate_data.len={pdlen}{} predicate_gas_used={gas:#x}, CoinSigned, Contract] outputs [Change, Variable, Contract, Coin] [typed family kind {kind} x {x}]",
        txcorpus::TX_KINDS[kind],
        txcorpus::INPUT_KINDS[[1, 4, 6][variant]],
        if variant == 2 { format!(" data.len={dlen}") } else { String::new() },
    );
    Some((tx, d))
}

type Mutation = (String, bool, Box<dyn Fn(&mut Transaction)>);

fn flip32<T: AsMut<[u8]>>(t: &mut T) {
    t.as_mut()[31] ^= 0x01;
}

/// Single typed field mutations: (field class, malleable?, edit).
fn family_mutations(tx: &Transaction) -> Vec<Mutation> {
    let mut tx0 = tx.clone();
    let xc = txlayout::input_class(&inputs_of(&mut tx0)[0]).to_string();
    let mut v: Vec<Mutation> = Vec::new();
    let mut add = |class: String, malleable: bool, f: Box<dyn Fn(&mut Transaction)>| v.push((class, malleable, f));
    // X: predicate gas used through the public setter
    for g in [0u64, 1, u64::MAX] {
        add(format!("{xc}.predicateGasUsed"), true, Box::new(move |t| inputs_of(t)[0].set_predicate_gas_used(g)));
    }
    // X: committed neighbours and (coin) tx pointer
    add(format!("{xc}.amount"), false, Box::new(|t| match &mut inputs_of(t)[0] {
        Input::CoinPredicate(c) => c.amount ^= 1,
        Input::MessageCoinPredicate(c) => c.amount ^= 1,
        Input::MessageDataPredicate(c) => c.amount ^= 1,
        _ => {}
    }));
    add(format!("{xc}.owner|recipient"), false, Box::new(|t| match &mut inputs_of(t)[0] {
        Input::CoinPredicate(c) => flip32(&mut c.owner),
        Input::MessageCoinPredicate(c) => flip32(&mut c.recipient),
        Input::MessageDataPredicate(c) => flip32(&mut c.recipient),
        _ => {}
    }));
    add(format!("{xc}.assetId|nonce"), false, Box::new(|t| match &mut inputs_of(t)[0] {
        Input::CoinPredicate(c) => flip32(&mut c.asset_id),
        Input::MessageCoinPredicate(c) => flip32(&mut c.nonce),
        Input::MessageDataPredicate(c) => flip32(&mut c.nonce),
        _ => {}
    }));
    add(format!("{xc}.predicate"), false, Box::new(|t| match &mut inputs_of(t)[0] {
        Input::CoinPredicate(c) => c.predicate.iter_mut().take(1).for_each(|b| *b ^= 1),
        Input::MessageCoinPredicate(c) => c.predicate.iter_mut().take(1).for_each(|b| *b ^= 1),
        Input::MessageDataPredicate(c) => c.predicate.iter_mut().take(1).for_each(|b| *b ^= 1),
        _ => {}
    }));
    add(format!("{xc}.predicateData"), false, Box::new(|t| match &mut inputs_of(t)[0] {
        Input::CoinPredicate(c) => c.predicate_data.iter_mut().take(1).for_each(|b| *b ^= 1),
        Input::MessageCoinPredicate(c) => c.predicate_data.iter_mut().take(1).for_each(|b| *b ^= 1),
        Input::MessageDataPredicate(c) => c.predicate_data.iter_mut().take(1).for_each(|b| *b ^= 1),
        _ => {}
    }));
    add(format!("{xc}.txPointer"), true, Box::new(|t| {
        if let Input::CoinPredicate(c) = &mut inputs_of(t)[0] {
            c.tx_pointer = TxPointer::new(77u32.into(), 7);
        }
    }));
    // CoinSigned
    add("Input::CoinSigned.txPointer".into(), true, Box::new(|t| {
        if let Input::CoinSigned(c) = &mut inputs_of(t)[1] {
            c.tx_pointer = TxPointer::new(78u32.into(), 8);
        }
    }));
    add("Input::CoinSigned.witnessIndex".into(), false, Box::new(|t| {
        if let Input::CoinSigned(c) = &mut inputs_of(t)[1] {
            c.witness_index ^= 1;
        }
    }));
    add("Input::CoinSigned.utxoId".into(), false, Box::new(|t| {
        if let Input::CoinSigned(c) = &mut inputs_of(t)[1] {
            c.utxo_id = UtxoId::new([0x5a; 32].into(), 9);
        }
    }));
    // Contract input
    add("Input::Contract.utxoId".into(), true, Box::new(|t| {
        if let Input::Contract(c) = &mut inputs_of(t)[2] {
            c.utxo_id = UtxoId::new([0x5b; 32].into(), 10);
        }
    }));
    add("Input::Contract.balanceRoot".into(), true, Box::new(|t| {
        if let Input::Contract(c) = &mut inputs_of(t)[2] {
            flip32(&mut c.balance_root);
        }
    }));
    add("Input::Contract.stateRoot".into(), true, Box::new(|t| {
        if let Input::Contract(c) = &mut inputs_of(t)[2] {
            flip32(&mut c.state_root);
        }
    }));
    add("Input::Contract.txPointer".into(), true, Box::new(|t| {
        if let Input::Contract(c) = &mut inputs_of(t)[2] {
            c.tx_pointer = TxPointer::new(79u32.into(), 9);
        }
    }));
    add("Input::Contract.contractId".into(), false, Box::new(|t| {
        if let Input::Contract(c) = &mut inputs_of(t)[2] {
            flip32(&mut c.contract_id);
        }
    }));
    // outputs
    add("Output::Change.amount".into(), true, Box::new(|t| {
        if let Output::Change { amount, .. } = &mut outputs_of(t)[0] {
            *amount ^= 1;
        }
    }));
    add("Output::Change.to".into(), false, Box::new(|t| {
        if let Output::Change { to, .. } = &mut outputs_of(t)[0] {
            flip32(to);
        }
    }));
    add("Output::Change.assetId".into(), false, Box::new(|t| {
        if let Output::Change { asset_id, .. } = &mut outputs_of(t)[0] {
            flip32(asset_id);
        }
    }));
    add("Output::Variable.to".into(), true, Box::new(|t| {
        if let Output::Variable { to, .. } = &mut outputs_of(t)[1] {
            flip32(to);
        }
    }));
    add("Output::Variable.amount".into(), true, Box::new(|t| {
        if let Output::Variable { amount, .. } = &mut outputs_of(t)[1] {
            *amount ^= 1;
        }
    }));
    add("Output::Variable.assetId".into(), true, Box::new(|t| {
        if let Output::Variable { asset_id, .. } = &mut outputs_of(t)[1] {
            flip32(asset_id);
        }
    }));
    add("Output::Contract.balanceRoot".into(), true, Box::new(|t| {
        if let Output::Contract(c) = &mut outputs_of(t)[2] {
            flip32(&mut c.balance_root);
        }
    }));
    add("Output::Contract.stateRoot".into(), true, Box::new(|t| {
        if let Output::Contract(c) = &mut outputs_of(t)[2] {
            flip32(&mut c.state_root);
        }
    }));
    add("Output::Contract.inputIndex".into(), false, Box::new(|t| {
        if let Output::Contract(c) = &mut outputs_of(t)[2] {
            c.input_index ^= 1;
        }
    }));
    add("Output::Coin.amount".into(), false, Box::new(|t| {
        if let Output::Coin { amount, .. } = &mut outputs_of(t)[3] {
            *amount ^= 1;
        }
    }));
    // script body
    add("Script.receiptsRoot".into(), true, Box::new(|t| {
        if let Transaction::Script(s) = t {
            flip32(field::ReceiptsRoot::receipts_root_mut(s));
        }
    }));
    add("Script.scriptGasLimit".into(), false, Box::new(|t| {
        if let Transaction::Script(s) = t {
            *field::ScriptGasLimit::script_gas_limit_mut(s) ^= 1;
        }
    }));
    // witnesses
    add("Witness.data".into(), true, Box::new(|t| {
        if let Some(w) = witnesses_of(t).first_mut() {
            w.as_vec_mut()[0] ^= 1;
        }
    }));
    add("witnesses(push)".into(), true, Box::new(|t| witnesses_of(t).push(vec![1u8, 2, 3].into())));
    v
}

fn check_family(kind: usize, x: u64, acc: &mut Acc) {
    let Some((tx, d)) = family_tx(kind, x) else { return };
    let case = json!({"family": "typed", "kind": kind, "x": x});
    // (1) formula, chain ids, cache — on the value itself, no decoder
    let Some(base) = check_value(&tx, &d, &case, &[], acc) else { return };
    acc.outcome("typed_family_value_checked");
    // (2) single typed field mutations
    let bytes = tx.to_bytes();
    for (class, malleable, edit) in family_mutations(&tx) {
        let mut t2 = tx.clone();
        if guard::catch_any(std::panic::AssertUnwindSafe(|| edit(&mut t2))).is_err() {
            continue
        }
        if t2.to_bytes() == bytes {
            acc.outcome("typed_mutation_not_applicable_(value_unchanged)");
            continue
        }
        for (ci, chain) in CHAINS.iter().enumerate() {
            acc.evals += 1;
            let Ok(id2) = get_id(&t2, *chain) else { continue };
            let same = id2 == base.ids[ci];
            if same == malleable {
                acc.outcome(if same { "typed_mutation_of_malleable_field_keeps_id" } else { "typed_mutation_of_committed_field_changes_id" });
                acc.fps.insert(hash64(&("typed", &class, malleable, txcorpus::TX_KINDS[kind])));
                continue
            }
            let key = if class.starts_with("Witness") || class.starts_with("witnesses") {
                "C03:Chargeable:witnesses-not-removed".to_string()
            } else {
                format!("C03:{class}:{}", if malleable { V_MALLEABLE } else { V_COMMITTED })
            };
            acc.outcome("VIOLATION_typed_mutation");
            acc.viol(
                key,
                &|| format!(
                    "changing {class} through the typed API {} the id (chain {chain}): {} -> {}; {d}",
                    if same { "does not change" } else { "changes" },
                    h(&base.ids[ci]),
                    h(&id2)
                ),
                &case,
            );
        }
    }
}

// ------------------------------------------------------------------ driver

fn policy_segments() -> Vec<u64> {
    let mut v = vec![0u64, 126, 127];
    v.extend((0..txcorpus::N_POLICIES).filter(|p| ![0, 126, 127].contains(p)));
    v
}

/// Index of `(kind, body point, w, o, i, p)` in the Full enumeration of txcorpus
/// (kind fastest, policies slowest).
fn full_index(kind: u64, b: u64, w: u64, o: u64, i: u64, p: u64) -> u64 {
    kind + 6 * (b + 2 * (w + txcorpus::N_WITNESS_LISTS * (o + txcorpus::N_OUTPUT_LISTS * (i + txcorpus::N_INPUT_LISTS * p))))
}

fn sample_tx(ctx: &Ctx, level: CorpusLevel, idx: u64, classes: &Mutex<ClassCounts>) {
    let mut acc = Acc::default();
    if let Some(c) = check_tx(level, idx, &[0, 3], &mut acc) {
        let malleable: Vec<String> = c.layout.fields.iter().filter(|f| f.malleable).map(|f| format!("{}@{}..{}", f.path, f.start, f.end)).collect();
        ctx.sample(json!({
            "tx": descr(level, idx, false), "encoded_len": c.layout.len(),
            "signed_bytes_len": c.layout.signing_bytes().len(),
            "id_chain_0": h(&c.ids[0]), "id_chain_max": h(&c.ids[3]),
            "malleable_fields": malleable,
            "mutants_kept_id_unchanged": c.kept_same, "mutants_kept_id_changed": c.kept_changed, "mutants_skipped": c.skipped,
            "violations_in_this_tx": acc.viols.len(),
        }));
    }
    // sample runs are not part of the counted space
    let _ = classes;
}

fn explore(ctx: &Ctx) {
    ctx.rule(
        "every transaction of the enumerated corpus x chain ids {0,1,2^32,u64::MAX}: id compared with SHA-256(chain id BE ‖ \
         walker encoding with malleable fields zeroed and witnesses removed); every byte of every encoding flipped (bit 0, \
         bit 7), decoded, kept when the re-encoding equals the mutated bytes, and its id compared with the original's; a \
         case is non-trivial when the id matched the formula (base transactions; distinct = distinct encodings) or when a \
         mutant was kept and classified (distinct = distinct (tx kind, field class, byte within field, flip, id changed?))",
    );
    ctx.assume("the layout walker (txlayout.rs) is a correct reading of the tx-format tables; it is validated on every transaction by comparing its own encoding with to_bytes()");
    ctx.assume("SHA-256 collisions do not occur (a changed committed byte must change the id)");
    ctx.set("chain_ids", json!(CHAINS.iter().map(|c| c.to_string()).collect::<Vec<_>>()));
    ctx.set("flips", json!(["bit 0 (0x01)", "bit 7 (0x80)"]));
    ctx.set(
        "malleable_list",
        json!([
            "Script.receiptsRoot", "Input::Coin*.txPointer", "Input::Coin*.predicateGasUsed", "Input::Message*.predicateGasUsed",
            "Input::Contract.{utxoId,balanceRoot,stateRoot,txPointer}", "Output::Contract.{balanceRoot,stateRoot}",
            "Output::Change.amount", "Output::Variable.{to,amount,assetId}",
            "Mint.inputContract.{utxoId,balanceRoot,stateRoot,txPointer}", "Mint.outputContract.{balanceRoot,stateRoot}",
            "witnesses (removed, count word zero)"
        ]),
    );
    ctx.set(
        "dont_care",
        json!([
            "mutants that do not decode, or whose re-encoding differs from the mutated bytes (structure-changing: length/count words, padding, fields the decoder normalises) — skipped and counted per field class",
            "the id a PRECOMPUTED transaction reports for a chain id other than the one it was precomputed with (the cache is returned by design)",
            "ids after mutating a precomputed transaction through *_mut accessors (the cache is documented as possibly stale)",
            "validity of the enumerated transactions",
        ]),
    );
    let classes: Mutex<ClassCounts> = Mutex::new(BTreeMap::new());
    let all_chains: [usize; 4] = [0, 1, 2, 3];

    // ---- A. star corpus, sweep under all four chain ids
    let star_n = txcorpus::tx_count(CorpusLevel::Star);
    space::par_chunks(
        star_n,
        8,
        Acc::default,
        |i, acc| {
            check_tx(CorpusLevel::Star, i, &all_chains, acc);
        },
        |acc| acc.flush(ctx, &classes),
    );
    ctx.set(
        "tx_star",
        json!({"count": star_n, "kinds": txcorpus::TX_KINDS, "plus": "Mint", "dims": txcorpus::DIM_NAMES,
               "dim_sizes_per_kind": (0..6).map(txcorpus::tx_dims).collect::<Vec<_>>(),
               "sweep": "every byte x 2 flips x 4 chain ids"}),
    );

    // ---- A2. typed family (values the decoder cannot produce; typed single-field mutations)
    space::par_chunks(
        6 * FAM_X,
        8,
        Acc::default,
        |j, acc| check_family((j / FAM_X) as usize, j % FAM_X, acc),
        |acc| acc.flush(ctx, &classes),
    );
    ctx.set(
        "typed_family",
        json!({"kinds": txcorpus::TX_KINDS, "x_variants": ["CoinPredicate", "MessageCoinPredicate", "MessageDataPredicate"],
               "predicate_len": FAM_PLEN, "predicate_data_len": FAM_PDLEN, "message_data_len": FAM_DLEN,
               "members": 6 * 32, "predicate_gas_used": "pattern (non-zero)",
               "per_member": "id formula x 4 chain ids + cache + 34 single typed field mutations x 4 chain ids",
               "goes_through_decoder": false}),
    );

    // ---- B. thorough: sub-product with sweep
    if ctx.thorough() {
        let ws = [0u64, txcorpus::seq2_index(10, &[5]), txcorpus::seq2_index(10, &[3, 8])];
        let ps = [0u64, 126, 127];
        let n_io = txcorpus::N_INPUT_LISTS * txcorpus::N_OUTPUT_LISTS;
        let n = 6 * 2 * ws.len() as u64 * ps.len() as u64 * n_io;
        let budget_s: f64 = std::env::var("VERIF_BUDGET_S").ok().and_then(|s| s.parse().ok()).unwrap_or(900.0);
        let seg = 1u64 << 13;
        let mut done = 0u64;
        while done < n {
            if ctx.out_of_time() || ctx.elapsed() > budget_s * 0.7 {
                ctx.cap(format!("sub-product byte sweep cut short by the time budget after {done} of {n} transactions"));
                break
            }
            let m = seg.min(n - done);
            let base = done;
            space::par_chunks(
                m,
                8,
                Acc::default,
                |j, acc| {
                    // kind fastest, then body, witness choice, policy choice, output list, input list
                    let mut r = base + j;
                    let kind = r % 6;
                    r /= 6;
                    let b = r % 2;
                    r /= 2;
                    let w = ws[(r % 3) as usize];
                    r /= 3;
                    let p = ps[(r % 3) as usize];
                    r /= 3;
                    let o = r % txcorpus::N_OUTPUT_LISTS;
                    let i = r / txcorpus::N_OUTPUT_LISTS;
                    // one chain id per transaction, rotating with the position in the sub-product
                    let chain = [((base + j) % 4) as usize];
                    check_tx(CorpusLevel::Full, full_index(kind, b, w, o, i, p), &chain, acc);
                },
                |acc| acc.flush(ctx, &classes),
            );
            done += m;
        }
        ctx.set(
            "tx_subproduct_sweep",
            json!({"count": n, "completed": done,
                   "product": "kind(6) x body(2) x witness lists {[],[5],[3,8]} x policy sets {0,126,127} x output lists(31) x input lists(57)",
                   "sweep": "every byte x 2 flips, chain id rotating over the four"}),
        );

        // ---- C. thorough: formula + cache over the full product, per policy set
        let per_policy = 6 * 2 * txcorpus::N_WITNESS_LISTS * txcorpus::N_OUTPUT_LISTS * txcorpus::N_INPUT_LISTS;
        let segs = policy_segments();
        let mut done_segments = Vec::new();
        for p in &segs {
            if ctx.out_of_time() || ctx.elapsed() > budget_s {
                ctx.cap(format!(
                    "full TX(2) product (formula + cache, no sweep) cut short by the time budget after {} of {} policy sets ({} transactions each)",
                    done_segments.len(),
                    segs.len(),
                    per_policy
                ));
                break
            }
            let base = p * per_policy;
            space::par_chunks(
                per_policy,
                4096,
                Acc::default,
                |i, acc| {
                    check_tx(CorpusLevel::Full, base + i, &[], acc);
                },
                |acc| acc.flush(ctx, &classes),
            );
            done_segments.push(*p);
        }
        ctx.set(
            "tx_full_formula_and_cache",
            json!({"transactions_per_policy_set": per_policy, "policy_sets_completed": done_segments.len(),
                   "policy_set_order": segs, "policy_sets_done": done_segments}),
        );
    }

    // ---- evidence: what the sweep reached per field class
    let g = classes.lock().unwrap().clone();
    let mut table = serde_json::Map::new();
    let mut never_kept = Vec::new();
    for (k, v) in &g {
        table.insert(k.clone(), json!({"kept_id_unchanged": v[0], "kept_id_changed": v[1], "skipped": v[2]}));
        if v[0] + v[1] == 0 {
            never_kept.push(k.clone());
        }
    }
    ctx.set("sweep_by_field_class", Value::Object(table));
    ctx.set("field_classes_without_kept_mutant_(structure_only)", json!(never_kept));
    drop(g);

    // ---- samples
    for kind in [0usize, 1, 4] {
        let want = txcorpus::TxPoint::Chargeable {
            kind,
            ix: txcorpus::base_points(kind)[1],
        };
        if let Some(i) = (0..star_n).find(|i| txcorpus::tx_point(CorpusLevel::Star, *i) == want) {
            sample_tx(ctx, CorpusLevel::Star, i, &classes);
        }
    }
    sample_tx(ctx, CorpusLevel::Star, star_n - 1, &classes);
}

fn replay(case: &Value, ctx: &Ctx) {
    let mut acc = Acc::default();
    if case["family"].as_str() == Some("typed") {
        check_family(case["kind"].as_u64().expect("kind") as usize, case["x"].as_u64().expect("x"), &mut acc);
        acc.flush(ctx, &Mutex::new(BTreeMap::new()));
        return
    }
    let level = CorpusLevel::from_name(case["level"].as_str().unwrap_or("Star"));
    let idx = case["idx"].as_u64().expect("idx");
    check_tx(level, idx, &[0, 1, 2, 3], &mut acc);
    acc.flush(ctx, &Mutex::new(BTreeMap::new()));
}

fn main() {
    run_check("C03", Level::Exploration, explore, replay)
}
