//! C30 — Execution touches only the state of contracts listed as inputs; the active
//! contract is always one of them; predicate execution never reads or writes any
//! contract state.
//!
//! MONITOR. `Rec` implements everything `fuel_vm::storage::InterpreterStorage` requires
//!   (StorageInspect/Mutate/Size/Read/Write for ContractsRawCode, ContractsState,
//!   BlobData; StorageInspect/Mutate for ContractsAssets, UploadedBytecodes;
//!   ContractsAssetsStorage; InterpreterStorage) by delegation to an inner
//!   `MemoryStorage` and logs every call as (table, contract id, read|write, method).
//!   Every *provided* trait method is overridden too (log, then call the inner type's
//!   own version of that method), so neither a default body nor an override of the
//!   inner type (`contract_state_remove_range` walks the inner maps directly) bypasses
//!   the log. The VM is `Interpreter<MemoryInstance, Rec, Script>` (default verifier
//!   `Normal`, default ecal handler).
//!
//! SPACE A (programs). For each WORLD in {rich, poor}: ALL programs of length <= k
//!   (k = 3 quick, 4 thorough) over the alphabet A30 (48 letters, listed in the
//!   evidence): script = progkit prelude ‖ letters ‖ `ret $one`. Targets: A, B =
//!   contract inputs of the transaction, C = deployed but NOT an input, D = not deployed.
//!     script level:  ret; {csiz, bal, tr, croo, ccp, ldc(mode 0)} x {A, C, D};
//!                    call {C, D} with 0 coins; call {A, C, D} forwarding 1 coin;
//!     nested:        call A<j> / call B<j>: contracts A and B carry the same body, a
//!                    jump table over 16 sections selected by a register:
//!                      nop | legacy state ops (sww, srw, swwq, srwq, scwq; the slot key
//!                      is the 32 bytes of C's id) | dynamic state ops (swrd, srdd, supd,
//!                      spld, sclr; key = D's id) | assets (mint, burn, bal own, bal
//!                      other, tr other, tro, smo) | call the other listed contract
//!                      with section j2, then sww/srw own state | call C | call D |
//!                      call C forwarding 1 coin | tr C | tr D | bal C | csiz C |
//!                      csiz D | croo C | ccp C | ldc C
//!                    (depth up to script -> A -> B -> A).  C's body writes C's state.
//!   Every program is executed twice: step by step (`execute::<false>()` under
//!   catch_any; the log is drained after `init_script` and after every instruction, so
//!   each access is attributed to the opcode that was executing) and end to end through
//!   `Interpreter::transact` (init, input-contract existence checks, run, finalisation).
//!   Worlds differ in prior balances and coin inputs (so transfers succeed / fail).
//!   EXECUTION CONTEXTS (each program of length <= 3, both ways, in all three; programs
//!   of length 4 in the fresh one and in one reused one, alternating): a fresh interpreter
//!   instance; the SAME instance after `Interpreter::transact` of a warm-up transaction
//!   of the same shape whose contract inputs are A, B *and C* with script `ret 1`; the
//!   same with a warm-up script that calls C (C's context was active, C's body wrote
//!   C's state). The program's own transaction lists A and B only, and the oracle is
//!   unchanged: the inputs are those of the transaction being executed, not of
//!   anything the instance ran before. Oracle (3) compares with the state right after
//!   the warm-up.
//!
//! SPACE B (predicates). For each of the 24 contract-state opcodes (BAL BURN CALL CCP
//!   CROO CSIZ LDC(mode 0) MINT SMO SCWQ SRW SRWQ SWW SWWQ TR TRO SCLR SRDD SRDI SWRD
//!   SWRI SUPD SUPI SPLD) x {first instruction, after a 4-instruction operand set-up}
//!   x {verification, estimation}: a coin-predicate input holding that program, run
//!   through the real path `Checked::<Script>::check_predicates` /
//!   `EstimatePredicates::estimate_predicates` over `RecP`, a recording storage that
//!   implements exactly `PredicateStorageRequirements` (BlobData reads) on top of a
//!   MemoryStorage in which A, B, C are deployed. Controls: `ret 1` (accepted) and
//!   `bsiz` of a stored blob (accepted, BlobData read visible in the log = monitor live).
//!   Plus SPACE B' (storage layer, direct): every contract-table operation that
//!   `PredicateStorage<&RecP>` offers (calls over StorageInspect/Mutate/Size/Read/
//!   Write, ContractsAssetsStorage and InterpreterStorage's contract methods).
//!   (43 calls; the count is in the evidence.)
//!
//! ORACLE (from the statement; inputs := contract ids of the transaction's
//!   Input::Contract entries, computed from the transaction):
//!   (1) every logged access to ContractsRawCode / ContractsState / ContractsAssets
//!       names a contract id in inputs — at init, in every step, and in the transact
//!       run (transact accesses to non-inputs that the step-wise run did not show are
//!       reported as `pipeline`);
//!   (2) whenever execution continues after a step: if `$fp != 0` the ContractId at
//!       memory[$fp..$fp+32] is in inputs, and the top of `verif_call_stack()` (if any)
//!       is in inputs;
//!   (3) independent of the log: after the run, code / state slots / balances of every
//!       contract outside inputs (C, D) are unchanged in the inner storage;
//!   (4) predicates: zero contract-table accesses in RecP's log; in verification mode
//!       the predicate is refused with ContractInstructionNotAllowed (spec: predicate
//!       verification, contract instructions); the storage handed to a predicate VM
//!       refuses every contract-table operation (doc of `PredicateStorage`: "its
//!       storage backend for predicate execution shouldn't provide any functionality").
//!   Accesses to BlobData / UploadedBytecodes are out of scope.
//!
//! KEYS: `C30:<OPCODE>:<table>:<class>` with class in {unlisted-deployed (C),
//!   unlisted-nonexistent (D), unlisted-other}; `C30:init:..`, `C30:pipeline:..`,
//!   `C30:active-contract:<class>:after-<OPCODE>`, `C30:final-state:<table>`,
//!   `C30:predicate:<OP>:<accepted|unexpected-failure|contract-table-access>`,
//!   `C30:predicate-storage:<table>:<method>:not-refused`.
//!   Known finding F5 has exactly one key: a *size query* on ContractsRawCode, during
//!   CALL, for the id the CALL targets, when that id is not an input:
//!   `C30:CALL:target-code-size-read-before-inputs-check`. Any other access of CALL to
//!   an unlisted contract (code bytes, balances, state) gets the generic key.

#[path = "../progkit.rs"]
mod progkit;

use std::{
    borrow::Cow,
    cell::RefCell,
    collections::{
        BTreeMap,
        BTreeSet,
        HashSet,
    },
    convert::Infallible,
};

use fuel_asm::{
    op,
    GTFArgs,
    Instruction,
    Opcode,
    PanicReason,
    RegId,
    Word,
};
use fuel_storage::{
    Mappable,
    StorageInspect,
    StorageMutate,
    StorageRead,
    StorageReadError,
    StorageSize,
    StorageWrite,
};
use fuel_tx::{
    field::{
        Inputs,
        Outputs,
    },
    ConsensusParameters,
    Contract,
    Finalizable,
    Input,
    Output,
    Script,
    StorageSlot,
    TransactionBuilder,
    TxPointer,
    UtxoId,
};
use fuel_types::{
    AssetId,
    BlobId,
    BlockHeight,
    Bytes32,
    ContractId,
};
use fuel_vm::{
    checked_transaction::{
        CheckError,
        CheckPredicateParams,
        CheckPredicates,
        EstimatePredicates,
        IntoChecked,
        Ready,
    },
    error::{
        InterpreterError,
        PredicateVerificationFailed,
    },
    interpreter::{
        Interpreter,
        MemoryInstance,
        NotSupportedEcal,
    },
    state::ExecuteState,
    storage::{
        predicate::{
            PredicateStorage,
            PredicateStorageError,
            PredicateStorageRequirements,
        },
        BlobBytes,
        BlobData,
        ContractsAssetKey,
        ContractsAssets,
        ContractsAssetsStorage,
        ContractsRawCode,
        ContractsState,
        ContractsStateData,
        ContractsStateKey,
        InterpreterStorage,
        MemoryStorage,
        UploadedBytecodes,
    },
};
use progkit::{
    letter,
    r,
    Letter,
    World,
    WorldCfg,
    A,
    ASSET_X,
    B,
    C,
    D,
};
use vcore::{
    guard,
    json,
    oracle,
    run::hash64,
    run_check,
    space,
    vmkit::Step,
    Ctx,
    Level,
    Value,
};

const KNOWN_F5: &str = "C30:CALL:target-code-size-read-before-inputs-check";
const GAS: u64 = 1_000_000;
const MAX_STEPS: u64 = 400;

// ===================================================================== monitor

#[derive(Clone, Copy, Debug, PartialEq, Eq, Hash, PartialOrd, Ord)]
enum Table {
    RawCode,
    State,
    Assets,
    Uploaded,
    Blob,
}

impl Table {
    fn name(self) -> &'static str {
        match self {
            Table::RawCode => "ContractsRawCode",
            Table::State => "ContractsState",
            Table::Assets => "ContractsAssets",
            Table::Uploaded => "UploadedBytecodes",
            Table::Blob => "BlobData",
        }
    }

    fn is_contract(self) -> bool {
        matches!(self, Table::RawCode | Table::State | Table::Assets)
    }
}

#[derive(Clone, Copy, Debug, PartialEq, Eq, Hash, PartialOrd, Ord)]
enum Kind {
    Read,
    Write,
}

#[derive(Clone, Debug, PartialEq, Eq, Hash, PartialOrd, Ord)]
struct Access {
    table: Table,
    id: Option<ContractId>,
    kind: Kind,
    method: &'static str,
}

/// Methods that only ask for the length of a contract's code.
fn is_size_query(method: &str) -> bool {
    method == "size_of_value" || method == "storage_contract_size"
}

fn id_code(k: &ContractId) -> Option<ContractId> {
    Some(*k)
}
fn id_state(k: &ContractsStateKey) -> Option<ContractId> {
    Some(*k.contract_id())
}
fn id_asset(k: &ContractsAssetKey) -> Option<ContractId> {
    Some(*k.contract_id())
}
fn id_none32(_: &Bytes32) -> Option<ContractId> {
    None
}
fn id_noneblob(_: &BlobId) -> Option<ContractId> {
    None
}

/// Recording storage: every call is logged, then answered by the inner MemoryStorage.
struct Rec {
    inner: MemoryStorage,
    log: RefCell<Vec<Access>>,
}

impl Rec {
    fn new(inner: MemoryStorage) -> Self {
        Rec {
            inner,
            log: RefCell::new(Vec::new()),
        }
    }

    fn note(&self, table: Table, id: Option<ContractId>, kind: Kind, method: &'static str) {
        self.log.borrow_mut().push(Access {
            table,
            id,
            kind,
            method,
        });
    }

    fn drain(&self) -> Vec<Access> {
        std::mem::take(&mut *self.log.borrow_mut())
    }
}

macro_rules! rec_inspect {
    ($T:ty, $tab:expr, $id:path) => {
        impl StorageInspect<$T> for Rec {
            type Error = Infallible;

            fn get(
                &self,
                key: &<$T as Mappable>::Key,
            ) -> Result<Option<Cow<'_, <$T as Mappable>::OwnedValue>>, Infallible> {
                self.note($tab, $id(key), Kind::Read, "get");
                <MemoryStorage as StorageInspect<$T>>::get(&self.inner, key)
            }

            fn contains_key(&self, key: &<$T as Mappable>::Key) -> Result<bool, Infallible> {
                self.note($tab, $id(key), Kind::Read, "contains_key");
                <MemoryStorage as StorageInspect<$T>>::contains_key(&self.inner, key)
            }
        }
    };
}

macro_rules! rec_mutate {
    ($T:ty, $tab:expr, $id:path) => {
        impl StorageMutate<$T> for Rec {
            fn insert(
                &mut self,
                key: &<$T as Mappable>::Key,
                value: &<$T as Mappable>::Value,
            ) -> Result<(), Infallible> {
                self.note($tab, $id(key), Kind::Write, "insert");
                <MemoryStorage as StorageMutate<$T>>::insert(&mut self.inner, key, value)
            }

            fn replace(
                &mut self,
                key: &<$T as Mappable>::Key,
                value: &<$T as Mappable>::Value,
            ) -> Result<Option<<$T as Mappable>::OwnedValue>, Infallible> {
                self.note($tab, $id(key), Kind::Write, "replace");
                <MemoryStorage as StorageMutate<$T>>::replace(&mut self.inner, key, value)
            }

            fn remove(&mut self, key: &<$T as Mappable>::Key) -> Result<(), Infallible> {
                self.note($tab, $id(key), Kind::Write, "remove");
                <MemoryStorage as StorageMutate<$T>>::remove(&mut self.inner, key)
            }

            fn take(
                &mut self,
                key: &<$T as Mappable>::Key,
            ) -> Result<Option<<$T as Mappable>::OwnedValue>, Infallible> {
                self.note($tab, $id(key), Kind::Write, "take");
                <MemoryStorage as StorageMutate<$T>>::take(&mut self.inner, key)
            }
        }
    };
}

macro_rules! rec_size_read_write {
    ($T:ty, $tab:expr, $id:path) => {
        impl StorageSize<$T> for Rec {
            fn size_of_value(
                &self,
                key: &<$T as Mappable>::Key,
            ) -> Result<Option<usize>, Infallible> {
                self.note($tab, $id(key), Kind::Read, "size_of_value");
                <MemoryStorage as StorageSize<$T>>::size_of_value(&self.inner, key)
            }
        }

        impl StorageRead<$T> for Rec {
            fn read_exact(
                &self,
                key: &<$T as Mappable>::Key,
                offset: usize,
                buf: &mut [u8],
            ) -> Result<Result<usize, StorageReadError>, Infallible> {
                self.note($tab, $id(key), Kind::Read, "read_exact");
                <MemoryStorage as StorageRead<$T>>::read_exact(&self.inner, key, offset, buf)
            }

            fn read_zerofill(
                &self,
                key: &<$T as Mappable>::Key,
                offset: usize,
                buf: &mut [u8],
            ) -> Result<Result<usize, StorageReadError>, Infallible> {
                self.note($tab, $id(key), Kind::Read, "read_zerofill");
                <MemoryStorage as StorageRead<$T>>::read_zerofill(
                    &self.inner,
                    key,
                    offset,
                    buf,
                )
            }

            fn read_alloc(
                &self,
                key: &<$T as Mappable>::Key,
            ) -> Result<Option<Vec<u8>>, Infallible> {
                self.note($tab, $id(key), Kind::Read, "read_alloc");
                <MemoryStorage as StorageRead<$T>>::read_alloc(&self.inner, key)
            }
        }

        impl StorageWrite<$T> for Rec {
            fn write_bytes(
                &mut self,
                key: &<$T as Mappable>::Key,
                buf: &[u8],
            ) -> Result<(), Infallible> {
                self.note($tab, $id(key), Kind::Write, "write_bytes");
                <MemoryStorage as StorageWrite<$T>>::write_bytes(&mut self.inner, key, buf)
            }

            fn replace_bytes(
                &mut self,
                key: &<$T as Mappable>::Key,
                buf: &[u8],
            ) -> Result<Option<Vec<u8>>, Infallible> {
                self.note($tab, $id(key), Kind::Write, "replace_bytes");
                <MemoryStorage as StorageWrite<$T>>::replace_bytes(&mut self.inner, key, buf)
            }

            fn take_bytes(
                &mut self,
                key: &<$T as Mappable>::Key,
            ) -> Result<Option<Vec<u8>>, Infallible> {
                self.note($tab, $id(key), Kind::Write, "take_bytes");
                <MemoryStorage as StorageWrite<$T>>::take_bytes(&mut self.inner, key)
            }
        }
    };
}

rec_inspect!(ContractsRawCode, Table::RawCode, id_code);
rec_mutate!(ContractsRawCode, Table::RawCode, id_code);
rec_size_read_write!(ContractsRawCode, Table::RawCode, id_code);

rec_inspect!(ContractsState, Table::State, id_state);
rec_mutate!(ContractsState, Table::State, id_state);
rec_size_read_write!(ContractsState, Table::State, id_state);

rec_inspect!(ContractsAssets, Table::Assets, id_asset);
rec_mutate!(ContractsAssets, Table::Assets, id_asset);

rec_inspect!(UploadedBytecodes, Table::Uploaded, id_none32);
rec_mutate!(UploadedBytecodes, Table::Uploaded, id_none32);

rec_inspect!(BlobData, Table::Blob, id_noneblob);
rec_mutate!(BlobData, Table::Blob, id_noneblob);
rec_size_read_write!(BlobData, Table::Blob, id_noneblob);

impl ContractsAssetsStorage for Rec {
    fn contract_asset_id_balance(
        &self,
        id: &ContractId,
        asset_id: &AssetId,
    ) -> Result<Option<Word>, Infallible> {
        self.note(Table::Assets, Some(*id), Kind::Read, "contract_asset_id_balance");
        self.inner.contract_asset_id_balance(id, asset_id)
    }

    fn contract_asset_id_balance_insert(
        &mut self,
        contract: &ContractId,
        asset_id: &AssetId,
        value: Word,
    ) -> Result<(), Infallible> {
        self.note(
            Table::Assets,
            Some(*contract),
            Kind::Write,
            "contract_asset_id_balance_insert",
        );
        self.inner
            .contract_asset_id_balance_insert(contract, asset_id, value)
    }

    fn contract_asset_id_balance_replace(
        &mut self,
        contract: &ContractId,
        asset_id: &AssetId,
        value: Word,
    ) -> Result<Option<Word>, Infallible> {
        self.note(
            Table::Assets,
            Some(*contract),
            Kind::Write,
            "contract_asset_id_balance_replace",
        );
        self.inner
            .contract_asset_id_balance_replace(contract, asset_id, value)
    }
}

impl InterpreterStorage for Rec {
    type DataError = Infallible;

    fn block_height(&self) -> Result<BlockHeight, Infallible> {
        self.inner.block_height()
    }

    fn consensus_parameters_version(&self) -> Result<u32, Infallible> {
        self.inner.consensus_parameters_version()
    }

    fn state_transition_version(&self) -> Result<u32, Infallible> {
        self.inner.state_transition_version()
    }

    fn timestamp(&self, height: BlockHeight) -> Result<Word, Infallible> {
        self.inner.timestamp(height)
    }

    fn block_hash(&self, block_height: BlockHeight) -> Result<Bytes32, Infallible> {
        self.inner.block_hash(block_height)
    }

    fn coinbase(&self) -> Result<ContractId, Infallible> {
        self.inner.coinbase()
    }

    fn set_consensus_parameters(
        &mut self,
        version: u32,
        consensus_parameters: &ConsensusParameters,
    ) -> Result<Option<ConsensusParameters>, Infallible> {
        self.inner
            .set_consensus_parameters(version, consensus_parameters)
    }

    fn contains_state_transition_bytecode_root(
        &self,
        root: &Bytes32,
    ) -> Result<bool, Infallible> {
        self.note(
            Table::Uploaded,
            None,
            Kind::Read,
            "contains_state_transition_bytecode_root",
        );
        self.inner.contains_state_transition_bytecode_root(root)
    }

    fn set_state_transition_bytecode(
        &mut self,
        version: u32,
        hash: &Bytes32,
    ) -> Result<Option<Bytes32>, Infallible> {
        self.inner.set_state_transition_bytecode(version, hash)
    }

    fn deploy_contract_with_id(
        &mut self,
        slots: &[StorageSlot],
        contract: &[u8],
        id: &ContractId,
    ) -> Result<(), Infallible> {
        self.note(Table::RawCode, Some(*id), Kind::Write, "deploy_contract_with_id");
        if !slots.is_empty() {
            self.note(Table::State, Some(*id), Kind::Write, "deploy_contract_with_id");
        }
        self.inner.deploy_contract_with_id(slots, contract, id)
    }

    fn storage_contract(
        &self,
        id: &ContractId,
    ) -> Result<Option<Cow<'_, Contract>>, Infallible> {
        self.note(Table::RawCode, Some(*id), Kind::Read, "storage_contract");
        self.inner.storage_contract(id)
    }

    fn storage_contract_size(&self, id: &ContractId) -> Result<Option<usize>, Infallible> {
        self.note(Table::RawCode, Some(*id), Kind::Read, "storage_contract_size");
        self.inner.storage_contract_size(id)
    }

    fn storage_contract_insert(
        &mut self,
        id: &ContractId,
        contract: &[u8],
    ) -> Result<(), Infallible> {
        self.note(Table::RawCode, Some(*id), Kind::Write, "storage_contract_insert");
        self.inner.storage_contract_insert(id, contract)
    }

    fn storage_contract_exists(&self, id: &ContractId) -> Result<bool, Infallible> {
        self.note(Table::RawCode, Some(*id), Kind::Read, "storage_contract_exists");
        self.inner.storage_contract_exists(id)
    }

    fn contract_state(
        &self,
        id: &ContractId,
        key: &Bytes32,
    ) -> Result<Option<Cow<'_, ContractsStateData>>, Infallible> {
        self.note(Table::State, Some(*id), Kind::Read, "contract_state");
        self.inner.contract_state(id, key)
    }

    fn contract_state_insert(
        &mut self,
        contract: &ContractId,
        key: &Bytes32,
        value: &[u8],
    ) -> Result<(), Infallible> {
        self.note(Table::State, Some(*contract), Kind::Write, "contract_state_insert");
        self.inner.contract_state_insert(contract, key, value)
    }

    fn contract_state_remove_range(
        &mut self,
        contract: &ContractId,
        start_key: &Bytes32,
        range: usize,
    ) -> Result<(), Infallible> {
        // The inner implementation removes from its own map without going through
        // any trait object of ours: log here.
        self.note(
            Table::State,
            Some(*contract),
            Kind::Write,
            "contract_state_remove_range",
        );
        self.inner
            .contract_state_remove_range(contract, start_key, range)
    }
}

/// What a predicate VM can reach: BlobData reads, nothing else.
struct RecP {
    inner: MemoryStorage,
    log: RefCell<Vec<Access>>,
}

impl RecP {
    fn new(inner: MemoryStorage) -> Self {
        RecP {
            inner,
            log: RefCell::new(Vec::new()),
        }
    }

    fn note(&self, method: &'static str) {
        self.log.borrow_mut().push(Access {
            table: Table::Blob,
            id: None,
            kind: Kind::Read,
            method,
        });
    }

    fn drain(&self) -> Vec<Access> {
        std::mem::take(&mut *self.log.borrow_mut())
    }
}

impl StorageInspect<BlobData> for RecP {
    type Error = Infallible;

    fn get(&self, key: &BlobId) -> Result<Option<Cow<'_, BlobBytes>>, Infallible> {
        self.note("get");
        <MemoryStorage as StorageInspect<BlobData>>::get(&self.inner, key)
    }

    fn contains_key(&self, key: &BlobId) -> Result<bool, Infallible> {
        self.note("contains_key");
        <MemoryStorage as StorageInspect<BlobData>>::contains_key(&self.inner, key)
    }
}

impl StorageSize<BlobData> for RecP {
    fn size_of_value(&self, key: &BlobId) -> Result<Option<usize>, Infallible> {
        self.note("size_of_value");
        <MemoryStorage as StorageSize<BlobData>>::size_of_value(&self.inner, key)
    }
}

impl StorageRead<BlobData> for RecP {
    fn read_exact(
        &self,
        key: &BlobId,
        offset: usize,
        buf: &mut [u8],
    ) -> Result<Result<usize, StorageReadError>, Infallible> {
        self.note("read_exact");
        <MemoryStorage as StorageRead<BlobData>>::read_exact(&self.inner, key, offset, buf)
    }

    fn read_zerofill(
        &self,
        key: &BlobId,
        offset: usize,
        buf: &mut [u8],
    ) -> Result<Result<usize, StorageReadError>, Infallible> {
        self.note("read_zerofill");
        <MemoryStorage as StorageRead<BlobData>>::read_zerofill(&self.inner, key, offset, buf)
    }

    fn read_alloc(&self, key: &BlobId) -> Result<Option<Vec<u8>>, Infallible> {
        self.note("read_alloc");
        <MemoryStorage as StorageRead<BlobData>>::read_alloc(&self.inner, key)
    }
}

impl PredicateStorageRequirements for RecP {
    fn storage_error_to_string(error: Infallible) -> String {
        format!("{error:?}")
    }
}

// ===================================================================== worlds

type RVm = Interpreter<MemoryInstance, Rec, Script>;

const SEL: u8 = 0x1f; // section selector seen by the callee
const SEL2: u8 = 0x1e; // selector handed on by section "call other"
const R_JMP: u8 = 0x1d;
const R_LEN: u8 = 0x12;
const R_STATUS: u8 = 0x13;
const R_VAL: u8 = 0x14;
const R_LEN8: u8 = 0x15;
const R_OUT: u8 = 0x16;
const R_DST: u8 = 0x10;

const SEC_NOP: u32 = 0;
const SEC_STATE: u32 = 1;
const SEC_ASSETS: u32 = 3;
const SEC_CALL_OTHER: u32 = 4;
const SEC_CALL_C: u32 = 5;
const SEC_TR_C: u32 = 8;
const SEC_CSIZ_C: u32 = 11;

fn call0(target: u8) -> Instruction {
    op::call(target, RegId::ZERO, r::ASSET_BASE, RegId::CGAS)
}

/// (name, instructions) of the sections of the body shared by contracts A and B;
/// `other` = register pointing at the call structure of the other listed contract.
fn sections(other: u8) -> Vec<(&'static str, Vec<Instruction>)> {
    let ret = op::ret(RegId::ONE);
    vec![
        ("nop", vec![ret]),
        (
            "state-legacy(key=C's id)",
            vec![
                op::movi(R_LEN, 64),
                op::aloc(R_LEN),
                op::sww(r::CALL_C, R_STATUS, RegId::ONE),
                op::srw(R_VAL, R_STATUS, r::CALL_C, 0),
                op::swwq(r::CALL_C, R_STATUS, r::PATTERN, RegId::ONE),
                op::srwq(RegId::HP, R_STATUS, r::CALL_C, RegId::ONE),
                op::scwq(r::CALL_C, R_STATUS, RegId::ONE),
                ret,
            ],
        ),
        (
            "state-dynamic(key=D's id)",
            vec![
                op::movi(R_LEN, 64),
                op::aloc(R_LEN),
                op::movi(R_LEN8, 8),
                op::swrd(r::CALL_D, r::PATTERN, R_LEN8),
                op::srdd(RegId::HP, r::CALL_D, RegId::ZERO, R_LEN8),
                op::supd(r::CALL_D, r::PATTERN, RegId::ZERO, R_LEN8),
                op::spld(R_VAL, r::CALL_D),
                op::sclr(r::CALL_D, RegId::ONE),
                ret,
            ],
        ),
        (
            "assets(sub id=C's id)",
            vec![
                op::mint(RegId::ONE, r::CALL_C),
                op::burn(RegId::ONE, r::CALL_C),
                op::bal(R_VAL, r::ASSET_X, RegId::FP),
                op::bal(R_VAL, r::ASSET_BASE, other),
                op::tr(other, RegId::ONE, r::ASSET_X),
                op::movi(R_OUT, 4),
                op::tro(r::RECIPIENT, R_OUT, RegId::ONE, r::ASSET_X),
                op::smo(r::RECIPIENT, r::PATTERN, RegId::ONE, RegId::ONE),
                ret,
            ],
        ),
        (
            "call-other(sel2)+own-state",
            vec![
                op::move_(SEL, SEL2),
                op::movi(SEL2, 0),
                call0(other),
                op::sww(r::CALL_C, R_STATUS, RegId::ONE),
                op::srw(R_VAL, R_STATUS, r::CALL_C, 0),
                ret,
            ],
        ),
        ("call C", vec![call0(r::CALL_C), ret]),
        ("call D", vec![call0(r::CALL_D), ret]),
        (
            "call C fwd 1 X",
            vec![
                op::call(r::CALL_C, RegId::ONE, r::ASSET_X, RegId::CGAS),
                ret,
            ],
        ),
        ("tr C", vec![op::tr(r::CALL_C, RegId::ONE, r::ASSET_X), ret]),
        ("tr D", vec![op::tr(r::CALL_D, RegId::ONE, r::ASSET_X), ret]),
        ("bal C", vec![op::bal(R_VAL, r::ASSET_X, r::CALL_C), ret]),
        ("csiz C", vec![op::csiz(R_VAL, r::CALL_C), ret]),
        ("csiz D", vec![op::csiz(R_VAL, r::CALL_D), ret]),
        (
            "croo C",
            vec![
                op::movi(R_LEN, 32),
                op::aloc(R_LEN),
                op::croo(RegId::HP, r::CALL_C),
                ret,
            ],
        ),
        (
            "ccp C",
            vec![
                op::movi(R_LEN, 32),
                op::aloc(R_LEN),
                op::ccp(RegId::HP, r::CALL_C, RegId::ZERO, R_LEN),
                ret,
            ],
        ),
        (
            "ldc C",
            vec![
                op::movi(R_LEN, 8),
                op::ldc(r::CALL_C, RegId::ZERO, R_LEN, 0),
                ret,
            ],
        ),
    ]
}

fn body(other: u8) -> Vec<Instruction> {
    let secs = sections(other);
    let width = secs.iter().map(|(_, s)| s.len()).max().unwrap();
    let mut code = vec![
        op::muli(R_JMP, SEL, width as u16),
        op::jmpf(R_JMP, 0),
    ];
    for (_, s) in &secs {
        code.extend(s.iter().copied());
        for _ in s.len()..width {
            code.push(op::ret(RegId::ONE));
        }
    }
    code
}

/// Execution contexts of the program under test: a fresh interpreter instance, or the
/// SAME instance after it executed a warm-up transaction whose contract inputs are
/// A, B *and C* (a trivial `ret` script / a script that calls C, so that C's context
/// was active and C's state was written — legitimately, C being an input there).
const CONTEXTS: [&str; 3] = ["fresh", "reused:ret[A,B,C]", "reused:call-C[A,B,C]"];

struct Env {
    name: &'static str,
    world: World,
    inputs: BTreeSet<ContractId>,
    /// per context: the warm-up transaction (None = fresh instance)
    warm: Vec<Option<Ready<Script>>>,
    /// per context: state of the contracts outside the inputs when the program starts
    initial: Vec<Snapshot>,
}

/// The world's transaction shape with C added to the contract inputs / outputs.
fn warm_tx(world: &World, body: &[Instruction]) -> Ready<Script> {
    let mut tx = world.tx(world.script_bytes(body), GAS);
    let idx = tx.inputs().len() as u16;
    tx.inputs_mut().push(Input::contract(
        UtxoId::new(Bytes32::new([0x1c; 32]), 0),
        Bytes32::zeroed(),
        Bytes32::zeroed(),
        TxPointer::default(),
        C,
    ));
    tx.outputs_mut()
        .push(Output::contract(idx, Bytes32::zeroed(), Bytes32::zeroed()));
    let listed: BTreeSet<ContractId> = tx
        .inputs()
        .iter()
        .filter_map(|i| match i {
            Input::Contract(c) => Some(c.contract_id),
            _ => None,
        })
        .collect();
    assert!(listed.contains(&A) && listed.contains(&B) && listed.contains(&C));
    tx.into_checked_basic(BlockHeight::new(0), &world.params)
        .expect("warm-up tx must pass basic checks")
        .test_into_ready()
}

fn make_env(name: &'static str) -> Env {
    let mut cfg = WorldCfg::default();
    cfg.code_a = body(r::CALL_B);
    cfg.code_b = body(r::CALL_A);
    cfg.code_c = vec![
        op::sww(r::CALL_C, R_STATUS, RegId::ONE),
        op::ret(RegId::ONE),
    ];
    match name {
        "rich" => {
            cfg.balances = vec![
                (A, ASSET_X, 500),
                (A, AssetId::BASE, 100),
                (B, AssetId::BASE, 300),
                (B, ASSET_X, 50),
                (C, AssetId::BASE, 70),
                (C, ASSET_X, 70),
            ];
        }
        "poor" => {
            cfg.balances = vec![(C, AssetId::BASE, 70), (C, ASSET_X, 70)];
            cfg.x_coin = 0;
        }
        other => panic!("unknown world {other}"),
    }
    let mut world = World::new(cfg);
    // C owns a state slot (so that a read of C's state would find something).
    world
        .storage
        .contract_state_insert(&C, &Bytes32::new([0x5c; 32]), &[0xcc; 32])
        .expect("infallible");
    world.storage.commit();
    world.storage.persist();
    // inputs are taken from the transaction itself
    let inputs: BTreeSet<ContractId> = world
        .template
        .inputs()
        .iter()
        .filter_map(|i| match i {
            Input::Contract(c) => Some(c.contract_id),
            _ => None,
        })
        .collect();
    assert!(inputs.contains(&A) && inputs.contains(&B) && inputs.len() == 2);
    assert!(!inputs.contains(&C) && !inputs.contains(&D));
    assert!(world.storage.storage_contract_exists(&C).unwrap());
    assert!(!world.storage.storage_contract_exists(&D).unwrap());
    let warm = vec![
        None,
        Some(warm_tx(&world, &[op::ret(RegId::ONE)])),
        Some(warm_tx(&world, &[call0(r::CALL_C), op::ret(RegId::ONE)])),
    ];
    let mut env = Env {
        name,
        world,
        inputs,
        warm,
        initial: vec![],
    };
    for c in 0..CONTEXTS.len() {
        let vm = vm_in_context(&env, c);
        let snap = snapshot(&vm.as_ref().inner, &env.inputs);
        env.initial.push(snap);
    }
    // the call-C warm-up really ran C (C's body wrote a slot of C)
    assert_eq!(env.initial[0], env.initial[1]);
    assert!(env.initial[2].state.len() > env.initial[0].state.len());
    env
}

fn class_of(id: &ContractId) -> &'static str {
    if *id == C {
        "unlisted-deployed"
    } else if *id == D {
        "unlisted-nonexistent"
    } else {
        "unlisted-other"
    }
}

fn short(id: &ContractId) -> String {
    if *id == A {
        "A".into()
    } else if *id == B {
        "B".into()
    } else if *id == C {
        "C".into()
    } else if *id == D {
        "D".into()
    } else {
        format!("{}..", hex::encode(&id.as_ref()[..6]))
    }
}

/// State of every contract outside the inputs, read from the inner storage.
#[derive(Clone, Debug, PartialEq, Eq)]
struct Snapshot {
    code: Vec<(ContractId, Option<Vec<u8>>)>,
    state: Vec<(Vec<u8>, Vec<u8>)>,
    balances: Vec<(ContractId, AssetId, Option<Word>)>,
}

fn probe_assets() -> Vec<AssetId> {
    let mut v = vec![AssetId::BASE, ASSET_X];
    // assets the bodies can mint: sha256(contract ‖ sub id), sub id = C's id bytes
    for c in [A, B, C] {
        v.push(AssetId::new(oracle::sha256(&[c.as_ref(), C.as_ref()])));
    }
    v
}

fn snapshot(st: &MemoryStorage, inputs: &BTreeSet<ContractId>) -> Snapshot {
    let outsiders = [C, D];
    let code = outsiders
        .iter()
        .map(|id| {
            (
                *id,
                st.storage_contract(id)
                    .unwrap()
                    .map(|c| Vec::<u8>::from(c.into_owned())),
            )
        })
        .collect();
    let state = st
        .all_contract_state()
        .filter(|(k, _)| !inputs.contains(k.contract_id()))
        .map(|(k, v)| (k.as_ref().to_vec(), v.as_ref().to_vec()))
        .collect();
    let mut balances = vec![];
    for id in outsiders {
        for a in probe_assets() {
            balances.push((id, a, st.contract_asset_id_balance(&id, &a).unwrap()));
        }
    }
    Snapshot {
        code,
        state,
        balances,
    }
}

// ===================================================================== alphabet

fn sel_letter(name: String, target: u8, sel: u32, sel2: u32) -> Letter {
    letter(
        &name,
        vec![op::movi(SEL, sel), op::movi(SEL2, sel2), call0(target)],
    )
}

fn alphabet() -> Vec<Letter> {
    let tg = [("A", r::CALL_A), ("C", r::CALL_C), ("D", r::CALL_D)];
    let mut v = vec![letter("ret", vec![op::ret(RegId::ONE)])];
    for (n, p) in tg {
        v.push(letter(&format!("csiz {n}"), vec![op::csiz(R_DST, p)]));
    }
    for (n, p) in tg {
        v.push(letter(
            &format!("bal {n}"),
            vec![op::bal(R_DST, r::ASSET_BASE, p)],
        ));
    }
    for (n, p) in tg {
        v.push(letter(
            &format!("tr {n}"),
            vec![op::tr(p, RegId::ONE, r::ASSET_BASE)],
        ));
    }
    for (n, p) in tg {
        v.push(letter(
            &format!("croo {n}"),
            vec![
                op::movi(R_LEN, 32),
                op::aloc(R_LEN),
                op::croo(RegId::HP, p),
            ],
        ));
    }
    for (n, p) in tg {
        v.push(letter(
            &format!("ccp {n}"),
            vec![
                op::movi(R_LEN, 32),
                op::aloc(R_LEN),
                op::ccp(RegId::HP, p, RegId::ZERO, R_LEN),
            ],
        ));
    }
    for (n, p) in tg {
        v.push(letter(
            &format!("ldc {n}"),
            vec![op::movi(R_LEN, 8), op::ldc(p, RegId::ZERO, R_LEN, 0)],
        ));
    }
    v.push(letter("call C", vec![call0(r::CALL_C)]));
    v.push(letter("call D", vec![call0(r::CALL_D)]));
    for (n, p) in tg {
        v.push(letter(
            &format!("call {n} fwd 1 base"),
            vec![
                op::movi(SEL, SEC_NOP),
                op::movi(SEL2, 0),
                op::call(p, RegId::ONE, r::ASSET_BASE, RegId::CGAS),
            ],
        ));
    }
    let secs = sections(r::CALL_B);
    for (j, (n, _)) in secs.iter().enumerate() {
        let j = j as u32;
        if j == SEC_CALL_OTHER {
            for j2 in [
                SEC_STATE,
                SEC_ASSETS,
                SEC_CALL_OTHER,
                SEC_CALL_C,
                SEC_TR_C,
                SEC_CSIZ_C,
            ] {
                v.push(sel_letter(
                    format!("call A[call B[{}]]", secs[j2 as usize].0),
                    r::CALL_A,
                    j,
                    j2,
                ));
            }
        } else {
            v.push(sel_letter(format!("call A[{n}]"), r::CALL_A, j, 0));
        }
    }
    for j in [SEC_NOP, SEC_STATE, SEC_CALL_C] {
        v.push(sel_letter(
            format!("call B[{}]", secs[j as usize].0),
            r::CALL_B,
            j,
            0,
        ));
    }
    v
}

// ===================================================================== execution + oracle

fn classify<E: core::fmt::Debug>(
    r: Result<Result<ExecuteState, InterpreterError<E>>, String>,
) -> Step {
    match r {
        Err(m) => Step::HostPanic(m),
        Ok(Ok(ExecuteState::Proceed)) => Step::Proceed,
        Ok(Ok(ExecuteState::Return(w))) => Step::Return(w),
        Ok(Ok(ExecuteState::ReturnData(d))) => Step::ReturnData(*d),
        Ok(Ok(ExecuteState::Revert(w))) => Step::Revert(w),
        Ok(Ok(ExecuteState::DebugEvent(_))) => Step::Debug,
        Ok(Err(InterpreterError::PanicInstruction(p))) => Step::Panic(*p.reason()),
        Ok(Err(InterpreterError::Panic(p))) => Step::Panic(p),
        Ok(Err(e)) => Step::Error(format!("{e:?}")),
    }
}

fn reg(vm: &RVm, id: RegId) -> u64 {
    vm.registers()[id.to_u8() as usize]
}

/// Name of the opcode at `$pc` and, for the instructions that name a contract, the id
/// their operand points at (decoded by the harness: op 8 | rA 6 | rB 6 | rC 6 | rD 6).
fn peek(vm: &RVm) -> (String, Option<ContractId>) {
    let pc = reg(vm, RegId::PC);
    let Ok(raw) = vm.memory().read_bytes::<_, 4>(pc) else {
        return ("FETCH".into(), None)
    };
    let Ok(opc) = Opcode::try_from(raw[0]) else {
        return (format!("INVALID_{:02x}", raw[0]), None)
    };
    let a = (raw[1] >> 2) as usize;
    let b = (((raw[1] & 0x3) << 4) | (raw[2] >> 4)) as usize;
    let c = (((raw[2] & 0xf) << 2) | (raw[3] >> 6)) as usize;
    let ptr_reg = match opc {
        Opcode::CALL | Opcode::TR | Opcode::LDC => Some(a),
        Opcode::CSIZ | Opcode::CROO | Opcode::CCP => Some(b),
        Opcode::BAL => Some(c),
        _ => None,
    };
    let target = ptr_reg.and_then(|r| {
        vm.memory()
            .read_bytes::<_, 32>(vm.registers()[r])
            .ok()
            .map(ContractId::new)
    });
    (format!("{opc:?}"), target)
}

#[derive(Default)]
struct ProgOut {
    findings: Vec<(String, String)>,
    hist: BTreeMap<String, u64>,
    fp: u64,
    nontrivial: bool,
    steps: u64,
    accesses: u64,
    trace: Vec<Value>,
    end: String,
}

type Multiset = BTreeMap<Access, i64>;

/// Oracle (1) for one batch of log entries attributed to `opname`.
fn judge_accesses(
    env: &Env,
    opname: &str,
    target: Option<ContractId>,
    log: &[Access],
    out: &mut ProgOut,
    unlisted: &mut Multiset,
) {
    for a in log {
        if !a.table.is_contract() {
            continue
        }
        out.accesses += 1;
        let id = a.id.expect("contract tables always carry an id");
        let who = if env.inputs.contains(&id) {
            "listed"
        } else {
            class_of(&id)
        };
        *out
            .hist
            .entry(format!("access:{}:{:?}:{}", a.table.name(), a.kind, who))
            .or_default() += 1;
        if env.inputs.contains(&id) {
            continue
        }
        *unlisted.entry(a.clone()).or_default() += 1;
        let key = if opname == "CALL"
            && a.table == Table::RawCode
            && a.kind == Kind::Read
            && is_size_query(a.method)
            && target == Some(id)
        {
            KNOWN_F5.to_string()
        } else {
            format!("C30:{opname}:{}:{}", a.table.name(), class_of(&id))
        };
        out.findings.push((
            key,
            format!(
                "{opname} {:?} {} of contract {} ({}) via {} — not among the contract inputs",
                a.kind,
                a.table.name(),
                short(&id),
                class_of(&id),
                a.method
            ),
        ));
    }
}

/// Oracle (2).
fn judge_active(env: &Env, vm: &RVm, after: &str, out: &mut ProgOut) {
    let fp = reg(vm, RegId::FP);
    if fp != 0 {
        match vm.memory().read_bytes::<_, 32>(fp) {
            Ok(b) => {
                let id = ContractId::new(b);
                if !env.inputs.contains(&id) {
                    out.findings.push((
                        format!("C30:active-contract:{}:after-{after}", class_of(&id)),
                        format!(
                            "after {after}: $fp={fp} names contract {} which is not an input",
                            short(&id)
                        ),
                    ));
                }
            }
            Err(e) => out.findings.push((
                format!("C30:active-contract:unreadable-frame:after-{after}"),
                format!("after {after}: $fp={fp} not readable: {e:?}"),
            )),
        }
    }
    if let Some(f) = vm.verif_call_stack().last() {
        if !env.inputs.contains(f.to()) {
            out.findings.push((
                format!("C30:active-contract:{}:after-{after}", class_of(f.to())),
                format!(
                    "after {after}: top call frame names contract {} which is not an input",
                    short(f.to())
                ),
            ));
        }
    }
}

/// Oracle (3).
fn judge_final(env: &Env, c: usize, st: &MemoryStorage, mode: &str, out: &mut ProgOut) {
    let now = snapshot(st, &env.inputs);
    let initial = &env.initial[c];
    if now.code != initial.code {
        out.findings.push((
            "C30:final-state:ContractsRawCode".into(),
            format!("{mode}: code of a contract outside the inputs changed"),
        ));
    }
    if now.state != initial.state {
        out.findings.push((
            "C30:final-state:ContractsState".into(),
            format!(
                "{mode}: state slots of contracts outside the inputs changed: {} -> {} entries",
                initial.state.len(),
                now.state.len()
            ),
        ));
    }
    if now.balances != initial.balances {
        let diff: Vec<String> = now
            .balances
            .iter()
            .zip(initial.balances.iter())
            .filter(|(n, o)| n != o)
            .map(|(n, o)| format!("{}: {:?} -> {:?}", short(&n.0), o.2, n.2))
            .collect();
        out.findings.push((
            "C30:final-state:ContractsAssets".into(),
            format!("{mode}: balances of contracts outside the inputs changed: {diff:?}"),
        ));
    }
}

fn fresh_vm(env: &Env) -> RVm {
    Interpreter::with_storage(
        MemoryInstance::new(),
        Rec::new(env.world.storage.clone()),
        env.world.interpreter_params(),
    )
}

/// An interpreter instance in execution context `c`: fresh, or after the warm-up
/// transaction of that context ran on it through `Interpreter::transact` (the log of
/// the warm-up is discarded: C is an input there).
fn vm_in_context(env: &Env, c: usize) -> RVm {
    let mut vm = fresh_vm(env);
    if let Some(ready) = &env.warm[c] {
        let r = guard::catch_any(|| vm.transact(ready.clone()).map(|st| *st.state()));
        match r {
            Ok(Ok(fuel_vm::state::ProgramState::Return(1))) => {}
            other => panic!("warm-up transaction {} did not return 1: {other:?}", CONTEXTS[c]),
        }
        vm.as_ref().drain();
    }
    vm
}

fn access_json(a: &Access) -> Value {
    json!(format!(
        "{:?} {} {} via {}",
        a.kind,
        a.table.name(),
        a.id.map(|i| short(&i)).unwrap_or_else(|| "-".into()),
        a.method
    ))
}

/// Run one program both ways through the oracle.
fn run_program(env: &Env, c: usize, ins: &[Instruction], want_trace: bool) -> ProgOut {
    let mut out = ProgOut::default();
    let mut all: Vec<Instruction> = ins.to_vec();
    all.push(op::ret(RegId::ONE));
    let script = env.world.script_bytes(&all);
    let mut unlisted_step: Multiset = BTreeMap::new();
    let mut sig: Vec<(String, usize, Vec<Access>, String)> = vec![];

    // ---- step by step
    let mut vm = vm_in_context(env, c);
    let init = guard::catch_any(|| vm.init_script(env.world.ready(script.clone(), GAS)));
    match init {
        Ok(Ok(())) => {}
        other => panic!("init_script of a world transaction failed: {other:?}"),
    }
    let log = vm.as_ref().drain();
    judge_accesses(env, "init", None, &log, &mut out, &mut unlisted_step);
    judge_active(env, &vm, "init", &mut out);
    let mut last = Step::Proceed;
    loop {
        if out.steps >= MAX_STEPS {
            out.end = "step-cap".into();
            break
        }
        let (opname, target) = peek(&vm);
        let depth = vm.verif_call_stack().len();
        let in_call = reg(&vm, RegId::FP) != 0;
        let s = classify(guard::catch_any(|| vm.execute::<false>()));
        out.steps += 1;
        let log = vm.as_ref().drain();
        judge_accesses(env, &opname, target, &log, &mut out, &mut unlisted_step);
        let is_final = match &s {
            Step::Proceed => false,
            Step::Return(_) | Step::ReturnData(_) => !in_call,
            _ => true,
        };
        if !is_final {
            judge_active(env, &vm, &opname, &mut out);
        }
        if let Step::HostPanic(m) = &s {
            // not this property's subject (C29), but never silently dropped
            *out.hist.entry(format!("host-panic:{opname}")).or_default() += 1;
            let _ = m;
        }
        if let Some(t) = target {
            let who = if env.inputs.contains(&t) {
                "listed"
            } else {
                class_of(&t)
            };
            let ctx = if depth == 0 { "script" } else { "nested" };
            *out
                .hist
                .entry(format!("attempt:{opname}:{ctx}:{who}:{}", s.label()))
                .or_default() += 1;
        }
        let contract_log: Vec<Access> =
            log.iter().filter(|a| a.table.is_contract()).cloned().collect();
        if !contract_log.is_empty() || target.is_some() {
            out.nontrivial = true;
        }
        if want_trace && out.steps > env.world.body_start() as u64 {
            let acc: Vec<String> = log
                .iter()
                .map(|a| access_json(a).as_str().unwrap_or("").to_string())
                .collect();
            out.trace.push(json!(format!(
                "depth {depth}: {opname}{} -> {} {acc:?}",
                target.map(|t| format!(" [{}]", short(&t))).unwrap_or_default(),
                s.label()
            )));
        }
        sig.push((opname, depth, contract_log, s.label()));
        last = s;
        if is_final {
            break
        }
    }
    if out.end.is_empty() {
        out.end = last.label();
    }
    judge_final(env, c, &vm.as_ref().inner, "step-wise", &mut out);
    out.fp = hash64(&(env.name, &sig));
    drop(vm);

    // ---- end to end
    let mut vm = vm_in_context(env, c);
    let ready = env.world.ready(script, GAS);
    let r = guard::catch_any(|| vm.transact(ready).map(|st| *st.state()));
    let tlabel = match &r {
        Ok(Ok(st)) => format!("{st:?}")
            .split('(')
            .next()
            .unwrap_or("?")
            .to_string(),
        Ok(Err(e)) => format!("error:{}", format!("{e:?}").chars().take(40).collect::<String>()),
        Err(_) => "HOST-PANIC".into(),
    };
    *out.hist.entry(format!("transact:{tlabel}")).or_default() += 1;
    let log = vm.as_ref().drain();
    let mut tmp = ProgOut::default();
    let mut unlisted_tx: Multiset = BTreeMap::new();
    judge_accesses(env, "pipeline", None, &log, &mut tmp, &mut unlisted_tx);
    for (a, n) in unlisted_tx {
        let seen = unlisted_step.get(&a).copied().unwrap_or(0);
        if n > seen {
            let id = a.id.unwrap();
            out.findings.push((
                format!("C30:pipeline:{}:{}", a.table.name(), class_of(&id)),
                format!(
                    "Interpreter::transact: {:?} {} of contract {} via {} ({} times; the step-wise run showed {})",
                    a.kind,
                    a.table.name(),
                    short(&id),
                    a.method,
                    n,
                    seen
                ),
            ));
        }
    }
    judge_final(env, c, &vm.as_ref().inner, "transact", &mut out);
    out
}

// ===================================================================== predicates

struct PredWorld {
    params: ConsensusParameters,
    storage: MemoryStorage,
    blob: BlobId,
}

fn pred_world() -> PredWorld {
    let mut storage = MemoryStorage::default();
    let code: Vec<u8> = [op::ret(RegId::ONE)].into_iter().collect();
    for id in [A, B, C] {
        storage.deploy_contract_with_id(&[], &code, &id).unwrap();
        storage
            .contract_asset_id_balance_insert(&id, &AssetId::BASE, 1000)
            .unwrap();
        storage
            .contract_state_insert(&id, &Bytes32::new([0x5c; 32]), &[0xcc; 32])
            .unwrap();
    }
    let blob = BlobId::new([0xb1; 32]);
    <MemoryStorage as StorageWrite<BlobData>>::write_bytes(&mut storage, &blob, &[7u8; 40])
        .unwrap();
    storage.commit();
    storage.persist();
    PredWorld {
        params: ConsensusParameters::standard(),
        storage,
        blob,
    }
}

const P_A: u8 = 0x20; // -> A's id (also a call structure: id | 16 bytes)
const P_ASSET: u8 = 0x22;
const P_BLOB: u8 = 0x23;

fn pred_data(w: &PredWorld) -> Vec<u8> {
    let mut d = A.to_vec();
    d.extend_from_slice(C.as_ref());
    d.extend_from_slice(AssetId::BASE.as_ref());
    d.extend_from_slice(w.blob.as_ref());
    d.extend((1..=32u8).collect::<Vec<u8>>());
    d
}

fn pred_setup() -> Vec<Instruction> {
    vec![
        op::gtf_args(P_A, RegId::ZERO, GTFArgs::InputCoinPredicateData),
        op::addi(P_ASSET, P_A, 64),
        op::addi(P_BLOB, P_A, 96),
        op::movi(R_LEN, 32),
    ]
}

/// The contract-state instructions (spec: "contract instructions" that read or write
/// contract code, storage or balances), one instance each.
fn pred_ops() -> Vec<(&'static str, Instruction)> {
    let (one, zero) = (RegId::ONE, RegId::ZERO);
    vec![
        ("BAL", op::bal(R_DST, P_ASSET, P_A)),
        ("BURN", op::burn(one, P_A)),
        ("CALL", op::call(P_A, zero, P_ASSET, RegId::CGAS)),
        ("CCP", op::ccp(RegId::HP, P_A, zero, R_LEN)),
        ("CROO", op::croo(RegId::HP, P_A)),
        ("CSIZ", op::csiz(R_DST, P_A)),
        ("LDC0", op::ldc(P_A, zero, R_LEN, 0)),
        ("MINT", op::mint(one, P_A)),
        ("SMO", op::smo(P_A, P_A, one, one)),
        ("SCWQ", op::scwq(P_A, R_STATUS, one)),
        ("SRW", op::srw(R_VAL, R_STATUS, P_A, 0)),
        ("SRWQ", op::srwq(RegId::HP, R_STATUS, P_A, one)),
        ("SWW", op::sww(P_A, R_STATUS, one)),
        ("SWWQ", op::swwq(P_A, R_STATUS, P_A, one)),
        ("TR", op::tr(P_A, one, P_ASSET)),
        ("TRO", op::tro(P_A, zero, one, P_ASSET)),
        ("SCLR", op::sclr(P_A, one)),
        ("SRDD", op::srdd(RegId::HP, P_A, zero, R_LEN)),
        ("SRDI", op::srdi(RegId::HP, P_A, zero, 8)),
        ("SWRD", op::swrd(P_A, P_A, R_LEN)),
        ("SWRI", op::swri(P_A, P_A, 8)),
        ("SUPD", op::supd(P_A, P_A, zero, R_LEN)),
        ("SUPI", op::supi(P_A, P_A, zero, 8)),
        ("SPLD", op::spld(R_VAL, P_A)),
    ]
}

fn pred_program(opname: &str, variant: &str) -> Vec<Instruction> {
    let mut p = vec![];
    if variant == "after-setup" {
        p.extend(pred_setup());
    }
    match opname {
        "ctl:ret" => {}
        "ctl:bsiz" => {
            p = pred_setup();
            p.push(op::bsiz(R_DST, P_BLOB));
        }
        _ => {
            let ins = pred_ops()
                .into_iter()
                .find(|(n, _)| *n == opname)
                .unwrap_or_else(|| panic!("unknown predicate op {opname}"))
                .1;
            p.push(ins);
        }
    }
    p.push(op::ret(RegId::ONE));
    p
}

fn pred_tx(w: &PredWorld, program: &[Instruction], gas_used: u64) -> Script {
    let predicate: Vec<u8> = program.iter().copied().collect();
    let owner = Input::predicate_owner(&predicate);
    let script: Vec<u8> = [op::ret(RegId::ONE)].into_iter().collect();
    let mut b = TransactionBuilder::script(script, vec![]);
    b.with_params(w.params.clone());
    b.script_gas_limit(10_000);
    b.max_fee_limit(0);
    b.add_input(Input::coin_predicate(
        UtxoId::new(Bytes32::new([1; 32]), 0),
        owner,
        1_000,
        *w.params.base_asset_id(),
        TxPointer::default(),
        gas_used,
        predicate,
        pred_data(w),
    ));
    for (i, id) in [A, B].iter().enumerate() {
        b.add_input(Input::contract(
            UtxoId::new(Bytes32::new([0x10 + i as u8; 32]), 0),
            Bytes32::zeroed(),
            Bytes32::zeroed(),
            TxPointer::default(),
            *id,
        ));
        b.add_output(Output::contract(
            1 + i as u16,
            Bytes32::zeroed(),
            Bytes32::zeroed(),
        ));
    }
    b.add_output(Output::change(owner, 0, *w.params.base_asset_id()));
    b.finalize()
}

#[derive(Debug)]
struct PredObs {
    outcome: String,
    rejected_as_contract_instruction: bool,
    accepted: bool,
    log: Vec<Access>,
}

fn pred_run(w: &PredWorld, program: &[Instruction], mode: &str, exact_gas: bool) -> PredObs {
    let rec = RecP::new(w.storage.clone());
    let cp = CheckPredicateParams::from(&w.params);
    let mut tx = pred_tx(w, program, 10_000);
    if exact_gas || mode == "estimate" {
        let r = guard::catch_any(|| tx.estimate_predicates(&cp, MemoryInstance::new(), &rec));
        if mode == "estimate" {
            let outcome = match &r {
                Ok(Ok(())) => "estimated".to_string(),
                Ok(Err(e)) => format!("error:{e:?}").chars().take(80).collect(),
                Err(m) => format!("HOST-PANIC {m}"),
            };
            return PredObs {
                outcome,
                rejected_as_contract_instruction: false,
                accepted: matches!(r, Ok(Ok(()))),
                log: rec.drain(),
            }
        }
        assert!(matches!(r, Ok(Ok(()))), "control estimation failed: {r:?}");
        rec.drain();
    }
    let checked = tx
        .into_checked_basic(BlockHeight::new(0), &w.params)
        .expect("predicate world tx must pass basic checks");
    let r = guard::catch_any(|| {
        checked.check_predicates(&cp, MemoryInstance::new(), &rec, NotSupportedEcal)
    });
    let (outcome, rejected, accepted) = match &r {
        Ok(Ok(_)) => ("accepted".to_string(), false, true),
        Ok(Err(CheckError::PredicateVerificationFailed(f))) => {
            let reason = match f {
                PredicateVerificationFailed::PanicInstruction { instruction, .. } => {
                    Some(*instruction.reason())
                }
                PredicateVerificationFailed::Panic { reason, .. } => Some(*reason),
                _ => None,
            };
            (
                match reason {
                    Some(r) => format!("refused:{r:?}"),
                    None => format!("refused:{f:?}").chars().take(60).collect(),
                },
                reason == Some(PanicReason::ContractInstructionNotAllowed),
                false,
            )
        }
        Ok(Err(e)) => (
            format!("error:{e:?}").chars().take(60).collect(),
            false,
            false,
        ),
        Err(m) => (format!("HOST-PANIC {m}"), false, false),
    };
    PredObs {
        outcome,
        rejected_as_contract_instruction: rejected,
        accepted,
        log: rec.drain(),
    }
}

/// Oracle (4), real path. Returns the observation for evidence.
fn pred_case(ctx: &Ctx, w: &PredWorld, opname: &str, variant: &str, mode: &str) -> PredObs {
    let program = pred_program(opname, variant);
    let obs = pred_run(w, &program, mode, false);
    let case = json!({"kind": "predicate", "op": opname, "variant": variant, "mode": mode});
    if obs.log.iter().any(|a| a.table.is_contract()) {
        ctx.violation(
            format!("C30:predicate:{opname}:contract-table-access"),
            format!("predicate [{variant}] {mode}: contract table reached: {:?}", obs.log),
            case.clone(),
        );
    }
    if mode == "verify" && !obs.rejected_as_contract_instruction {
        let class = if obs.accepted {
            "accepted"
        } else {
            "unexpected-failure"
        };
        ctx.violation(
            format!("C30:predicate:{opname}:{class}"),
            format!(
                "predicate containing {opname} [{variant}]: expected refusal with ContractInstructionNotAllowed, observed {}",
                obs.outcome
            ),
            case,
        );
    }
    obs
}

/// Oracle (4), storage layer: every contract-table operation offered by the storage a
/// predicate VM runs on must be refused. Returns the number of probes.
fn probe_predicate_storage(ctx: &Ctx, w: &PredWorld) -> usize {
    let rec = RecP::new(w.storage.clone());
    let mut ps = PredicateStorage::new(&rec);
    let skey = ContractsStateKey::new(&A, &Bytes32::new([0x5c; 32]));
    let akey = ContractsAssetKey::new(&A, &AssetId::BASE);
    let k32 = Bytes32::new([0x5c; 32]);
    let mut buf = [0u8; 8];
    let code4: &[u8] = &[1, 2, 3, 4];
    let val32: &[u8] = &[9u8; 32];
    let mut results: Vec<(&'static str, &'static str, Result<(), PredicateStorageError>)> =
        vec![];
    macro_rules! p {
        ($tab:expr, $m:expr, $e:expr) => {
            results.push(($tab, $m, $e.map(|_| ())));
        };
    }
    const RC: &str = "ContractsRawCode";
    const ST: &str = "ContractsState";
    const AS: &str = "ContractsAssets";
    p!(RC, "get", StorageInspect::<ContractsRawCode>::get(&ps, &A));
    p!(RC, "contains_key", StorageInspect::<ContractsRawCode>::contains_key(&ps, &A));
    p!(RC, "size_of_value", StorageSize::<ContractsRawCode>::size_of_value(&ps, &A));
    p!(RC, "read_exact", StorageRead::<ContractsRawCode>::read_exact(&ps, &A, 0, &mut buf[..4]));
    p!(RC, "read_zerofill", StorageRead::<ContractsRawCode>::read_zerofill(&ps, &A, 0, &mut buf));
    p!(RC, "read_alloc", StorageRead::<ContractsRawCode>::read_alloc(&ps, &A));
    p!(RC, "insert", StorageMutate::<ContractsRawCode>::insert(&mut ps, &A, code4));
    p!(RC, "replace", StorageMutate::<ContractsRawCode>::replace(&mut ps, &A, code4));
    p!(RC, "remove", StorageMutate::<ContractsRawCode>::remove(&mut ps, &A));
    p!(RC, "take", StorageMutate::<ContractsRawCode>::take(&mut ps, &A));
    p!(RC, "write_bytes", StorageWrite::<ContractsRawCode>::write_bytes(&mut ps, &A, code4));
    p!(RC, "replace_bytes", StorageWrite::<ContractsRawCode>::replace_bytes(&mut ps, &A, code4));
    p!(RC, "take_bytes", StorageWrite::<ContractsRawCode>::take_bytes(&mut ps, &A));
    p!(RC, "storage_contract", ps.storage_contract(&A));
    p!(RC, "storage_contract_size", ps.storage_contract_size(&A));
    p!(RC, "storage_contract_exists", ps.storage_contract_exists(&A));
    p!(RC, "storage_contract_insert", ps.storage_contract_insert(&A, code4));
    p!(RC, "deploy_contract_with_id", ps.deploy_contract_with_id(&[], code4, &A));

    p!(ST, "get", StorageInspect::<ContractsState>::get(&ps, &skey));
    p!(ST, "contains_key", StorageInspect::<ContractsState>::contains_key(&ps, &skey));
    p!(ST, "size_of_value", StorageSize::<ContractsState>::size_of_value(&ps, &skey));
    p!(ST, "read_exact", StorageRead::<ContractsState>::read_exact(&ps, &skey, 0, &mut buf));
    p!(ST, "read_zerofill", StorageRead::<ContractsState>::read_zerofill(&ps, &skey, 0, &mut buf));
    p!(ST, "read_alloc", StorageRead::<ContractsState>::read_alloc(&ps, &skey));
    p!(ST, "insert", StorageMutate::<ContractsState>::insert(&mut ps, &skey, val32));
    p!(ST, "replace", StorageMutate::<ContractsState>::replace(&mut ps, &skey, val32));
    p!(ST, "remove", StorageMutate::<ContractsState>::remove(&mut ps, &skey));
    p!(ST, "take", StorageMutate::<ContractsState>::take(&mut ps, &skey));
    p!(ST, "write_bytes", StorageWrite::<ContractsState>::write_bytes(&mut ps, &skey, val32));
    p!(ST, "replace_bytes", StorageWrite::<ContractsState>::replace_bytes(&mut ps, &skey, val32));
    p!(ST, "take_bytes", StorageWrite::<ContractsState>::take_bytes(&mut ps, &skey));
    p!(ST, "contract_state", ps.contract_state(&A, &k32));
    p!(ST, "contract_state_insert", ps.contract_state_insert(&A, &k32, val32));
    p!(ST, "contract_state_remove_range", ps.contract_state_remove_range(&A, &k32, 1));

    p!(AS, "get", StorageInspect::<ContractsAssets>::get(&ps, &akey));
    p!(AS, "contains_key", StorageInspect::<ContractsAssets>::contains_key(&ps, &akey));
    p!(AS, "insert", StorageMutate::<ContractsAssets>::insert(&mut ps, &akey, &5));
    p!(AS, "replace", StorageMutate::<ContractsAssets>::replace(&mut ps, &akey, &5));
    p!(AS, "remove", StorageMutate::<ContractsAssets>::remove(&mut ps, &akey));
    p!(AS, "take", StorageMutate::<ContractsAssets>::take(&mut ps, &akey));
    p!(AS, "contract_asset_id_balance", ps.contract_asset_id_balance(&A, &AssetId::BASE));
    p!(AS, "contract_asset_id_balance_insert", ps.contract_asset_id_balance_insert(&A, &AssetId::BASE, 5));
    p!(AS, "contract_asset_id_balance_replace", ps.contract_asset_id_balance_replace(&A, &AssetId::BASE, 5));

    let n = results.len();
    for (tab, m, r) in results {
        if !matches!(r, Err(PredicateStorageError::UnsupportedStorageOperation)) {
            ctx.violation(
                format!("C30:predicate-storage:{tab}:{m}:not-refused"),
                format!(
                    "PredicateStorage::<&RecP>::{m} on {tab} answered {r:?} instead of refusing with UnsupportedStorageOperation"
                ),
                json!({"kind": "predicate-storage"}),
            );
        }
    }
    let log = rec.drain();
    if !log.is_empty() {
        ctx.violation(
            "C30:predicate-storage:forwarded-to-backend",
            format!("contract-table probes reached the backing storage: {log:?}"),
            json!({"kind": "predicate-storage"}),
        );
    }
    n
}

fn explore_predicates(ctx: &Ctx) {
    let w = pred_world();
    // controls: the path runs predicates, and the monitor sees what a predicate can reach
    let c1 = pred_run(&w, &pred_program("ctl:ret", "bare"), "verify", true);
    let c2 = pred_run(&w, &pred_program("ctl:bsiz", "bare"), "verify", true);
    assert!(c1.accepted, "control predicate `ret 1` was not accepted: {c1:?}");
    assert!(
        c2.accepted && c2.log.iter().any(|a| a.table == Table::Blob),
        "control predicate `bsiz` must be accepted and its blob read must be logged: {c2:?}"
    );
    let mut hist: BTreeMap<String, u64> = BTreeMap::new();
    let mut n = 0u64;
    for (opname, _) in pred_ops() {
        for variant in ["bare", "after-setup"] {
            for mode in ["verify", "estimate"] {
                let obs = pred_case(ctx, &w, opname, variant, mode);
                n += 1;
                *hist
                    .entry(format!("predicate:{mode}:{}", obs.outcome))
                    .or_default() += 1;
                ctx.fp_of(&("pred", opname, variant, mode, &obs.outcome));
                if opname == "SRW" && variant == "after-setup" && mode == "verify" {
                    ctx.sample(json!({
                        "kind": "predicate", "op": opname, "variant": variant, "mode": mode,
                        "program": format!("{:?}", pred_program(opname, variant)),
                        "outcome": obs.outcome, "storage_log": obs.log.iter().map(access_json).collect::<Vec<_>>(),
                    }));
                }
            }
        }
    }
    ctx.evals(n + 2);
    ctx.outcomes_merge(&hist);
    let probes = probe_predicate_storage(ctx, &w);
    ctx.evals(probes as u64);
    ctx.sample(json!({
        "kind": "predicate-control", "program": "setup; bsiz; ret 1", "outcome": c2.outcome,
        "storage_log": c2.log.iter().map(access_json).collect::<Vec<_>>(),
    }));
    ctx.set(
        "predicates",
        json!({
            "ops": pred_ops().iter().map(|(n, _)| *n).collect::<Vec<_>>(),
            "variants": ["bare", "after-setup"],
            "modes": ["verify (Checked::check_predicates)", "estimate (EstimatePredicates::estimate_predicates)"],
            "cases": n,
            "controls": {"ret 1": c1.outcome, "bsiz blob": c2.outcome, "bsiz blob log entries": c2.log.len()},
            "predicate_storage_probes": probes,
        }),
    );
}

// ===================================================================== driver

#[derive(Default)]
struct Acc {
    viols: BTreeMap<String, (String, Value)>,
    viol_counts: BTreeMap<String, u64>,
    hist: BTreeMap<String, u64>,
    fps: HashSet<u64>,
    n: u64,
    runs: u64,
    nontrivial: u64,
    steps: u64,
    accesses: u64,
    samples: Vec<(u64, Vec<u64>)>,
}

fn case_json(env: &Env, c: usize, alpha: &[Letter], seq: &[u64]) -> Value {
    json!({
        "kind": "program",
        "world": env.name,
        "context": CONTEXTS[c],
        "seq": seq,
        "letters": progkit::program_names(alpha, seq),
    })
}

/// One report per key and world (the driver's occurrence counter therefore counts
/// worlds); the number of programs showing each key goes to the evidence.
fn report(ctx: &Ctx, acc: &mut Acc) {
    for (key, (what, case)) in std::mem::take(&mut acc.viols) {
        ctx.violation(key, what, case);
    }
}

fn explore_programs(ctx: &Ctx) {
    let alpha = alphabet();
    let k = ctx.pick(3u32, 4u32);
    let envs: Vec<Env> = ["rich", "poor"].into_iter().map(make_env).collect();
    let total = space::seq_count(alpha.len() as u64, k);
    let mut per_world = serde_json::Map::new();
    let mut f5: BTreeMap<String, u64> = BTreeMap::new();
    for env in &envs {
        // shortest first; lengths are completed one after the other so that a cap
        // can name the completed bound
        let mut done_len: i64 = -1;
        let mut acc_total = Acc::default();
        let mut start = 0u64;
        for len in 0..=k {
            let n_len = (alpha.len() as u64).pow(len);
            if ctx.out_of_time() {
                ctx.cap(format!(
                    "world {}: stopped before length {len} (time budget); lengths <= {done_len} complete",
                    env.name
                ));
                break
            }
            let base = start;
            space::par_chunks(
                n_len,
                256,
                Acc::default,
                |i, acc: &mut Acc| {
                    let idx = base + i;
                    let (seq, ins) = progkit::program_at(&alpha, k, idx);
                    acc.n += 1;
                    let mut seen = BTreeSet::new();
                    for c in 0..CONTEXTS.len() {
                        // length <= 3: every context; length 4 (thorough only): the
                        // fresh context and one reused context, alternating by index
                        if seq.len() > 3 && c != 0 && c != 1 + (idx % 2) as usize {
                            continue
                        }
                        acc.runs += 2;
                        let out = run_program(env, c, &ins, false);
                        acc.steps += out.steps;
                        acc.accesses += out.accesses;
                        for (k2, v) in &out.hist {
                            *acc.hist.entry(k2.clone()).or_default() += v;
                        }
                        *acc
                            .hist
                            .entry(format!("end:{}:{}", CONTEXTS[c], out.end))
                            .or_default() += 1;
                        if out.nontrivial {
                            if c == 0 {
                                acc.nontrivial += 1;
                            }
                            acc.fps.insert(out.fp);
                        }
                        for (key, what) in out.findings {
                            if !seen.insert(key.clone()) {
                                continue
                            }
                            *acc.viol_counts.entry(key.clone()).or_default() += 1;
                            acc.viols.entry(key).or_insert_with(|| {
                                (
                                    format!("[{}] {what}", CONTEXTS[c]),
                                    case_json(env, c, &alpha, &seq),
                                )
                            });
                        }
                        if c == 0
                            && seq.len() >= 2
                            && out.accesses >= 6
                            && acc.samples.len() < 2
                        {
                            acc.samples.push((idx, seq.clone()));
                        }
                    }
                },
                |a| {
                    let t = &mut acc_total;
                    t.n += a.n;
                    t.runs += a.runs;
                    t.nontrivial += a.nontrivial;
                    t.steps += a.steps;
                    t.accesses += a.accesses;
                    for (k2, v) in a.hist {
                        *t.hist.entry(k2).or_default() += v;
                    }
                    t.fps.extend(a.fps);
                    for (key, n) in a.viol_counts {
                        *t.viol_counts.entry(key).or_default() += n;
                    }
                    for (key, v) in a.viols {
                        t.viols.entry(key).or_insert(v);
                    }
                    if t.samples.len() < 40 {
                        t.samples.extend(a.samples);
                    }
                },
            );
            start += n_len;
            done_len = len as i64;
        }
        ctx.evals(acc_total.runs);
        ctx.fps_merge(acc_total.fps.iter().copied());
        for (k2, v) in &acc_total.hist {
            if k2.starts_with("attempt:CALL:") && !k2.contains(":listed:") {
                *f5.entry(k2.clone()).or_default() += v;
            }
        }
        ctx.outcomes_merge(&acc_total.hist);
        // samples: a short program, and two spread over the longer ones
        let nested_f5: (u64, Vec<u64>) = (
            0,
            vec![alpha
                .iter()
                .position(|l| l.name == "call A[call B[call C]]")
                .expect("letter") as u64],
        );
        let picks: Vec<&(u64, Vec<u64>)> = {
            let s = &acc_total.samples;
            let mut p = vec![];
            if env.name == "rich" {
                p.push(&nested_f5);
                if s.len() > 2 {
                    p.push(&s[0]);
                    p.push(&s[s.len() / 2]);
                }
            } else if !s.is_empty() {
                p.push(&s[s.len() / 3]);
                p.push(&s[s.len() - 1]);
            }
            p
        };
        for (n, (_, seq)) in picks.into_iter().enumerate() {
            let ins: Vec<Instruction> = seq
                .iter()
                .flat_map(|i| alpha[*i as usize].ins.iter().copied())
                .collect();
            let c = n % CONTEXTS.len();
            let out = run_program(env, c, &ins, true);
            ctx.sample(json!({
                "kind": "program", "world": env.name, "context": CONTEXTS[c],
                "letters": progkit::program_names(&alpha, seq),
                "steps_after_prelude": out.trace,
                "end": out.end,
            }));
        }
        per_world.insert(
            env.name.to_string(),
            json!({
                "programs": acc_total.n,
                "contexts_per_program": CONTEXTS,
                "context_rule": "length <= 3: all contexts; length 4: fresh + one reused context alternating by program index",
                "runs": acc_total.runs,
                "of_total": total,
                "completed_length": done_len,
                "nontrivial_programs": acc_total.nontrivial,
                "distinct_traces": acc_total.fps.len(),
                "instructions_executed_stepwise": acc_total.steps,
                "contract_table_accesses_judged": acc_total.accesses,
                "inputs": env.inputs.iter().map(short).collect::<Vec<_>>(),
                "programs_per_finding_key": acc_total.viol_counts,
            }),
        );
        report(ctx, &mut acc_total);
    }
    ctx.set("k", json!(k));
    ctx.set(
        "alphabet_A30",
        json!(alpha.iter().map(|l| l.name.clone()).collect::<Vec<_>>()),
    );
    ctx.set("alphabet_size", json!(alpha.len()));
    ctx.set(
        "contract_body_sections",
        json!(sections(r::CALL_B).iter().map(|(n, s)| format!("{n}: {} ins", s.len())).collect::<Vec<_>>()),
    );
    ctx.set("worlds", Value::Object(per_world));
    ctx.set("F5_call_to_unlisted_outcomes", json!(f5));
}

fn explore(ctx: &Ctx) {
    ctx.rule(
        "A: for each world all sequences of length <= k over A30, shortest first, each in 3 execution contexts (length 4: fresh + one reused, alternating) (fresh \
         interpreter instance; same instance after a warm-up transaction `ret` with contract inputs A,B,C; same instance \
         after a warm-up transaction that calls C with inputs A,B,C), each run step-wise and through \
         Interpreter::transact over the recording storage; B: 24 contract-state opcodes x 2 positions x {verify, estimate} \
         as coin predicates through Checked::check_predicates / estimate_predicates, plus 43 direct contract-table calls on \
         PredicateStorage. Non-trivial program = at least one contract-table access logged or one contract-naming \
         instruction (CALL TR LDC CSIZ CROO CCP BAL) executed; distinct = distinct (world, per-step (opcode, call depth, \
         contract-table accesses, result)) traces; predicates: distinct (op, position, mode, outcome)",
    );
    ctx.assume("MemoryStorage (trusted test backend) answers the delegated calls faithfully");
    ctx.assume(
        "the interpreter reaches storage only through the traits InterpreterStorage requires (type system); \
         the per-VM storage_slot_cache may answer repeated slot reads without a storage call — such reads do not touch storage",
    );
    ctx.assume(
        "predicate VMs run on fuel_vm::storage::predicate::PredicateStorage<D>, D: PredicateStorageRequirements (type system): \
         the backend D can only be asked for BlobData, so 'zero contract-table accesses' on the real path is checked by the \
         RecP log plus the direct probe of PredicateStorage's own contract-table methods",
    );
    ctx.set(
        "dont_care",
        json!([
            "which panic reason an instruction naming an unlisted contract ends with (ContractNotInInputs / ContractNotFound / other); only the storage accesses are judged",
            "accesses to BlobData and UploadedBytecodes",
            "which listed contract (A or B) an access names — the statement only demands membership in the inputs",
            "outcome of predicate *estimation* for a contract opcode (the repository reports Ok with the gas used); only its storage log is judged",
            "registers / memory / receipts after a panic",
            "host panics (C29's subject): counted in the histogram, not judged here",
        ]),
    );
    explore_predicates(ctx);
    explore_programs(ctx);
}

fn replay(case: &Value, ctx: &Ctx) {
    match case["kind"].as_str() {
        Some("program") => {
            let env = make_env(match case["world"].as_str() {
                Some("rich") => "rich",
                Some("poor") => "poor",
                other => panic!("unknown world {other:?}"),
            });
            let alpha = alphabet();
            let seq: Vec<u64> = serde_json::from_value(case["seq"].clone()).expect("seq");
            let ins: Vec<Instruction> = seq
                .iter()
                .flat_map(|i| alpha[*i as usize].ins.iter().copied())
                .collect();
            let trace = std::env::var("C30_TRACE").is_ok();
            let c = match case["context"].as_str() {
                None => 0, // replay files written before contexts existed
                Some(name) => CONTEXTS
                    .iter()
                    .position(|x| *x == name)
                    .unwrap_or_else(|| panic!("unknown context {name}")),
            };
            let out = run_program(&env, c, &ins, trace);
            if trace {
                for t in &out.trace {
                    eprintln!("  {t}");
                }
                eprintln!("  end={} hist={:?}", out.end, out.hist);
            }
            for (key, what) in out.findings {
                ctx.violation(key, what, case.clone());
            }
        }
        Some("predicate") => {
            let w = pred_world();
            pred_case(
                ctx,
                &w,
                case["op"].as_str().expect("op"),
                case["variant"].as_str().expect("variant"),
                case["mode"].as_str().expect("mode"),
            );
        }
        Some("predicate-storage") => {
            let w = pred_world();
            probe_predicate_storage(ctx, &w);
        }
        other => panic!("unknown case kind {other:?}"),
    }
}

fn main() {
    run_check("C30", Level::Exploration, explore, replay)
}
