//! C17 — Signing, recovery and verification are mutually consistent.
//!
//! Space (finite, fully enumerated; G = 8 quick / 16 thorough, E = 6 quick / 12 thorough):
//!   ECDSA   three schemes: `k1` (public API `fuel_crypto::{Signature, SecretKey}`),
//!           `k1-k256` (the no-std backend through the hook module, library part only)
//!           and `r1` (`fuel_crypto::secp256r1`). For each scheme G keys × G messages;
//!           for every produced signature: the signature itself, the signature against
//!           each of the other G−1 messages, and each of its 512 single-bit flips.
//!   Ed25519 E key pairs × E messages (lengths 0..1000) signed with ed25519-dalek; per
//!           signature: valid, 512 signature bit flips, 256 public-key bit flips,
//!           message variants, other messages / other keys, s + k·L re-encodings
//!           (k = 1..15 while < 2^256); plus the small-order family: 14 encodings of
//!           the 8 torsion points (8 canonical + 6 non-canonical) as public key and/or
//!           R, with s ∈ {0, L}, and mixed with honest keys / honest signatures; and for
//!           every seed × message the constructed signature R = small-order encoding
//!           (8 canonical), s = SHA512(R‖A‖M)·a mod L, which for R = identity satisfies
//!           the cofactorless equation under the honest key (self-checked: plain
//!           verification accepts it, strict rejects it).
//!   VM      every (signature, message[, key]) above is also executed as one
//!           ECK1 / ECR1 / ED19 instruction on a prepared interpreter (operands in the
//!           heap, output area pre-filled with 0xAA).
//!
//! Oracle (from the statement):
//!   * produced ECDSA signatures are normalised: 1 <= r < n, 1 <= s <= n/2 (so bit 255
//!     of s is free and carries the recovery bit); recover == signer's key; verify Ok;
//!     key 1 derives the curve generator;
//!   * against any other message of the grid, recover does not return the signer's key
//!     (and k1 verify rejects);
//!   * a signature with one flipped bit never recovers the signer's key and (k1) never
//!     verifies — except the recovery-bit flip under verify, which ignores that bit
//!     (don't-care);
//!   * `fuel_crypto::ed25519::verify` accepts exactly when
//!     `ed25519_dalek::VerifyingKey::verify_strict` accepts (reference; undecodable
//!     key = reject);
//!   * instruction result == library result: `$err` = 0 and the 64 output bytes = key,
//!     or `$err` = 1 and 64 zero bytes (ED19: `$err` only); the instruction proceeds
//!     and `$pc` advances by 4.
//!
//! Keys: `C17:<scheme>:<operation>:<case class>:<what>`.

use std::collections::{
    BTreeMap,
    HashSet,
};

use ed25519_dalek::{
    Signer,
    Verifier,
};
use fuel_asm::{
    op,
    RegId,
};
use fuel_crypto::{
    verif_hooks::k256 as kb,
    Message,
    PublicKey,
    SecretKey,
    Signature,
};
use fuel_types::{
    Bytes32,
    Bytes64,
};
use vcore::{
    guard,
    json,
    oracle::{
        sha256,
        Big,
    },
    run::hash64,
    run_check,
    space,
    vmkit::{
        self,
        Step,
        Vm,
    },
    Ctx,
    Level,
    Value,
};

// ------------------------------------------------------------------ constants

const K1_N: &str = "fffffffffffffffffffffffffffffffebaaedce6af48a03bbfd25e8cd0364141";
const R1_N: &str = "ffffffff00000000ffffffffffffffffbce6faada7179e84f3b9cac2fc632551";
const K1_G: &str = "79be667ef9dcbbac55a06295ce870b07029bfcdb2dce28d959f2815b16f81798\
                    483ada7726a3c4655da4fbfc0e1108a8fd17b448a68554199c47d08ffb10d4b8";
const R1_G: &str = "6b17d1f2e12c4247f8bce6e563a440f277037d812deb33a0f4a13945d898c296\
                    4fe342e2fe1a7f9b8ee7eb4a7c0f9e162bce33576b315ececbb6406837bf51f5";
/// Ed25519 group order L, big-endian hex.
const ED_L: &str = "1000000000000000000000000000000014def9dea2f79cd65812631a5cf5d3ed";

/// The 8 points of small order (canonical encodings) followed by 6 non-canonical
/// encodings of small-order points (RFC 8032 decoding accepts some of them).
const TORSION: [&str; 14] = [
    "0100000000000000000000000000000000000000000000000000000000000000",
    "ecffffffffffffffffffffffffffffffffffffffffffffffffffffffffffff7f",
    "0000000000000000000000000000000000000000000000000000000000000000",
    "0000000000000000000000000000000000000000000000000000000000000080",
    "26e8958fc2b227b045c3f489f2ef98f0d5dfac05d3c63339b13802886d53fc05",
    "26e8958fc2b227b045c3f489f2ef98f0d5dfac05d3c63339b13802886d53fc85",
    "c7176a703d4dd84fba3c0b760d10670f2a2053fa2c39ccc64ec7fd7792ac037a",
    "c7176a703d4dd84fba3c0b760d10670f2a2053fa2c39ccc64ec7fd7792ac03fa",
    "0100000000000000000000000000000000000000000000000000000000000080",
    "ecffffffffffffffffffffffffffffffffffffffffffffffffffffffffffffff",
    "eeffffffffffffffffffffffffffffffffffffffffffffffffffffffffffff7f",
    "eeffffffffffffffffffffffffffffffffffffffffffffffffffffffffffffff",
    "edffffffffffffffffffffffffffffffffffffffffffffffffffffffffffff7f",
    "edffffffffffffffffffffffffffffffffffffffffffffffffffffffffffffff",
];

fn big_hex(h: &str) -> Big {
    Big::from_be(&hex::decode(h).unwrap())
}
fn arr<const N: usize>(v: &[u8]) -> [u8; N] {
    let mut a = [0u8; N];
    a.copy_from_slice(v);
    a
}
fn hexarr<const N: usize>(h: &str) -> [u8; N] {
    arr(&hex::decode(h.replace(char::is_whitespace, "")).unwrap())
}

// ------------------------------------------------------------------ accumulators

#[derive(Default)]
struct Acc {
    evals: u64,
    fps: HashSet<u64>,
    outcomes: BTreeMap<String, u64>,
    viols: Vec<(String, String, Value, u64)>,
    samples: Vec<(String, Value)>,
    vm: Option<VmBox>,
    ed_discriminating: u64,
    ed_forged_identity_r: u64,
}

impl Acc {
    fn out(&mut self, l: &str) {
        *self.outcomes.entry(l.to_string()).or_insert(0) += 1;
    }
    fn viol(&mut self, key: String, what: String, case: &Value) {
        self.viol_n(key, what, case, 1)
    }
    fn viol_n(&mut self, key: String, what: String, case: &Value, n: u64) {
        if let Some(e) = self.viols.iter_mut().find(|e| e.0 == key) {
            e.3 += n;
        } else {
            self.viols.push((key, what, case.clone(), n));
        }
    }
    fn report(self, ctx: &Ctx) {
        for (k, w, c, n) in self.viols {
            for _ in 0..n {
                ctx.violation(k.clone(), w.clone(), c.clone());
            }
        }
    }
    fn sample(&mut self, slot: &str, v: impl FnOnce() -> Value) {
        if !self.samples.iter().any(|(s, _)| s == slot) {
            self.samples.push((slot.to_string(), v()));
        }
    }
    fn vm(&mut self) -> &mut VmBox {
        self.vm.get_or_insert_with(VmBox::new)
    }
}

fn merge(t: &mut Acc, p: Acc) {
    t.evals += p.evals;
    t.fps.extend(p.fps);
    for (k, v) in p.outcomes {
        *t.outcomes.entry(k).or_insert(0) += v;
    }
    for (k, w, c, n) in p.viols {
        t.viol_n(k, w, &c, n);
    }
    for (s, v) in p.samples {
        t.sample(&s, || v);
    }
    t.ed_discriminating += p.ed_discriminating;
    t.ed_forged_identity_r += p.ed_forged_identity_r;
}

// ------------------------------------------------------------------ VM side

/// One prepared interpreter: 8 KiB of heap owned by the script context.
/// Layout from `base`: [0,64) output, [64,128) signature, [128,160) message hash or
/// Ed25519 public key, [256, 256+len) Ed25519 message.
struct VmBox {
    vm: Vm,
    base: u64,
    pc0: u64,
}

const HEAP: u64 = 8192;
const R_OUT: u8 = 0x10;
const R_SIG: u8 = 0x11;
const R_MSG: u8 = 0x12;
const R_LEN: u8 = 0x13;
const R_KEY: u8 = 0x14;

struct VmOut {
    step: Step,
    err: u64,
    out: [u8; 64],
    pc_delta: u64,
}

impl VmBox {
    fn new() -> Self {
        let mut vm = vmkit::vm_for_script(&[op::ret(RegId::ONE)], vec![], 1_000_000);
        vmkit::set_reg(&mut vm, R_OUT as usize, HEAP);
        let s = vmkit::inject(&mut vm, op::aloc(R_OUT));
        assert_eq!(s, Step::Proceed, "ALOC in the harness prelude");
        let base = vmkit::reg(&vm, RegId::HP);
        let pc0 = vmkit::reg(&vm, RegId::PC);
        VmBox {
            vm,
            base,
            pc0,
        }
    }

    /// `err_preset`: value put into `$err` before the instruction (the caller passes
    /// the opposite of the expected outcome, so the instruction has to write it).
    fn prepare(&mut self, sig: &[u8; 64], err_preset: u64) {
        let b = self.base;
        let vm = &mut self.vm;
        vmkit::set_reg(vm, RegId::PC.to_u8() as usize, self.pc0);
        vmkit::set_reg(vm, RegId::CGAS.to_u8() as usize, 1 << 40);
        vmkit::set_reg(vm, RegId::GGAS.to_u8() as usize, 1 << 40);
        vmkit::set_reg(vm, RegId::ERR.to_u8() as usize, err_preset);
        vmkit::set_reg(vm, R_OUT as usize, b);
        vmkit::set_reg(vm, R_SIG as usize, b + 64);
        vmkit::set_reg(vm, R_MSG as usize, b + 128);
        let m = vm.memory_mut();
        m.write_bytes_noownerchecks(b, [0xaau8; 64]).expect("heap write");
        m.write_bytes_noownerchecks(b + 64, *sig).expect("heap write");
    }

    fn finish(&mut self, step: Step) -> VmOut {
        let out: [u8; 64] = self.vm.memory().read_bytes(self.base).expect("heap read");
        VmOut {
            step,
            err: vmkit::reg(&self.vm, RegId::ERR),
            out,
            pc_delta: vmkit::reg(&self.vm, RegId::PC).wrapping_sub(self.pc0),
        }
    }

    /// ECK1 (r1 = false) or ECR1 (r1 = true).
    fn recover(&mut self, r1: bool, sig: &[u8; 64], msg: &[u8; 32], err_preset: u64) -> VmOut {
        self.prepare(sig, err_preset);
        self.vm.memory_mut().write_bytes_noownerchecks(self.base + 128, *msg).expect("heap write");
        let ins = if r1 {
            op::ecr1(R_OUT, R_SIG, R_MSG)
        } else {
            op::eck1(R_OUT, R_SIG, R_MSG)
        };
        let step = vmkit::inject(&mut self.vm, ins);
        self.finish(step)
    }

    /// ED19 with the length register set to `len_reg`.
    fn ed19(&mut self, pk: &[u8; 32], sig: &[u8; 64], msg: &[u8], len_reg: u64, err_preset: u64) -> VmOut {
        self.prepare(sig, err_preset);
        let b = self.base;
        vmkit::set_reg(&mut self.vm, R_KEY as usize, b + 128);
        vmkit::set_reg(&mut self.vm, R_MSG as usize, b + 256);
        vmkit::set_reg(&mut self.vm, R_LEN as usize, len_reg);
        let m = self.vm.memory_mut();
        m.write_bytes_noownerchecks(b + 128, *pk).expect("heap write");
        m.write_noownerchecks(b + 256, msg.len()).expect("heap write").copy_from_slice(msg);
        let step = vmkit::inject(&mut self.vm, op::ed19(R_KEY, R_SIG, R_MSG, R_LEN));
        self.finish(step)
    }
}

// ------------------------------------------------------------------ ECDSA schemes

#[derive(Clone, Copy, PartialEq, Eq, Debug)]
enum Scheme {
    K1,
    K1K256,
    R1,
}

impl Scheme {
    fn name(self) -> &'static str {
        match self {
            Scheme::K1 => "k1",
            Scheme::K1K256 => "k1-k256",
            Scheme::R1 => "r1",
        }
    }
    fn from_name(s: &str) -> Scheme {
        match s {
            "k1" => Scheme::K1,
            "k1-k256" => Scheme::K1K256,
            "r1" => Scheme::R1,
            o => panic!("unknown scheme {o}"),
        }
    }
    fn order(self) -> Big {
        match self {
            Scheme::R1 => big_hex(R1_N),
            _ => big_hex(K1_N),
        }
    }
    fn generator(self) -> [u8; 64] {
        match self {
            Scheme::R1 => hexarr(R1_G),
            _ => hexarr(K1_G),
        }
    }
    fn vm_op(self) -> Option<(&'static str, bool)> {
        match self {
            Scheme::K1 => Some(("ECK1", false)),
            Scheme::R1 => Some(("ECR1", true)),
            Scheme::K1K256 => None,
        }
    }
    fn has_verify(self) -> bool {
        true
    }

    fn k1_secret(key: &[u8; 32]) -> SecretKey {
        SecretKey::try_from(Bytes32::from(*key)).expect("harness keys are in 1..n-1")
    }
    fn r1_secret(key: &[u8; 32]) -> p256::ecdsa::SigningKey {
        p256::ecdsa::SigningKey::from_slice(key).expect("harness keys are in 1..n-1")
    }

    fn public_key(self, key: &[u8; 32]) -> Result<[u8; 64], String> {
        guard::catch_any(|| match self {
            Scheme::K1 => *Self::k1_secret(key).public_key(),
            Scheme::K1K256 => *kb::public_key(&Self::k1_secret(key)),
            Scheme::R1 => fuel_crypto::secp256r1::encode_pubkey(*Self::r1_secret(key).verifying_key()),
        })
    }

    /// Ok(Ok(sig)) / Ok(Err(error text)) / Err(panic text)
    fn sign(self, key: &[u8; 32], msg: &[u8; 32]) -> Result<Result<[u8; 64], String>, String> {
        let m = Message::from_bytes(*msg);
        guard::catch_any(|| match self {
            Scheme::K1 => Ok(*Signature::sign(&Self::k1_secret(key), &m)),
            Scheme::K1K256 => Ok(kb::sign(&Self::k1_secret(key), &m)),
            Scheme::R1 => fuel_crypto::secp256r1::sign_prehashed(&Self::r1_secret(key), &m)
                .map(|b| *b)
                .map_err(|e| format!("{e:?}")),
        })
    }

    /// Ok(Some(key)) / Ok(None) = library error / Err(panic)
    fn recover(self, sig: &[u8; 64], msg: &[u8; 32]) -> Result<Option<[u8; 64]>, String> {
        let m = Message::from_bytes(*msg);
        guard::catch_any(|| match self {
            Scheme::K1 => Signature::from_bytes(*sig).recover(&m).ok().map(|k| *k),
            Scheme::K1K256 => kb::recover(*sig, &m).ok().map(|k| *k),
            Scheme::R1 => fuel_crypto::secp256r1::recover(&Bytes64::from(*sig), &m).ok().map(|k| *k),
        })
    }

    /// Ok(true) accepted. For r1 the crate has no verify wrapper: the p256 verifier
    /// is called on (r, s) directly (recovery bit cleared).
    fn verify(self, sig: &[u8; 64], key: &[u8; 32], pk: &[u8; 64], msg: &[u8; 32]) -> Result<bool, String> {
        let m = Message::from_bytes(*msg);
        guard::catch_any(|| match self {
            // the PublicKey value is the one the library derived from the secret
            // (PublicKey::try_from(Bytes64) is not used: see `side_observations`)
            Scheme::K1 => {
                let p: PublicKey = Self::k1_secret(key).public_key();
                assert_eq!(*p, *pk);
                Signature::from_bytes(*sig).verify(&p, &m).is_ok()
            }
            Scheme::K1K256 => kb::verify(*sig, *pk, &m).is_ok(),
            Scheme::R1 => {
                use p256::ecdsa::signature::hazmat::PrehashVerifier;
                let mut raw = *sig;
                raw[32] &= 0x7f;
                let mut sec1 = [4u8; 65];
                sec1[1..].copy_from_slice(pk);
                match (
                    p256::ecdsa::VerifyingKey::from_sec1_bytes(&sec1),
                    p256::ecdsa::Signature::from_slice(&raw),
                ) {
                    (Ok(vk), Ok(s)) => vk.verify_prehash(msg, &s).is_ok(),
                    _ => false,
                }
            }
        })
    }
}

fn flip(sig: &[u8; 64], i: usize) -> [u8; 64] {
    let mut s = *sig;
    s[i / 8] ^= 0x80 >> (i % 8);
    s
}
/// index of the recovery bit in `flip` numbering (top bit of byte 32)
const V_BIT: usize = 256;

/// Library recover + the matching VM instruction for one (sig, msg); returns the
/// library result. All comparisons VM == library happen here.
fn recover_both(
    sch: Scheme,
    class: &str,
    sig: &[u8; 64],
    msg: &[u8; 32],
    case: &Value,
    acc: &mut Acc,
) -> Result<Option<[u8; 64]>, String> {
    let lib = sch.recover(sig, msg);
    acc.evals += 1;
    if let Some((opname, r1)) = sch.vm_op() {
        let preset = matches!(lib, Ok(Some(_))) as u64;
        let o = acc.vm().recover(r1, sig, msg, preset);
        let ctxs = || format!("scheme={} class={class} sig={} msg={}", sch.name(), hex::encode(sig), hex::encode(msg));
        match &lib {
            Err(_) => {} // a library panic is reported by the caller
            Ok(l) => {
                if o.step != Step::Proceed || o.pc_delta != 4 {
                    acc.out(&format!("vm:{opname}:STEP-MISMATCH"));
                    acc.viol(
                        format!("C17:vm:{opname}:step:{}", o.step.label()),
                        format!("{}: instruction gave {:?} pc_delta={} (library result {:?})", ctxs(), o.step, o.pc_delta, l.map(hex::encode)),
                        case,
                    );
                } else {
                    let (exp_err, exp_out) = match l {
                        Some(k) => (0u64, *k),
                        None => (1u64, [0u8; 64]),
                    };
                    if o.err != exp_err {
                        acc.out(&format!("vm:{opname}:ERR-MISMATCH"));
                        acc.viol(
                            format!("C17:vm:{opname}:err-mismatch:{}", if exp_err == 0 { "library-ok" } else { "library-err" }),
                            format!("{}: $err={} but library result is {:?}", ctxs(), o.err, l.map(hex::encode)),
                            case,
                        );
                    } else if o.out != exp_out {
                        acc.out(&format!("vm:{opname}:OUTPUT-MISMATCH"));
                        acc.viol(
                            format!("C17:vm:{opname}:output-mismatch:{}", if exp_err == 0 { "library-ok" } else { "library-err" }),
                            format!("{}: output {} expected {}", ctxs(), hex::encode(o.out), hex::encode(exp_out)),
                            case,
                        );
                    } else {
                        acc.out(&format!("vm:{opname}:{}", if exp_err == 0 { "err=0,key" } else { "err=1,zeroed" }));
                    }
                }
            }
        }
    }
    lib
}

/// The oracle for one ECDSA unit: (scheme, key, message) against the other grid messages.
fn eval_ecdsa(sch: Scheme, key: &[u8; 32], msg: &[u8; 32], others: &[[u8; 32]], acc: &mut Acc) {
    let n = sch.order();
    let half = n.shr(1);
    let sn = sch.name();
    let case = json!({"kind": "ecdsa", "scheme": sn, "key": hex::encode(key), "msg": hex::encode(msg),
                      "others": others.iter().map(hex::encode).collect::<Vec<_>>()});

    // public key; key 1 must be the generator
    let pk = match sch.public_key(key) {
        Ok(p) => p,
        Err(m) => {
            acc.viol(format!("C17:{sn}:public_key:panic"), format!("key={}: {m}", hex::encode(key)), &case);
            return
        }
    };
    if Big::from_be(key) == Big::one() && pk != sch.generator() {
        acc.viol(
            format!("C17:{sn}:public_key:generator-mismatch"),
            format!("public key of secret 1 is {} (expected the curve generator)", hex::encode(pk)),
            &case,
        );
    }

    // sign
    let sig = match sch.sign(key, msg) {
        Ok(Ok(s)) => s,
        Ok(Err(e)) => {
            acc.out(&format!("{sn}:sign:ERROR"));
            acc.viol(format!("C17:{sn}:sign:error"), format!("key={} msg={}: {e}", hex::encode(key), hex::encode(msg)), &case);
            return
        }
        Err(m) => {
            acc.out(&format!("{sn}:sign:PANIC"));
            acc.viol(format!("C17:{sn}:sign:panic"), format!("key={} msg={}: {m}", hex::encode(key), hex::encode(msg)), &case);
            return
        }
    };
    let who = format!("scheme={sn} key={} msg={} sig={}", hex::encode(key), hex::encode(msg), hex::encode(sig));

    // normalised
    let r = Big::from_be(&sig[..32]);
    let mut sb = arr::<32>(&sig[32..]);
    let v = sb[0] >> 7;
    sb[0] &= 0x7f;
    let s = Big::from_be(&sb);
    if r.is_zero() || r >= n || s.is_zero() || s > half {
        acc.out(&format!("{sn}:sign:NOT-NORMALISED"));
        acc.viol(format!("C17:{sn}:sign:not-normalised"), format!("{who}: r or s outside 1<=r<n, 1<=s<=n/2"), &case);
    } else {
        acc.out(&format!("{sn}:sign:normalised,v={v}"));
    }

    // own signature
    match recover_both(sch, "own-signature", &sig, msg, &case, acc) {
        Ok(Some(k)) if k == pk => {
            acc.out(&format!("{sn}:recover:own-signature:signer"));
            acc.fps.insert(hash64(&(sn, sig.to_vec(), msg)));
        }
        Ok(other) => {
            acc.out(&format!("{sn}:recover:own-signature:WRONG"));
            acc.viol(
                format!("C17:{sn}:recover:own-signature:{}", if other.is_some() { "wrong-key" } else { "error" }),
                format!("{who}: recover gave {:?}, signer is {}", other.map(hex::encode), hex::encode(pk)),
                &case,
            );
        }
        Err(m) => acc.viol(format!("C17:{sn}:recover:own-signature:panic"), format!("{who}: {m}"), &case),
    }
    if sch.has_verify() {
        match sch.verify(&sig, key, &pk, msg) {
            Ok(true) => acc.out(&format!("{sn}:verify:own-signature:accepted")),
            Ok(false) => {
                acc.out(&format!("{sn}:verify:own-signature:REJECTED"));
                acc.viol(format!("C17:{sn}:verify:own-signature:rejected"), format!("{who}: verify against the signer's key failed"), &case);
            }
            Err(m) => acc.viol(format!("C17:{sn}:verify:own-signature:panic"), format!("{who}: {m}"), &case),
        }
    }
    acc.sample(&format!("{sn}:own"), || {
        json!({"scheme": sn, "key": hex::encode(key), "msg": hex::encode(msg), "sig": hex::encode(sig), "recovery_bit": v,
               "public_key": hex::encode(pk), "checked": "normalised, recover==pk, verify ok, other messages, 512 flips, VM instruction"})
    });

    // other messages
    for m2 in others {
        if m2 == msg {
            continue
        }
        // ECDSA signs the digest reduced mod n: a 32-byte value that differs from
        // the signed one by n is the same message for the scheme (don't-care)
        if Big::from_be(m2).divrem(&n).1 == Big::from_be(msg).divrem(&n).1 {
            let same = matches!(sch.recover(&sig, m2), Ok(Some(k)) if k == pk);
            acc.out(&format!("{sn}:recover:other-message:congruent-mod-n:{}(dont-care)", if same { "signer" } else { "not-signer" }));
            continue
        }
        match recover_both(sch, "other-message", &sig, m2, &case, acc) {
            Ok(Some(k)) if k == pk => {
                acc.out(&format!("{sn}:recover:other-message:SIGNER"));
                acc.viol(
                    format!("C17:{sn}:recover:other-message:same-key"),
                    format!("{who}: recover with message {} still returns the signer", hex::encode(m2)),
                    &case,
                );
            }
            Ok(Some(_)) => {
                acc.out(&format!("{sn}:recover:other-message:other-key"));
                acc.fps.insert(hash64(&(sn, sig.to_vec(), m2)));
            }
            Ok(None) => acc.out(&format!("{sn}:recover:other-message:error")),
            Err(m) => acc.viol(format!("C17:{sn}:recover:other-message:panic"), format!("{who} other={}: {m}", hex::encode(m2)), &case),
        }
        if sch.has_verify() {
            match sch.verify(&sig, key, &pk, m2) {
                Ok(false) => acc.out(&format!("{sn}:verify:other-message:rejected")),
                Ok(true) => {
                    acc.out(&format!("{sn}:verify:other-message:ACCEPTED"));
                    acc.viol(
                        format!("C17:{sn}:verify:other-message:accepted"),
                        format!("{who}: verifies for message {}", hex::encode(m2)),
                        &case,
                    );
                }
                Err(m) => acc.viol(format!("C17:{sn}:verify:other-message:panic"), format!("{who}: {m}"), &case),
            }
        }
    }

    // all 512 single-bit flips
    for i in 0..512 {
        let f = flip(&sig, i);
        match recover_both(sch, "bit-flip", &f, msg, &case, acc) {
            Ok(Some(k)) if k == pk => {
                acc.out(&format!("{sn}:recover:bit-flip:SIGNER"));
                acc.viol(
                    format!("C17:{sn}:recover:bit-flip:same-key"),
                    format!("{who}: with bit {i} flipped recover still returns the signer"),
                    &case,
                );
            }
            Ok(Some(_)) => {
                acc.out(&format!("{sn}:recover:bit-flip:other-key"));
                acc.fps.insert(hash64(&(sn, f.to_vec(), msg)));
            }
            Ok(None) => acc.out(&format!("{sn}:recover:bit-flip:error")),
            Err(m) => acc.viol(format!("C17:{sn}:recover:bit-flip:panic"), format!("{who} bit {i}: {m}"), &case),
        }
        // r1 has no library verify; the direct p256 verifier is only used on the
        // produced signature and on other messages
        if sch != Scheme::R1 {
            match sch.verify(&f, key, &pk, msg) {
                Ok(acc_) if i == V_BIT => {
                    acc.out(&format!("{sn}:verify:recovery-bit-flip:{}(dont-care)", if acc_ { "accepted" } else { "rejected" }))
                }
                Ok(false) => acc.out(&format!("{sn}:verify:bit-flip:rejected")),
                Ok(true) => {
                    acc.out(&format!("{sn}:verify:bit-flip:ACCEPTED"));
                    acc.viol(
                        format!("C17:{sn}:verify:bit-flip:accepted"),
                        format!("{who}: with bit {i} flipped the signature still verifies"),
                        &case,
                    );
                }
                Err(m) => acc.viol(format!("C17:{sn}:verify:bit-flip:panic"), format!("{who} bit {i}: {m}"), &case),
            }
        }
    }
}

// ------------------------------------------------------------------ Ed25519

fn ed_reference(pk: &[u8; 32], sig: &[u8; 64], msg: &[u8]) -> (bool, bool) {
    let s = ed25519_dalek::Signature::from_bytes(sig);
    match ed25519_dalek::VerifyingKey::from_bytes(pk) {
        Ok(vk) => (vk.verify_strict(msg, &s).is_ok(), vk.verify(msg, &s).is_ok()),
        Err(_) => (false, false),
    }
}

/// The oracle for one Ed25519 case.
fn eval_ed(class: &str, pk: &[u8; 32], sig: &[u8; 64], msg: &[u8], acc: &mut Acc) {
    acc.evals += 1;
    let case = json!({"kind": "ed", "class": class, "pk": hex::encode(pk), "sig": hex::encode(sig), "msg": hex::encode(msg)});
    let who = || format!("class={class} pk={} sig={} msg={}", hex::encode(pk), hex::encode(sig), hex::encode(msg));
    let (strict, loose) = ed_reference(pk, sig, msg);
    if strict != loose {
        acc.ed_discriminating += 1;
    }
    let lib = guard::catch_any(|| fuel_crypto::ed25519::verify(&Bytes32::from(*pk), &Bytes64::from(*sig), msg).is_ok());
    let lib_ok = match lib {
        Err(m) => {
            acc.out("ed25519:PANIC");
            acc.viol(format!("C17:ed25519:verify:{class}:panic"), format!("{}: {m}", who()), &case);
            return
        }
        Ok(b) => b,
    };
    if lib_ok != strict {
        let what = if lib_ok {
            "accepted-but-reference-rejects"
        } else {
            "rejected-but-reference-accepts"
        };
        acc.out(&format!("ed25519:{class}:MISMATCH:{what}"));
        acc.viol(
            format!("C17:ed25519:verify:{class}:{what}"),
            format!("{}: fuel_crypto::ed25519::verify ok={lib_ok}, verify_strict ok={strict}, non-strict verify ok={loose}", who()),
            &case,
        );
    } else {
        acc.out(&format!(
            "ed25519:{class}:{}{}",
            if strict { "accepted" } else { "rejected" },
            if strict != loose { "(non-strict would accept)" } else { "" }
        ));
    }
    if strict || loose {
        acc.fps.insert(hash64(&("ed", pk, sig.to_vec(), msg)));
    }

    // VM: ED19. A zero length register means 32 bytes (documented backwards
    // compatibility), so the empty message cannot be expressed; 32-byte messages are
    // run both ways.
    let mut lens: Vec<u64> = vec![];
    if !msg.is_empty() {
        lens.push(msg.len() as u64);
    }
    if msg.len() == 32 {
        lens.push(0);
    }
    for len in lens {
        let o = acc.vm().ed19(pk, sig, msg, len, lib_ok as u64);
        if o.step != Step::Proceed || o.pc_delta != 4 {
            acc.out("vm:ED19:STEP-MISMATCH");
            acc.viol(
                format!("C17:vm:ED19:step:{}", o.step.label()),
                format!("{} len_reg={len}: instruction gave {:?} pc_delta={}", who(), o.step, o.pc_delta),
                &case,
            );
        } else if o.err != (!lib_ok) as u64 {
            acc.out("vm:ED19:ERR-MISMATCH");
            acc.viol(
                format!("C17:vm:ED19:err-mismatch:{}", if lib_ok { "library-ok" } else { "library-err" }),
                format!("{} len_reg={len}: $err={} but library ok={lib_ok}", who(), o.err),
                &case,
            );
        } else if o.out != [0xaa; 64] {
            acc.out("vm:ED19:WROTE-MEMORY");
            acc.viol("C17:vm:ED19:wrote-memory".to_string(), format!("{}: ED19 modified the guard area", who()), &case);
        } else {
            acc.out(&format!("vm:ED19:err={}{}", o.err, if len == 0 { "(len reg 0 = 32 bytes)" } else { "" }));
        }
    }
}

fn ed_seeds(n: usize) -> Vec<[u8; 32]> {
    let mut v = vec![[0u8; 32], [0xff; 32]];
    let mut pat = [0u8; 32];
    for (i, b) in pat.iter_mut().enumerate() {
        *b = i as u8;
    }
    v.push(pat);
    let mut i = 0u8;
    while v.len() < n {
        v.push(sha256(&[b"c17-ed-seed", &[i]]));
        i += 1;
    }
    v.truncate(n);
    v
}

fn ed_msgs(n: usize) -> Vec<Vec<u8>> {
    let gen = |len: usize, tag: u8| -> Vec<u8> { (0..len).map(|i| (i as u8).wrapping_mul(31) ^ tag).collect() };
    let mut v = vec![vec![], vec![0x61], vec![0u8; 32], gen(32, 0x11), gen(33, 0x22), gen(100, 0x33)];
    for (k, len) in [31usize, 64, 65, 255, 256, 1000].iter().enumerate() {
        v.push(gen(*len, 0x40 + k as u8));
    }
    v.truncate(n);
    v
}

/// All cases derived from one honest (seed, message) pair.
fn ed_unit(seeds: &[[u8; 32]], msgs: &[Vec<u8>], ki: usize, mi: usize, acc: &mut Acc) {
    let sk = ed25519_dalek::SigningKey::from_bytes(&seeds[ki]);
    let pk = sk.verifying_key().to_bytes();
    let msg = &msgs[mi];
    let sig = sk.sign(msg).to_bytes();
    eval_ed("valid", &pk, &sig, msg, acc);
    acc.sample("ed:valid", || json!({"scheme": "ed25519", "seed": hex::encode(seeds[ki]), "pk": hex::encode(pk), "msg": hex::encode(msg), "sig": hex::encode(sig)}));
    for i in 0..512 {
        eval_ed("sig-bit-flip", &pk, &flip(&sig, i), msg, acc);
    }
    for i in 0..256 {
        let mut p = pk;
        p[i / 8] ^= 0x80 >> (i % 8);
        eval_ed("pk-bit-flip", &p, &sig, msg, acc);
    }
    // message variants: first 16 and last 8 bits flipped, one byte shorter / longer
    let nb = msg.len() * 8;
    let bits: Vec<usize> = (0..nb.min(16)).chain(nb.saturating_sub(8)..nb).collect::<std::collections::BTreeSet<_>>().into_iter().collect();
    for i in bits {
        let mut m = msg.clone();
        m[i / 8] ^= 0x80 >> (i % 8);
        eval_ed("msg-variant", &pk, &sig, &m, acc);
    }
    if !msg.is_empty() {
        eval_ed("msg-variant", &pk, &sig, &msg[..msg.len() - 1], acc);
    }
    let mut longer = msg.clone();
    longer.push(0);
    eval_ed("msg-variant", &pk, &sig, &longer, acc);
    for (j, m2) in msgs.iter().enumerate() {
        if j != mi {
            eval_ed("other-message", &pk, &sig, m2, acc);
        }
    }
    for (j, s2) in seeds.iter().enumerate() {
        if j != ki {
            let p2 = ed25519_dalek::SigningKey::from_bytes(s2).verifying_key().to_bytes();
            eval_ed("other-key", &p2, &sig, msg, acc);
        }
    }
    // s + k*L re-encodings (little-endian scalar in sig[32..])
    let l = big_hex(ED_L);
    let mut le = arr::<32>(&sig[32..]);
    le.reverse();
    let s = Big::from_be(&le);
    let mut k = 1u64;
    loop {
        let s2 = s.add(&l.mul(&Big::from_u64(k)));
        if s2.bits() > 256 {
            break
        }
        let mut b = arr::<32>(&s2.to_be(32));
        b.reverse();
        let mut sg = sig;
        sg[32..].copy_from_slice(&b);
        eval_ed("s-plus-kL", &pk, &sg, msg, acc);
        acc.sample("ed:s+L", || json!({"scheme": "ed25519", "class": "s-plus-kL", "k": k, "pk": hex::encode(pk), "sig": hex::encode(sg), "msg": hex::encode(msg)}));
        k += 1;
    }
    // honest key with a small-order R (s = 0 and s = L), honest signature under a small-order key
    let mut l_le = arr::<32>(&l.to_be(32));
    l_le.reverse();
    for t in TORSION {
        let tp: [u8; 32] = hexarr(t);
        for sv in [[0u8; 32], l_le] {
            let mut sg = [0u8; 64];
            sg[..32].copy_from_slice(&tp);
            sg[32..].copy_from_slice(&sv);
            eval_ed("small-order-R", &pk, &sg, msg, acc);
        }
        eval_ed("small-order-key", &tp, &sig, msg, acc);
        // honest s with small-order R
        let mut sg = sig;
        sg[..32].copy_from_slice(&tp);
        eval_ed("small-order-R", &pk, &sg, msg, acc);
    }
    // signatures constructed to satisfy [s]B = R + [k]A with a small-order R and the
    // honest key: s = k*a mod L. With R = identity the cofactorless equation holds
    // (plain verification accepts, strict rejects R); with the other seven canonical
    // small-order encodings it cannot hold, they are included all the same.
    for (ti, t) in TORSION.iter().take(8).enumerate() {
        let r_enc: [u8; 32] = hexarr(t);
        let sg = ed_forge_small_order_r(&seeds[ki], &pk, msg, &r_enc);
        if ti == 0 {
            // machinery self-check: this vector must discriminate strict from plain
            let (strict, loose) = ed_reference(&pk, &sg, msg);
            assert!(
                loose && !strict,
                "harness self-check: identity-R vector must be accepted by Verifier::verify and rejected by verify_strict \
                 (seed {} msg {} sig {}: plain={loose} strict={strict})",
                hex::encode(seeds[ki]),
                hex::encode(msg),
                hex::encode(sg)
            );
            acc.ed_forged_identity_r += 1;
            acc.sample("ed:identity-R", || {
                json!({"scheme": "ed25519", "class": "small-order-R", "construction": "R = identity, s = SHA512(R|A|M) * a mod L",
                       "pk": hex::encode(pk), "sig": hex::encode(sg), "msg": hex::encode(msg), "verify_strict": strict, "non_strict_verify": loose})
            });
        }
        eval_ed("small-order-R", &pk, &sg, msg, acc);
    }
}

/// (R, s) with s = k*a mod L, k = SHA-512(R | A | M) mod L, a = clamped lower half of
/// SHA-512(seed); all scalars little-endian (RFC 8032 section 5.1.5 / 5.1.6).
fn ed_forge_small_order_r(seed: &[u8; 32], pk: &[u8; 32], msg: &[u8], r_enc: &[u8; 32]) -> [u8; 64] {
    use sha2::{
        Digest,
        Sha512,
    };
    let l = big_hex(ED_L);
    let h = Sha512::digest(seed);
    let mut a = arr::<32>(&h[..32]);
    a[0] &= 248;
    a[31] &= 127;
    a[31] |= 64;
    a.reverse();
    let a = Big::from_be(&a);
    let mut hh = Sha512::new();
    hh.update(r_enc);
    hh.update(pk);
    hh.update(msg);
    let mut k = hh.finalize().to_vec();
    k.reverse();
    let k = Big::from_be(&k).divrem(&l).1;
    let s = k.mul(&a).divrem(&l).1;
    let mut sb = arr::<32>(&s.to_be(32));
    sb.reverse();
    let mut sig = [0u8; 64];
    sig[..32].copy_from_slice(r_enc);
    sig[32..].copy_from_slice(&sb);
    sig
}

/// Small-order public key x small-order R x s in {0, L} for one message.
fn ed_torsion_unit(msg: &[u8], ai: usize, acc: &mut Acc) {
    let l = big_hex(ED_L);
    let mut l_le = arr::<32>(&l.to_be(32));
    l_le.reverse();
    let a: [u8; 32] = hexarr(TORSION[ai]);
    for t in TORSION {
        let r: [u8; 32] = hexarr(t);
        for sv in [[0u8; 32], l_le] {
            let mut sg = [0u8; 64];
            sg[..32].copy_from_slice(&r);
            sg[32..].copy_from_slice(&sv);
            eval_ed("small-order-key", &a, &sg, msg, acc);
            let (strict, loose) = ed_reference(&a, &sg, msg);
            if loose && !strict {
                acc.sample("ed:torsion", || {
                    json!({"scheme": "ed25519", "class": "small-order-key", "pk": hex::encode(a), "sig": hex::encode(sg), "msg": hex::encode(msg),
                           "verify_strict": strict, "non_strict_verify": loose})
                });
            }
        }
    }
}

// ------------------------------------------------------------------ grids

fn ecdsa_keys(sch: Scheme, g: usize) -> Vec<[u8; 32]> {
    let n = sch.order();
    let b32 = |b: &Big| arr::<32>(&b.to_be(32));
    let mut pat = [0u8; 32];
    for (i, b) in pat.iter_mut().enumerate() {
        *b = i as u8 + 1;
    }
    let mut v = vec![
        b32(&Big::one()),
        b32(&Big::from_u64(2)),
        b32(&Big::from_u64(3)),
        b32(&n.sub(&Big::one())),
        pat,
        b32(&n.shr(1)),
        [0xa5; 32],
    ];
    let mut i = 0u8;
    while v.len() < g {
        let h = sha256(&[b"c17-key", &[i]]);
        let hb = Big::from_be(&h);
        if !hb.is_zero() && hb < n {
            v.push(h);
        }
        i += 1;
    }
    v.truncate(g);
    v
}

fn ecdsa_msgs(sch: Scheme, g: usize) -> Vec<[u8; 32]> {
    let n = sch.order();
    let mut pat = [0u8; 32];
    for (i, b) in pat.iter_mut().enumerate() {
        *b = 0xf0 ^ (i as u8).wrapping_mul(7);
    }
    let mut one = [0u8; 32];
    one[31] = 1;
    let mut top = [0u8; 32];
    top[0] = 0x80;
    let mut v = vec![[0u8; 32], one, [0xff; 32], pat, arr::<32>(&n.to_be(32)), top, sha256(&[b"fuel"])];
    let mut i = 0u8;
    while v.len() < g {
        v.push(sha256(&[b"c17-msg", &[i]]));
        i += 1;
    }
    v.truncate(g);
    v
}

#[derive(Clone)]
enum Unit {
    Ecdsa(Scheme, usize, usize),
    Ed(usize, usize),
    EdTorsion(usize, usize),
}

fn explore(ctx: &Ctx) {
    let g: usize = ctx.pick(8, 16);
    let e: usize = ctx.pick(6, 12);
    let schemes = [Scheme::K1, Scheme::K1K256, Scheme::R1];
    let seeds = ed_seeds(e);
    let emsgs = ed_msgs(e);

    ctx.rule(
        "units = (scheme, key, message) for the three ECDSA schemes and (seed, message) for Ed25519, each expanded into \
         own signature / other messages / all 512 bit flips (ECDSA) resp. flips, variants, s+kL, small-order family \
         (Ed25519); every library call is mirrored by one ECK1/ECR1/ED19 instruction; non-trivial = some operation \
         accepted (recover returned a key, or a verifier - strict or not - accepted); distinct = distinct (scheme, key/sig/message)",
    );
    ctx.assume("ed25519-dalek verify_strict is the Ed25519 reference (trusted base)");
    ctx.assume("for secp256r1 the crate offers no verify wrapper; the p256 verifier is called directly on (r, s)");
    ctx.assume("Ed25519 valid signatures are produced with ed25519-dalek's signer (the crate under test has no Ed25519 signing)");
    ctx.set("grid", json!({"ecdsa_keys": g, "ecdsa_messages": g, "ed25519_seeds": e, "ed25519_messages": e}));
    ctx.set("ed25519_message_lengths", json!(emsgs.iter().map(|m| m.len()).collect::<Vec<_>>()));
    ctx.set("schemes", json!(schemes.iter().map(|s| s.name()).collect::<Vec<_>>()));
    ctx.set("torsion_encodings", json!(TORSION));
    ctx.set(
        "dont_care",
        json!([
            "k1/r1 verify result when only the recovery bit (bit 255 of s) is flipped: verify ignores that bit",
            "ED19 on an empty message: a zero length register means 32 bytes, the empty message is not expressible",
            "which key (or error) recover returns for a wrong message / flipped bit, as long as it is not the signer's",
            "k1-k256 has no VM instruction (the VM is built on the std backend)",
            "a 32-byte message congruent mod n to the signed one (e.g. 00..00 and n) is the same message for ECDSA"
        ]),
    );
    // self-check of the small-order constants through the public dalek API
    let weak: Vec<Value> = TORSION
        .iter()
        .map(|t| {
            let r = ed25519_dalek::VerifyingKey::from_bytes(&hexarr::<32>(t));
            json!({"enc": t, "decodes": r.is_ok(), "is_weak": r.map(|k| k.is_weak()).unwrap_or(false)})
        })
        .collect();
    ctx.set("torsion_self_check", json!(weak));

    // not part of the property: PublicKey::try_from(Bytes64) on the library's own keys
    let k1keys = ecdsa_keys(Scheme::K1, g);
    let rejected = k1keys
        .iter()
        .filter(|k| PublicKey::try_from(Bytes64::from(*Scheme::k1_secret(k).public_key())).is_err())
        .count();
    ctx.set(
        "side_observations",
        json!({"PublicKey::try_from(Bytes64) rejected valid library-derived public keys": format!("{rejected} of {}", k1keys.len())}),
    );

    let mut units: Vec<Unit> = vec![];
    // cheap families first, so that a run cut short by the time budget has seen
    // every family
    for m in 0..e {
        for a in 0..TORSION.len() {
            units.push(Unit::EdTorsion(m, a));
        }
    }
    for k in 0..e {
        for m in 0..e {
            units.push(Unit::Ed(k, m));
        }
    }
    for k in 0..g {
        for m in 0..g {
            for s in schemes {
                units.push(Unit::Ecdsa(s, k, m));
            }
        }
    }
    let grids: Vec<(Vec<[u8; 32]>, Vec<[u8; 32]>)> = schemes.iter().map(|s| (ecdsa_keys(*s, g), ecdsa_msgs(*s, g))).collect();
    ctx.set(
        "ecdsa_keys",
        json!(schemes.iter().zip(&grids).map(|(s, (k, _))| (s.name(), k.iter().map(hex::encode).collect::<Vec<_>>())).collect::<BTreeMap<_, _>>()),
    );
    ctx.set("units", json!(units.len()));

    let mut total = Acc::default();
    let mut done = 0usize;
    let batch = 64usize;
    while done < units.len() {
        if ctx.out_of_time() {
            ctx.cap(format!("time budget: {done} of {} units evaluated", units.len()));
            break
        }
        let hi = (done + batch).min(units.len());
        let mut parts = vec![];
        space::par_chunks(
            (hi - done) as u64,
            1,
            Acc::default,
            |i, acc| match &units[done + i as usize] {
                Unit::Ecdsa(s, k, m) => {
                    let si = schemes.iter().position(|x| x == s).unwrap();
                    let (keys, msgs) = &grids[si];
                    eval_ecdsa(*s, &keys[*k], &msgs[*m], msgs, acc)
                }
                Unit::Ed(k, m) => ed_unit(&seeds, &emsgs, *k, *m, acc),
                Unit::EdTorsion(m, a) => ed_torsion_unit(&emsgs[*m], *a, acc),
            },
            |p| parts.push(p),
        );
        for p in parts {
            merge(&mut total, p);
        }
        done = hi;
    }

    ctx.evals(total.evals);
    ctx.fps_merge(total.fps.iter().copied());
    ctx.outcomes_merge(&total.outcomes);
    for (_, s) in &total.samples {
        ctx.sample(s.clone());
    }
    ctx.set("units_done", json!(done));
    ctx.set("ed25519_cases_where_strict_and_non_strict_differ", json!(total.ed_discriminating));
    ctx.set(
        "ed25519_identity_R_vectors_for_honest_keys (self-checked: plain verify accepts, verify_strict rejects)",
        json!(total.ed_forged_identity_r),
    );
    total.report(ctx);
}

fn replay(case: &Value, ctx: &Ctx) {
    let mut acc = Acc::default();
    match case["kind"].as_str() {
        Some("ecdsa") => {
            let sch = Scheme::from_name(case["scheme"].as_str().unwrap());
            let key: [u8; 32] = hexarr(case["key"].as_str().unwrap());
            let msg: [u8; 32] = hexarr(case["msg"].as_str().unwrap());
            let others: Vec<[u8; 32]> = case["others"].as_array().unwrap().iter().map(|v| hexarr(v.as_str().unwrap())).collect();
            eval_ecdsa(sch, &key, &msg, &others, &mut acc);
        }
        Some("ed") => {
            let pk: [u8; 32] = hexarr(case["pk"].as_str().unwrap());
            let sig: [u8; 64] = hexarr(case["sig"].as_str().unwrap());
            let msg = hex::decode(case["msg"].as_str().unwrap()).unwrap();
            eval_ed(case["class"].as_str().unwrap(), &pk, &sig, &msg, &mut acc);
        }
        other => panic!("unknown case kind {other:?}"),
    }
    acc.report(ctx);
}

fn main() {
    run_check("C17", Level::Exploration, explore, replay)
}
