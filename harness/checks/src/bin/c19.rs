//! C19 — Transaction checking accepts exactly the specification-valid transactions and
//! records the right free balances.
//!
//! SPACE (deviation-bounded enumeration, all of it enumerated, nothing sampled)
//!   Phase A (0 deviations): for each chargeable kind (Script, Create, Upgrade with both
//!     purposes, Upload, Blob) every input sequence of length <= NI over 9 input letters
//!     (signed/predicate coin of base asset or asset X, message-coin signed/predicate,
//!     message-data signed/predicate, contract) x every output sequence of length <= NO
//!     over 7 output letters (coin/change of base or X, variable, contract,
//!     contract-created) x policy variants x block heights {0,4,5,9,10} around
//!     maturity 5 / expiration 9. Mint: its own small product.
//!   Phase B (1 deviation): every reference-valid base of phase A (height 5, policy
//!     variants 0 and 1; quick: variant 1 only on bases with <= 2 inputs) x every
//!     deviation of the alphabet in `c19_dev.rs` (each a function Case -> Case that
//!     breaks one Appendix D rule or moves a quantity onto its limit).
//!   Bounds: quick NI x NO = 2x2 (all 7 policy/height combinations), 3x2 and 2x3 at
//!     height 5; thorough 3x3 with all combinations.
//!   Phase C (thorough; 2 deviations): every ordered pair of deviations on the valid
//!     bases with <= 2 inputs / <= 2 outputs.
//!   Consensus parameters: limits shrunk (max_inputs = max_outputs = max_witnesses = 3,
//!     length limits 16, max_storage_slots 2, max_bytecode_subsections 4, max gas 1000)
//!     so that every limit is reachable; `GasCosts::free()`, gas_per_byte 0.
//!
//! ORACLE  `c19_ref::reference` — a plain function from the property statement and
//!   DESIGN.md Appendix D. Verdict per case:
//!     (a) `tx.into_checked_basic(height, params)` is Ok  <=>  reference says valid
//!         (which error is returned is a don't-care);
//!     (b) on Ok the recorded free balances equal, per asset, sum of spendable inputs -
//!         coin outputs (- fee limit for the base asset); message-data amounts are the
//!         retryable amount;
//!     (c) no panic.
//!   Whether a deviated case is valid is decided by the reference itself, never by the
//!   fact that a deviation was applied. Rules recalled from the Fuel specification
//!   that are not grounded in Appendix D are informational probes only.

#[path = "../c19_spec.rs"]
mod c19_spec;
#[path = "../c19_ref.rs"]
mod c19_ref;
#[path = "../c19_dev.rs"]
mod c19_dev;

use c19_dev::*;
use c19_ref::*;
use c19_spec::*;
use std::collections::{
    BTreeMap,
    HashSet,
};
use vcore::{
    json,
    run::hash64,
    run_check,
    space,
    Ctx,
    Level,
    Value,
};

// ------------------------------------------------------------------ verdict

struct Judged {
    refv: Ref,
    obs: Obs,
    size_mismatch: bool,
    /// (key, what)
    finding: Option<(String, String)>,
}

static NS_REF: std::sync::atomic::AtomicU64 = std::sync::atomic::AtomicU64::new(0);
static NS_SUBJ: std::sync::atomic::AtomicU64 = std::sync::atomic::AtomicU64::new(0);

fn judge(c: &Case) -> Judged {
    let t0 = std::time::Instant::now();
    let refv = reference(c);
    let t1 = std::time::Instant::now();
    let (obs, size) = subject(c);
    NS_REF.fetch_add((t1 - t0).as_nanos() as u64, std::sync::atomic::Ordering::Relaxed);
    NS_SUBJ.fetch_add(t1.elapsed().as_nanos() as u64, std::sync::atomic::Ordering::Relaxed);
    let size_mismatch = !matches!(size, Ok(s) if s == tx_size(&c.tx));
    let kind = c.tx.kind();
    let finding = match (&obs, refv.valid()) {
        (Obs::Panic(m), _) => Some((format!("C19:panic:{kind}"), format!("{kind}: into_checked_basic panicked: {m}"))),
        (Obs::Err(e), true) => Some((
            format!("C19:rejects-valid:{e}"),
            format!("{kind}: reference validator finds no broken rule, into_checked_basic returned Err({e})"),
        )),
        (Obs::Ok(_), false) => Some((
            format!("C19:accepts-invalid:{}", refv.broken[0]),
            format!("{kind}: broken rules {:?}, into_checked_basic returned Ok", refv.broken),
        )),
        (Obs::Err(_), false) => None,
        (Obs::Ok(o), true) => {
            let mut f = None;
            if let Some(got) = &o.balances {
                let exp: BTreeMap<B32, u64> = refv.balances.iter().map(|(a, v)| (asset_b(*a), *v)).collect();
                // zero-valued entries are a don't-care
                let keys: std::collections::BTreeSet<&B32> = exp.keys().chain(got.keys()).collect();
                for k in keys {
                    let (e, g) = (exp.get(k).copied().unwrap_or(0), got.get(k).copied().unwrap_or(0));
                    if e != g {
                        let which = if *k == asset_b(BASE) { "base" } else { "non-base" };
                        f = Some((
                            format!("C19:free-balance:{which}"),
                            format!("{kind}: free balance of asset {:02x}.. expected {e}, recorded {g}", k[0]),
                        ));
                        break
                    }
                }
            }
            if f.is_none() {
                if let Some(r) = o.retryable {
                    if r != refv.retryable {
                        f = Some((
                            "C19:retryable-amount".to_string(),
                            format!("{kind}: retryable amount expected {}, recorded {r}", refv.retryable),
                        ));
                    }
                }
            }
            if f.is_none() {
                if let Some(b) = o.meta_base {
                    if b != asset_b(BASE) {
                        f = Some(("C19:metadata-base-asset".to_string(), format!("{kind}: metadata base asset {:02x}..", b[0])));
                    }
                }
            }
            f
        }
    };
    Judged {
        refv,
        obs,
        size_mismatch,
        finding,
    }
}

fn obs_short(o: &Obs) -> String {
    match o {
        Obs::Ok(k) => format!(
            "Ok, free balances {:?}, retryable {:?}",
            k.balances.as_ref().map(|m| m.iter().map(|(a, v)| format!("{:02x}..:{v}", a[0])).collect::<Vec<_>>()),
            k.retryable
        ),
        Obs::Err(e) => format!("Err({e})"),
        Obs::Panic(m) => format!("panic: {m}"),
    }
}

fn sample_json(derivation: &str, c: &Case, j: &Judged) -> Value {
    json!({
        "derivation": derivation,
        "kind": c.tx.kind(),
        "inputs": c.tx.ins.len(), "outputs": c.tx.outs.len(), "witnesses": c.tx.wits.len(),
        "canonical_size": tx_size(&c.tx),
        "reference_broken_rules": j.refv.broken,
        "reference_free_balances_by_asset_tag": j.refv.balances,
        "reference_retryable": j.refv.retryable,
        "into_checked_basic": obs_short(&j.obs),
    })
}

fn case_json(c: &Case, derivation: &str) -> Value {
    json!({"case": c, "derivation": derivation})
}

// ------------------------------------------------------------------ sweeping

#[derive(Clone, Copy, Debug)]
struct BaseId {
    kind: u8,
    ins: u32,
    outs: u32,
    polv: u8,
    height: u32,
}

#[derive(Default)]
struct Acc {
    evals: u64,
    skipped: u64,
    fps: HashSet<u64>,
    outcomes: BTreeMap<String, u64>,
    viols: BTreeMap<String, (String, Value, u64)>,
    valid_bases: Vec<BaseId>,
    /// per deviation: [applied, reference-invalid afterwards, reference-valid afterwards]
    dev_stats: Vec<[u64; 3]>,
    size_mismatch: u64,
    samples: Vec<Value>,
    per_kind: BTreeMap<&'static str, [u64; 2]>,
    /// rule -> number of cases in which it is the only broken rule
    alone: BTreeMap<&'static str, u64>,
}

/// how a case was derived; rendered only for samples and violations
enum Deriv {
    Base(BaseId, u32, u32),
    Dev(BaseId, u32, u32, Vec<&'static str>),
    Text(String),
}

impl Deriv {
    fn render(&self) -> String {
        match self {
            Deriv::Base(b, ni, no) => format!("base: {}", base_name(b, *ni, *no)),
            Deriv::Dev(b, ni, no, names) => format!("base: {} + deviations {:?}", base_name(b, *ni, *no), names),
            Deriv::Text(t) => t.clone(),
        }
    }
}

struct Gen {
    case: Case,
    derivation: Deriv,
    fp: u64,
    base: Option<BaseId>,
    devs: Vec<usize>,
    want_sample: bool,
}

fn eval(g: Gen, a: &mut Acc) {
    let j = judge(&g.case);
    a.evals += 1;
    a.fps.insert(hash64(&(g.fp, &j.refv.broken, matches!(j.obs, Obs::Ok(_)))));
    let k = a.per_kind.entry(g.case.tx.kind()).or_default();
    if j.refv.valid() {
        k[0] += 1;
        *a.outcomes.entry("reference valid".into()).or_default() += 1;
        if let Some(b) = g.base {
            a.valid_bases.push(b);
        }
    } else {
        k[1] += 1;
        if j.refv.broken.len() == 1 {
            *a.alone.entry(j.refv.broken[0]).or_default() += 1;
        }
        *a.outcomes.entry(format!("reference invalid, first broken rule: {}", j.refv.broken[0])).or_default() += 1;
    }
    match &j.obs {
        Obs::Ok(_) => *a.outcomes.entry("subject Ok".into()).or_default() += 1,
        Obs::Err(e) => *a.outcomes.entry(format!("subject Err: {e}")).or_default() += 1,
        Obs::Panic(_) => *a.outcomes.entry("subject panic".into()).or_default() += 1,
    }
    if j.size_mismatch {
        a.size_mismatch += 1;
    }
    for d in &g.devs {
        if a.dev_stats.len() <= *d {
            a.dev_stats.resize(*d + 1, [0; 3]);
        }
        a.dev_stats[*d][0] += 1;
        // attribute break / harmless only for single deviations
        if g.devs.len() == 1 {
            a.dev_stats[*d][if j.refv.valid() { 2 } else { 1 }] += 1;
        }
    }
    if let Some((key, what)) = j.finding {
        match a.viols.get_mut(&key) {
            Some(e) => e.2 += 1,
            None => {
                let d = g.derivation.render();
                a.viols.insert(key, (format!("{what} [{d}]"), case_json(&g.case, &d), 1));
            }
        }
    } else if g.want_sample && a.samples.len() < 1 {
        a.samples.push(sample_json(&g.derivation.render(), &g.case, &j));
    }
}

struct Totals {
    valid_bases: Vec<BaseId>,
    dev_stats: Vec<[u64; 3]>,
    size_mismatch: u64,
    per_kind: BTreeMap<&'static str, [u64; 2]>,
    samples: Vec<Value>,
    alone: BTreeMap<&'static str, u64>,
}

fn sweep(ctx: &Ctx, n: u64, tot: &mut Totals, gen: impl Fn(u64) -> Option<Gen> + Sync) {
    let mut skipped = 0u64;
    space::par_chunks(
        n,
        2048,
        Acc::default,
        |i, a| {
            if i % 256 == 0 && ctx.out_of_time() {
                a.skipped += 1;
            }
            if a.skipped > 0 {
                a.skipped += 1;
                return
            }
            if let Some(g) = gen(i) {
                eval(g, a);
            }
        },
        |a| {
            ctx.evals(a.evals);
            EVALS.fetch_add(a.evals, std::sync::atomic::Ordering::Relaxed);
            ctx.fps_merge(a.fps);
            ctx.outcomes_merge(&a.outcomes);
            for (key, (what, case, count)) in a.viols {
                ctx.violation(key.clone(), what, case);
                for _ in 1..count.min(1000) {
                    ctx.violation(key.clone(), String::new(), Value::Null);
                }
            }
            tot.valid_bases.extend(a.valid_bases);
            if tot.dev_stats.len() < a.dev_stats.len() {
                tot.dev_stats.resize(a.dev_stats.len(), [0; 3]);
            }
            for (k, s) in a.dev_stats.iter().enumerate() {
                for x in 0..3 {
                    tot.dev_stats[k][x] += s[x];
                }
            }
            tot.size_mismatch += a.size_mismatch;
            for (k, v) in a.per_kind {
                let e = tot.per_kind.entry(k).or_default();
                e[0] += v[0];
                e[1] += v[1];
            }
            for (k, v) in a.alone {
                *tot.alone.entry(k).or_default() += v;
            }
            if tot.samples.len() < 8 {
                tot.samples.extend(a.samples.into_iter().take(1));
            }
            skipped += a.skipped;
        },
    );
    if skipped > 0 {
        ctx.cap(format!("time budget: {skipped} of {n} cases of a sweep not evaluated"));
    }
}

fn base_of(b: &BaseId, ni: u32, no: u32) -> Case {
    let ins = space::seq_at(IN_LETTERS.len() as u64, ni, b.ins as u64);
    let outs = space::seq_at(OUT_LETTERS.len() as u64, no, b.outs as u64);
    make_base(b.kind as usize, &ins, &outs, b.polv, b.height)
}

fn base_name(b: &BaseId, ni: u32, no: u32) -> String {
    let ins = space::seq_at(IN_LETTERS.len() as u64, ni, b.ins as u64);
    let outs = space::seq_at(OUT_LETTERS.len() as u64, no, b.outs as u64);
    format!(
        "{} inputs=[{}] outputs=[{}] policies={{{}}} height={}",
        KINDS[b.kind as usize],
        ins.iter().map(|l| IN_LETTERS[*l as usize]).collect::<Vec<_>>().join(", "),
        outs.iter().map(|l| OUT_LETTERS[*l as usize]).collect::<Vec<_>>().join(", "),
        POLV[b.polv as usize],
        b.height
    )
}

/// (policy variant, height) combinations of phase A
const POLH: [(u8, u32); 7] = [(0, 5), (2, 5), (1, 5), (1, 0), (1, 4), (1, 9), (1, 10)];

/// Phase A over all kinds with the given sequence bounds; returns the valid bases
/// (height 5, policy variants 0 and 1).
fn phase_a(ctx: &Ctx, tot: &mut Totals, ni: u32, no: u32, polh: &[(u8, u32)]) -> Vec<BaseId> {
    let n_in = space::seq_count(IN_LETTERS.len() as u64, ni);
    let n_out = space::seq_count(OUT_LETTERS.len() as u64, no);
    let prod = space::Product::new(&[polh.len() as u64, n_out, n_in, KINDS.len() as u64]);
    let before = tot.valid_bases.len();
    sweep(ctx, prod.size(), tot, |i| {
        let d = prod.digits(i);
        let (polv, height) = polh[d[0] as usize];
        let b = BaseId {
            kind: d[3] as u8,
            ins: d[2] as u32,
            outs: d[1] as u32,
            polv,
            height,
        };
        let case = base_of(&b, ni, no);
        Some(Gen {
            fp: hash64(&(0u8, b.kind, b.ins, b.outs, b.polv)),
            derivation: Deriv::Base(b, ni, no),
            want_sample: false,
            base: (height == 5 && polv != 2).then_some(b),
            devs: vec![],
            case,
        })
    });
    tot.valid_bases.split_off(before)
}

fn phase_dev(ctx: &Ctx, tot: &mut Totals, bases: &[BaseId], ni: u32, no: u32, devs: &[Dev], depth: usize) {
    let nd = devs.len() as u64;
    let per_base = if depth == 1 { nd } else { nd * nd };
    sweep(ctx, bases.len() as u64 * per_base, tot, |i| {
        let b = &bases[(i / per_base) as usize];
        let r = i % per_base;
        let ds: Vec<usize> = if depth == 1 {
            vec![r as usize]
        } else {
            let (x, y) = ((r / nd) as usize, (r % nd) as usize);
            if x == y {
                return None
            }
            vec![x, y]
        };
        let mut case = base_of(b, ni, no);
        for d in &ds {
            if !(devs[*d].f)(&mut case) {
                return None
            }
        }
        let names: Vec<&str> = ds.iter().map(|d| devs[*d].name).collect();
        // fingerprint: kind, input letters, number of outputs, policy variant, deviations
        Some(Gen {
            fp: hash64(&(1u8, b.kind, b.ins, space::seq_at(7, no, b.outs as u64).len(), b.polv, &ds)),
            derivation: Deriv::Dev(*b, ni, no, names),
            want_sample: false,
            base: None,
            devs: ds,
            case,
        })
    });
}

fn phase_mint(ctx: &Ctx, tot: &mut Totals) {
    let prod = space::Product::new(&[3, 2, 2, 3, 2]);
    sweep(ctx, prod.size(), tot, |i| {
        let d = prod.digits(i);
        let height = [0u32, 5][d[4] as usize];
        let ptr = match d[0] {
            0 => height,
            1 => height + 1,
            _ => {
                if height == 0 {
                    return None
                }
                height - 1
            }
        };
        let case = make_mint(height, ptr, d[1] as u16, d[2] as u8, [1 << 20, 296, 295][d[3] as usize]);
        Some(Gen {
            fp: hash64(&(2u8, &case)),
            derivation: Deriv::Text(format!("mint: height={height} pointer={ptr} output_index={} asset_tag={} max_size={}", d[1], d[2], case.lim.max_size)),
            want_sample: i == 0,
            base: None,
            devs: vec![],
            case,
        })
    });
}

// ------------------------------------------------------------------ probes

/// Rules recalled from the Fuel specification that Appendix D does not ground: the
/// subject's behaviour is recorded, never judged.
fn probes(ctx: &Ctx) {
    let script = |ins: &[u64], outs: &[u64]| make_base(0, ins, outs, 0, 5);
    let mut list: Vec<(&str, &str, Case)> = vec![];
    let mut c = script(&[1], &[]);
    if let In::Coin { pgas, .. } = &mut c.tx.ins[0] {
        *pgas = c.lim.max_gas_per_tx + 1;
    }
    list.push(("predicate_gas_used_counts_towards_max_gas", "predicate_gas_used = max_gas_per_tx + 1 on a predicate coin", c));
    let mut c = script(&[1], &[]);
    c.lim.max_gas_per_tx = u64::MAX;
    if let In::Coin { pgas, .. } = &mut c.tx.ins[0] {
        *pgas = u64::MAX / 2;
    }
    list.push(("predicate_gas_used_above_max_gas_per_predicate", "predicate_gas_used far above MAX_GAS_PER_PREDICATE, max_gas_per_tx = u64::MAX", c));
    let mut c = script(&[0, 8], &[5]);
    if let In::Contract { utxo, .. } = &mut c.tx.ins[1] {
        *utxo = (1, 0);
    }
    list.push(("contract_input_shares_utxo_id_with_coin", "contract input utxo id == coin input utxo id", c));
    let mut c = script(&[0, 8, 8], &[5, 5]);
    if let In::Contract { utxo, .. } = &mut c.tx.ins[2] {
        *utxo = (2, 1);
    }
    list.push(("two_contract_inputs_same_utxo_id", "two contract inputs (different contract ids) with one utxo id", c));
    let mut c = script(&[0, 6, 6], &[]);
    for k in [1, 2] {
        if let In::Msg { amount, .. } = &mut c.tx.ins[k] {
            *amount = u64::MAX;
        }
    }
    list.push(("retryable_sum_overflows_u64", "two message-data inputs of u64::MAX each", c));
    let mut c = script(&[0], &[]);
    c.tx.pol.tip = Some(u64::MAX);
    list.push(("tip_u64_max", "tip policy = u64::MAX", c));
    let mut c = make_base(4, &[0], &[], 0, 5);
    if let Body::Upload { count, index, proof, .. } = &mut c.tx.body {
        *count = 0;
        *index = 0;
        proof.clear();
    }
    list.push(("upload_zero_subsections", "Upload with subsections_number = 0", c));
    let mut c = script(&[0], &[0]);
    if let In::Coin { amount, .. } = &mut c.tx.ins[0] {
        *amount = 7;
    }
    if let Out::Coin { amount, .. } = &mut c.tx.outs[0] {
        *amount = 0;
    }
    list.push(("zero_amount_coin_output", "coin output of amount 0, inputs == fee limit", c));
    let out: Vec<Value> = list
        .into_iter()
        .map(|(name, what, case)| {
            let (obs, _) = subject(&case);
            let r = reference(&case);
            json!({"probe": name, "what": what, "subject": format!("{obs:?}"), "grounded_rules_broken": r.broken, "judged": false})
        })
        .collect();
    ctx.set("probes", json!(out));
}

// ------------------------------------------------------------------ driver

fn explore(ctx: &Ctx) {
    ctx.rule(
        "enumeration of base transactions (kind x input letter sequences x output letter sequences x policy variant x height), \
         then every deviation (thorough: every ordered pair) applied to every reference-valid base; each case goes through \
         into_checked_basic and the reference validator. Every evaluated case is non-trivial (a real transaction value was \
         built and checked); distinct = distinct (base shape, deviations, set of broken rules, subject Ok/Err)",
    );
    ctx.assume("sha2 and the harness RFC 6962 / sparse-Merkle references (vcore::oracle) are correct");
    ctx.assume("gas costs are GasCosts::free() and gas_per_byte = 0, predicate_gas_used = 0: max gas of a transaction is the script gas limit (0 for other kinds)");
    ctx.assume("only the postcard serialization of ConsensusParameters::standard() is treated as a decodable upgrade payload; five 0xff bytes as not decodable");
    ctx.assume("signatures and predicates are not part of the basic checks (dummy witnesses, predicate owners do not match)");
    ctx.set(
        "dont_care",
        json!([
            "which ValidityError is returned for an invalid transaction",
            "presence of zero-valued entries in the recorded free-balance map",
            "min_gas / max_gas recorded in the metadata (C18)",
            "overflow of the retryable (message-data) sum, predicate_gas_used, tip: probes only",
            "duplicate utxo ids involving contract inputs: probes only",
        ]),
    );
    let devs = deviations();
    let mut tot = Totals {
        valid_bases: vec![],
        dev_stats: vec![[0; 3]; devs.len()],
        size_mismatch: 0,
        per_kind: BTreeMap::new(),
        samples: vec![],
        alone: BTreeMap::new(),
    };
    let mut phases = vec![];
    let mut note = |ctx: &Ctx, name: String, before: u64| {
        phases.push(json!({"phase": name, "evaluations": ctx_evals(ctx) - before, "elapsed_s": ctx.elapsed()}));
    };

    // Phase A
    let e0 = ctx_evals(ctx);
    phase_mint(ctx, &mut tot);
    note(ctx, "mint product".into(), e0);
    let (ni, no) = (2u32, 2u32);
    let e0 = ctx_evals(ctx);
    let small = phase_a(ctx, &mut tot, ni, no, &POLH);
    note(ctx, format!("A: inputs<={ni} outputs<={no}, 7 policy/height combinations; valid bases kept: {}", small.len()), e0);
    let e0 = ctx_evals(ctx);
    let big = if ctx.thorough() {
        phase_a(ctx, &mut tot, 3, 3, &POLH)
    } else {
        // quick: inputs<=3 x outputs<=2 with policy variants 0 and 1, inputs<=2 x
        // outputs<=3 with policy variant 0, all at height 5; phase B then uses the
        // valid 3x2 bases of variant 0 and those of variant 1 with <= 2 inputs
        let a = phase_a(ctx, &mut tot, 3, 2, &[POLH[0], POLH[2]]);
        let _ = phase_a(ctx, &mut tot, 2, 3, &POLH[..1]);
        let two = space::seq_count(IN_LETTERS.len() as u64, 2) as u32;
        a.into_iter().filter(|b| b.polv == 0 || b.ins < two).collect()
    };
    note(ctx, format!("A: larger bounds ({}); valid bases kept: {}", ctx.pick("3x2 with policy variants 0,1 and 2x3 with variant 0, height 5", "3x3, 7 combinations"), big.len()), e0);

    // Phase B
    let e0 = ctx_evals(ctx);
    let (bni, bno) = ctx.pick((3u32, 2u32), (3, 3));
    phase_dev(ctx, &mut tot, &big, bni, bno, &devs, 1);
    note(ctx, format!("B: {} valid bases (inputs<={bni} outputs<={bno}) x {} deviations", big.len(), devs.len()), e0);

    // Phase C
    if ctx.thorough() {
        let e0 = ctx_evals(ctx);
        phase_dev(ctx, &mut tot, &small, ni, no, &devs, 2);
        note(ctx, format!("C: {} valid bases (inputs<=2 outputs<=2) x {} ordered deviation pairs", small.len(), devs.len() * (devs.len() - 1)), e0);
    }

    probes(ctx);

    // evidence
    let mut ineffective = vec![];
    let dev_table: Vec<Value> = devs
        .iter()
        .enumerate()
        .map(|(k, d)| {
            let s = tot.dev_stats[k];
            if (d.breaks && s[1] == 0) || (!d.breaks && s[2] == 0) {
                ineffective.push(d.name);
            }
            json!({"name": d.name, "meant_to_break_a_rule": d.breaks, "applied": s[0], "single_reference_invalid": s[1], "single_reference_valid": s[2]})
        })
        .collect();
    ctx.set("deviations", json!(dev_table));
    ctx.set("phases", json!(phases));
    ctx.set("alphabets", json!({"kinds": KINDS, "inputs": IN_LETTERS, "outputs": OUT_LETTERS, "policies": POLV, "heights": [0, 4, 5, 9, 10], "limits": Limits::shrunk()}));
    ctx.set("per_kind_reference_valid_invalid", json!(tot.per_kind));
    ctx.set("size_formula_mismatches", json!(tot.size_mismatch));
    ctx.set(
        "cpu_seconds",
        json!({
            "reference_validator": NS_REF.load(std::sync::atomic::Ordering::Relaxed) as f64 / 1e9,
            "build_and_into_checked_basic": NS_SUBJ.load(std::sync::atomic::Ordering::Relaxed) as f64 / 1e9,
        }),
    );
    // written-out cases of this run: the mint case, the first valid base with >= 2
    // inputs and >= 1 output of every kind, and two of them under one deviation
    for s in tot.samples.iter().take(1) {
        ctx.sample(s.clone());
    }
    for k in 0..KINDS.len() as u8 {
        let Some(b) = small.iter().find(|b| b.kind == k && b.ins > 9 && b.outs > 0) else {
            continue
        };
        let c = base_of(b, ni, no);
        ctx.sample(sample_json(&Deriv::Base(*b, ni, no).render(), &c, &judge(&c)));
        if k < 2 {
            let name = ["two_change_outputs_one_asset", "create_slots_unsorted"][k as usize];
            let d = devs.iter().find(|d| d.name == name).expect("deviation");
            for b2 in small.iter().filter(|b| b.kind == k) {
                let mut c2 = base_of(b2, ni, no);
                if (d.f)(&mut c2) {
                    ctx.sample(sample_json(&Deriv::Dev(*b2, ni, no, vec![d.name]).render(), &c2, &judge(&c2)));
                    break
                }
            }
        }
    }
    // every rule of the reference must have been exercised in isolation (a case in which
    // it is the only broken rule), otherwise a subject that ignores the rule could pass
    let never_alone: Vec<&str> =
        ALL_RULES.iter().copied().filter(|r| !tot.alone.contains_key(r) && !NEVER_ALONE.contains(r)).collect();
    ctx.set("cases_where_rule_is_the_only_broken_rule", json!(tot.alone));
    ctx.set("rules_that_cannot_be_isolated", json!(NEVER_ALONE));
    if !never_alone.is_empty() && ctx.violation_count() == 0 {
        panic!("rules never exercised in isolation (hole in the space): {never_alone:?}");
    }
    if !ineffective.is_empty() && ctx.violation_count() == 0 {
        panic!("deviations that never had their intended effect (hole in the alphabet): {ineffective:?}");
    }
    if tot.size_mismatch > 0 && ctx.violation_count() == 0 {
        panic!("harness size formula disagrees with Serialize::size on {} cases", tot.size_mismatch);
    }
}

static EVALS: std::sync::atomic::AtomicU64 = std::sync::atomic::AtomicU64::new(0);

fn ctx_evals(_ctx: &Ctx) -> u64 {
    EVALS.load(std::sync::atomic::Ordering::Relaxed)
}

fn replay(case: &Value, ctx: &Ctx) {
    let c: Case = serde_json::from_value(case["case"].clone()).expect("case");
    let d = case["derivation"].as_str().unwrap_or("");
    if let Some((key, what)) = judge(&c).finding {
        ctx.violation(key, format!("{what} [{d}]"), case.clone());
    }
}

fn main() {
    run_check("C19", Level::Exploration, explore, replay)
}
