//! C21 — Register arithmetic and logic instructions follow the specification.
//!
//! Space (every element is executed; nothing is sampled):
//!   34 register-level opcodes (ADD ADDI SUB SUBI MUL MULI DIV DIVI MOD MODI EXP EXPI
//!   MLOG MROO MLDV AND ANDI OR ORI XOR XORI NOT EQ GT LT SLL SLLI SRL SRLI MOVE MOVI
//!   NOOP FLAG NIOP; NIOP has 18 valid (op,width) modes and 64 imm06 values)
//!   x operand pairs from B^2 (|B| = 41 boundary words, quick; ~230 in thorough)
//!   x all 4 `$flag` values x 6 register layouts (dest 0x10 / 0x3f, dest aliasing a
//!   source, a system register as source), MLDV over B^3,
//!   x ALL 4096 imm12 values for the 11 `*I` forms (x B x flags {0,3} and x a reduced
//!   12-word set x all 4 flags in quick; B x 4 flags in thorough), ALL 2^18 imm18
//!   values for MOVI,
//!   x NIOP: ALL 65,536 8-bit operand pairs x 6 ops x 4 flags (clean and dirty upper
//!   bits), boundary sets at 16/32 bits with dirty upper bits, all 64 imm06 values,
//!   x dense small grids and exact-power boundaries for EXP/MLOG/MROO,
//!   x ALL 16 reserved registers as destination for every opcode with a destination.
//! Bound: the operand alphabets above (listed in the evidence), one instruction.
//!
//! Execution: ONE prepared VM (`vmkit::vm_for_script`), per case clone + set operand
//! registers, `$flag`, dirty `$of`/`$err` + inject ONE raw instruction word (encoded
//! here from the opcode table / field layout, not with fuel-asm constructors).
//!
//! Oracle: per-opcode reference written from the specification as quoted in the doc
//! comments of fuel-asm (`Flags`, `PanicReason`, opcode table, `narrowint`) and of the
//! ALU helpers, with u128 / `vcore::oracle::Big` arithmetic: destination value, `$of`,
//! `$err`, `$pc + 4`, every other register unchanged, or the specified panic reason.
//! Reserved destination: `ReservedRegisterNotWritable` and every register except
//! `$cgas/$ggas` unchanged. Don't-cares are listed in the evidence (`dont_care`).

use fuel_asm::{
    PanicReason,
    RegId,
};
use std::collections::{
    BTreeMap,
    HashSet,
};
use vcore::{
    json,
    oracle::Big,
    run::hash64,
    run_check,
    space,
    vmkit::{
        self,
        Step,
        Vm,
        REGS,
    },
    Ctx,
    Level,
    Value,
};

// ------------------------------------------------------------------ register file

const R_ONE: usize = 0x01;
const R_OF: usize = 0x02;
const R_PC: usize = 0x03;
const R_ERR: usize = 0x08;
const R_GGAS: usize = 0x09;
const R_CGAS: usize = 0x0a;
const R_FLAG: usize = 0x0f;
const FIRST_WRITABLE: u8 = 0x10;

/// `$of` / `$err` hold these before every case so that "cleared" is observable.
const DIRTY_OF: u64 = 0xa5a5_0000_0000_5a5a;
const DIRTY_ERR: u64 = 0x77;

const F_UNSAFEMATH: u64 = 1;
const F_WRAPPING: u64 = 2;

// ------------------------------------------------------------------ opcode table

#[derive(Clone, Copy, PartialEq, Eq, Debug, Hash)]
enum Form {
    /// dst, lhs, rhs registers
    Rrr,
    /// dst, lhs registers, imm12
    Rri12,
    /// dst, src registers
    Rr,
    /// dst register, imm18
    Ri18,
    /// dst + three source registers
    Rrrr,
    /// dst, lhs, rhs registers, imm06
    Rrri6,
    /// no arguments
    Nullary,
    /// one source register
    R,
}

#[allow(clippy::upper_case_acronyms)]
#[derive(Clone, Copy, PartialEq, Eq, Debug, Hash, PartialOrd, Ord)]
enum Op {
    ADD,
    ADDI,
    SUB,
    SUBI,
    MUL,
    MULI,
    DIV,
    DIVI,
    MOD,
    MODI,
    EXP,
    EXPI,
    MLOG,
    MROO,
    MLDV,
    AND,
    ANDI,
    OR,
    ORI,
    XOR,
    XORI,
    NOT,
    EQ,
    GT,
    LT,
    SLL,
    SLLI,
    SRL,
    SRLI,
    MOVE,
    MOVI,
    NOOP,
    FLAG,
    NIOP,
}

/// (op, mnemonic, opcode byte, argument form) — bytes from the `impl_instructions!`
/// table in fuel-asm/src/lib.rs; cross-checked against `fuel_asm::Opcode` at start-up.
const OPS: [(Op, &str, u8, Form); 34] = [
    (Op::ADD, "ADD", 0x10, Form::Rrr),
    (Op::ADDI, "ADDI", 0x50, Form::Rri12),
    (Op::SUB, "SUB", 0x20, Form::Rrr),
    (Op::SUBI, "SUBI", 0x59, Form::Rri12),
    (Op::MUL, "MUL", 0x1b, Form::Rrr),
    (Op::MULI, "MULI", 0x55, Form::Rri12),
    (Op::DIV, "DIV", 0x12, Form::Rrr),
    (Op::DIVI, "DIVI", 0x52, Form::Rri12),
    (Op::MOD, "MOD", 0x19, Form::Rrr),
    (Op::MODI, "MODI", 0x54, Form::Rri12),
    (Op::EXP, "EXP", 0x14, Form::Rrr),
    (Op::EXPI, "EXPI", 0x53, Form::Rri12),
    (Op::MLOG, "MLOG", 0x17, Form::Rrr),
    (Op::MROO, "MROO", 0x18, Form::Rrr),
    (Op::MLDV, "MLDV", 0x22, Form::Rrrr),
    (Op::AND, "AND", 0x11, Form::Rrr),
    (Op::ANDI, "ANDI", 0x51, Form::Rri12),
    (Op::OR, "OR", 0x1d, Form::Rrr),
    (Op::ORI, "ORI", 0x56, Form::Rri12),
    (Op::XOR, "XOR", 0x21, Form::Rrr),
    (Op::XORI, "XORI", 0x5a, Form::Rri12),
    (Op::NOT, "NOT", 0x1c, Form::Rr),
    (Op::EQ, "EQ", 0x13, Form::Rrr),
    (Op::GT, "GT", 0x15, Form::Rrr),
    (Op::LT, "LT", 0x16, Form::Rrr),
    (Op::SLL, "SLL", 0x1e, Form::Rrr),
    (Op::SLLI, "SLLI", 0x57, Form::Rri12),
    (Op::SRL, "SRL", 0x1f, Form::Rrr),
    (Op::SRLI, "SRLI", 0x58, Form::Rri12),
    (Op::MOVE, "MOVE", 0x1a, Form::Rr),
    (Op::MOVI, "MOVI", 0x72, Form::Ri18),
    (Op::NOOP, "NOOP", 0x47, Form::Nullary),
    (Op::FLAG, "FLAG", 0x48, Form::R),
    (Op::NIOP, "NIOP", 0x23, Form::Rrri6),
];

fn info(op: Op) -> (&'static str, u8, Form) {
    let e = &OPS[op as usize];
    debug_assert!(e.0 == op);
    (e.1, e.2, e.3)
}

fn op_by_name(n: &str) -> Option<Op> {
    OPS.iter().find(|e| e.1 == n).map(|e| e.0)
}

const RRR_OPS: [Op; 16] = [
    Op::ADD,
    Op::SUB,
    Op::MUL,
    Op::DIV,
    Op::MOD,
    Op::EXP,
    Op::MLOG,
    Op::MROO,
    Op::AND,
    Op::OR,
    Op::XOR,
    Op::EQ,
    Op::GT,
    Op::LT,
    Op::SLL,
    Op::SRL,
];
const RRI_OPS: [Op; 11] = [
    Op::ADDI,
    Op::SUBI,
    Op::MULI,
    Op::DIVI,
    Op::MODI,
    Op::EXPI,
    Op::ANDI,
    Op::ORI,
    Op::XORI,
    Op::SLLI,
    Op::SRLI,
];
const NIOP_OPS: [&str; 6] = ["ADD", "SUB", "MUL", "EXP", "SLL", "XNOR"];
const NIOP_WIDTHS: [&str; 3] = ["U8", "U16", "U32"];

fn niop_imm(op: u32, width: u32) -> u32 {
    // narrowint.rs: bits 0..3 = op, bits 4..5 = width
    op | (width << 4)
}

// ------------------------------------------------------------------ a case

#[derive(Clone, Copy, Debug)]
struct Case {
    op: Op,
    a: u8,
    b: u8,
    c: u8,
    d: u8,
    imm: u32,
    flag: u64,
    /// registers written before the instruction, in order
    sets: [(u8, u64); 3],
    nsets: u8,
}

impl Case {
    fn new(op: Op) -> Self {
        Case {
            op,
            a: 0,
            b: 0,
            c: 0,
            d: 0,
            imm: 0,
            flag: 0,
            sets: [(0, 0); 3],
            nsets: 0,
        }
    }

    fn set(mut self, r: u8, v: u64) -> Self {
        self.sets[self.nsets as usize] = (r, v);
        self.nsets += 1;
        self
    }

    fn sets(&self) -> &[(u8, u64)] {
        &self.sets[..self.nsets as usize]
    }

    /// The 32-bit instruction word (big-endian fields: opcode byte, then 6-bit
    /// register ids from the top, immediates in the low bits, unused bits zero).
    fn raw(&self) -> u32 {
        let (_, code, form) = info(self.op);
        let (a, b, c, d) = (self.a as u32, self.b as u32, self.c as u32, self.d as u32);
        let args = match form {
            Form::Rrr => a << 18 | b << 12 | c << 6,
            Form::Rri12 => a << 18 | b << 12 | (self.imm & 0xfff),
            Form::Rr => a << 18 | b << 12,
            Form::Ri18 => a << 18 | (self.imm & 0x3ffff),
            Form::Rrrr => a << 18 | b << 12 | c << 6 | d,
            Form::Rrri6 => a << 18 | b << 12 | c << 6 | (self.imm & 0x3f),
            Form::Nullary => 0,
            Form::R => a << 18,
        };
        (code as u32) << 24 | args
    }

    fn has_dest(&self) -> bool {
        !matches!(info(self.op).2, Form::Nullary | Form::R)
    }

    fn to_json(&self) -> Value {
        json!({
            "op": info(self.op).0, "a": self.a, "b": self.b, "c": self.c, "d": self.d,
            "imm": self.imm, "flag": self.flag,
            "sets": self.sets().iter().map(|(r, v)| json!([r, v])).collect::<Vec<_>>(),
            "raw": format!("{:#010x}", self.raw()),
        })
    }

    fn from_json(v: &Value) -> Case {
        let mut c = Case::new(op_by_name(v["op"].as_str().expect("op")).expect("known op"));
        c.a = v["a"].as_u64().expect("a") as u8;
        c.b = v["b"].as_u64().expect("b") as u8;
        c.c = v["c"].as_u64().expect("c") as u8;
        c.d = v["d"].as_u64().expect("d") as u8;
        c.imm = v["imm"].as_u64().expect("imm") as u32;
        c.flag = v["flag"].as_u64().expect("flag");
        for s in v["sets"].as_array().expect("sets") {
            c = c.set(s[0].as_u64().expect("reg") as u8, s[1].as_u64().expect("val"));
        }
        c
    }

    /// Dense index of the class (per-class counts): opcodes, then NIOP by imm06.
    fn class_idx(&self) -> usize {
        if self.op == Op::NIOP {
            OPS.len() + (self.imm & 0x3f) as usize
        } else {
            self.op as usize
        }
    }

    /// Class name used in violation keys and per-class counts.
    fn class(&self) -> String {
        if self.op == Op::NIOP {
            let (o, w) = (self.imm & 0xf, (self.imm >> 4) & 3);
            if o < 6 && w < 3 {
                format!("NIOP.{}.{}", NIOP_OPS[o as usize], NIOP_WIDTHS[w as usize])
            } else {
                "NIOP.invalid_imm".to_string()
            }
        } else {
            info(self.op).0.to_string()
        }
    }
}

// ------------------------------------------------------------------ reference

/// What the reference demands of one register after the instruction.
#[derive(Clone, Copy, Debug, PartialEq, Eq)]
enum W {
    Exact(u64),
    /// any non-zero value (exact value not pinned by the documentation)
    NonZero,
    /// either untouched or cleared
    KeepOrZero,
    /// any value strictly below the bound
    Below(u64),
}

impl W {
    fn admits(&self, before: u64, after: u64) -> bool {
        match *self {
            W::Exact(v) => after == v,
            W::NonZero => after != 0,
            W::KeepOrZero => after == before || after == 0,
            W::Below(l) => after < l,
        }
    }
}

#[derive(Clone, Copy, Debug)]
struct OkExp {
    dest: Option<W>,
    of: W,
    err: W,
    flag: Option<u64>,
}

#[derive(Clone, Copy, Debug)]
enum Exp {
    Ok(OkExp),
    /// accepted reasons; `unchanged` = every non-gas register must be unchanged
    Panic {
        reasons: [Option<PanicReason>; 2],
        unchanged: bool,
    },
}

fn ok(dest: u64, of: u64) -> Result<OkExp, PanicReason> {
    Ok(OkExp {
        dest: Some(W::Exact(dest)),
        of: W::Exact(of),
        err: W::Exact(0),
        flag: None,
    })
}

/// "$of receives the high half; without F_WRAPPING a non-zero high half panics".
fn capture(low: u64, high: u64, wrapping: bool) -> Result<OkExp, PanicReason> {
    if high != 0 && !wrapping {
        return Err(PanicReason::ArithmeticOverflow)
    }
    ok(low, high)
}

/// Undefined result: panic unless F_UNSAFEMATH, then `$rA = 0`, `$err = 1`, `$of = 0`.
fn undefined(unsafe_math: bool) -> Result<OkExp, PanicReason> {
    if !unsafe_math {
        return Err(PanicReason::ArithmeticError)
    }
    Ok(OkExp {
        dest: Some(W::Exact(0)),
        of: W::Exact(0),
        err: W::Exact(1),
        flag: None,
    })
}

/// b ** e if it is at most `max`, else None. (b ** 0 = 1 for every b.)
fn ref_pow(b: u64, e: u64, max: u64) -> Option<u64> {
    if e == 0 {
        return if 1 <= max { Some(1) } else { None }
    }
    if b == 0 {
        return Some(0)
    }
    if b == 1 {
        return if 1 <= max { Some(1) } else { None }
    }
    if e >= 64 {
        return None // b >= 2, so b ** e >= 2 ** 64
    }
    let mut acc: u128 = 1;
    for _ in 0..e {
        acc *= b as u128; // acc <= max < 2^64 before, so no u128 overflow
        if acc > max as u128 {
            return None
        }
    }
    Some(acc as u64)
}

/// floor(log_c(b)) for b >= 1, c >= 2: the largest k with c ** k <= b.
fn ref_ilog(b: u64, c: u64) -> u64 {
    let mut k = 0;
    let mut p: u128 = c as u128;
    while p <= b as u128 {
        k += 1;
        p *= c as u128;
    }
    k
}

/// r ** n <= b ?
fn pow_le(r: u64, n: u64, b: u64) -> bool {
    ref_pow(r, n, b).is_some()
}

/// floor(b ** (1/n)) for n >= 1: the largest r with r ** n <= b (binary search).
fn ref_root(b: u64, n: u64) -> u64 {
    let (mut lo, mut hi) = (0u128, b as u128);
    while lo < hi {
        let mid = lo + (hi - lo + 1) / 2;
        if pow_le(mid as u64, n, b) {
            lo = mid;
        } else {
            hi = mid - 1;
        }
    }
    lo as u64
}

fn ref_muldiv(b: u64, c: u64, d: u64) -> (u64, u64) {
    let prod = Big::from_u64(b).mul(&Big::from_u64(c));
    let div = if d == 0 { Big::pow2(64) } else { Big::from_u64(d) };
    let (q, _) = prod.divrem(&div);
    let low = q.low_bits(64).to_u64().expect("64 bits");
    let high = q.shr(64).to_u64().expect("quotient below 2^128");
    (low, high)
}

/// Expectation for a writable destination (or an instruction without destination).
fn plain(case: &Case, pre: &[u64; REGS]) -> Result<OkExp, PanicReason> {
    let fl = pre[R_FLAG];
    let unsafe_math = fl & F_UNSAFEMATH != 0;
    let wrapping = fl & F_WRAPPING != 0;
    let x = pre[case.b as usize];
    let form = info(case.op).2;
    let y = if form == Form::Rri12 {
        (case.imm & 0xfff) as u64
    } else {
        pre[case.c as usize]
    };
    match case.op {
        Op::ADD | Op::ADDI => {
            let s = x as u128 + y as u128;
            capture(s as u64, (s >> 64) as u64, wrapping)
        }
        Op::SUB | Op::SUBI => {
            if x >= y {
                capture(x - y, 0, wrapping)
            } else {
                // two's complement 128-bit result: low = 2^64 - (y - x), high = all ones
                let low = ((1u128 << 64) - (y - x) as u128) as u64;
                capture(low, u64::MAX, wrapping)
            }
        }
        Op::MUL | Op::MULI => {
            let p = x as u128 * y as u128;
            capture(p as u64, (p >> 64) as u64, wrapping)
        }
        Op::DIV | Op::DIVI => {
            if y == 0 {
                undefined(unsafe_math)
            } else {
                ok(x / y, 0)
            }
        }
        Op::MOD | Op::MODI => {
            if y == 0 {
                undefined(unsafe_math)
            } else {
                ok(x % y, 0)
            }
        }
        Op::EXP | Op::EXPI => match ref_pow(x, y, u64::MAX) {
            Some(v) => ok(v, 0),
            None if !wrapping => Err(PanicReason::ArithmeticOverflow),
            None => ok(0, 1),
        },
        Op::MLOG => {
            if x == 0 || y <= 1 {
                undefined(unsafe_math)
            } else {
                ok(ref_ilog(x, y), 0)
            }
        }
        Op::MROO => {
            if y == 0 {
                undefined(unsafe_math)
            } else {
                ok(ref_root(x, y), 0)
            }
        }
        Op::MLDV => {
            let (low, high) = ref_muldiv(x, y, pre[case.d as usize]);
            capture(low, high, wrapping)
        }
        Op::AND | Op::ANDI => ok(x & y, 0),
        Op::OR | Op::ORI => ok(x | y, 0),
        Op::XOR | Op::XORI => ok(x ^ y, 0),
        Op::NOT => ok(!x, 0),
        Op::EQ => ok((x == y) as u64, 0),
        Op::GT => ok((x > y) as u64, 0),
        Op::LT => ok((x < y) as u64, 0),
        Op::SLL | Op::SLLI => ok(if y >= 64 { 0 } else { x << y }, 0),
        Op::SRL | Op::SRLI => ok(if y >= 64 { 0 } else { x >> y }, 0),
        Op::MOVE => ok(x, 0),
        Op::MOVI => ok((case.imm & 0x3ffff) as u64, 0),
        Op::NOOP => Ok(OkExp {
            dest: None,
            of: W::Exact(0),
            err: W::Exact(0),
            flag: None,
        }),
        Op::FLAG => {
            let v = pre[case.a as usize];
            if v & !(F_UNSAFEMATH | F_WRAPPING) != 0 {
                return Err(PanicReason::InvalidFlags)
            }
            Ok(OkExp {
                dest: None,
                of: W::KeepOrZero,
                err: W::KeepOrZero,
                flag: Some(v),
            })
        }
        Op::NIOP => {
            let (o, w) = (case.imm & 0xf, (case.imm >> 4) & 3);
            if o > 5 || w > 2 {
                return Err(PanicReason::InvalidImmediateValue)
            }
            let bits = 8u32 << w;
            let mask = (1u64 << bits) - 1;
            // operands are truncated to the width
            let (x, y) = (x & mask, pre[case.c as usize] & mask);
            let narrow_overflow = |dest: W| -> Result<OkExp, PanicReason> {
                if !wrapping {
                    return Err(PanicReason::ArithmeticOverflow)
                }
                Ok(OkExp {
                    dest: Some(dest),
                    of: W::NonZero,
                    err: W::Exact(0),
                    flag: None,
                })
            };
            match o {
                0 => {
                    let s = x + y;
                    capture(s & mask, s >> bits, wrapping)
                }
                1 => {
                    if x >= y {
                        ok(x - y, 0)
                    } else {
                        narrow_overflow(W::Exact((x + (1u64 << bits) - y) & mask))
                    }
                }
                2 => {
                    let p = x as u128 * y as u128;
                    capture(p as u64 & mask, (p >> bits) as u64, wrapping)
                }
                3 => match ref_pow(x, y, mask) {
                    Some(v) => ok(v, 0),
                    None => narrow_overflow(W::Below(1u64 << bits)),
                },
                4 => ok(if y >= bits as u64 { 0 } else { (x << y) & mask }, 0),
                _ => ok(!(x ^ y) & mask, 0),
            }
        }
    }
}

fn expect(case: &Case, pre: &[u64; REGS]) -> Exp {
    let p = plain(case, pre);
    if case.has_dest() && case.a < FIRST_WRITABLE {
        return Exp::Panic {
            reasons: [Some(PanicReason::ReservedRegisterNotWritable), p.err()],
            unchanged: true,
        }
    }
    match p {
        Ok(o) => Exp::Ok(o),
        Err(r) => Exp::Panic {
            reasons: [Some(r), None],
            unchanged: false,
        },
    }
}

// ------------------------------------------------------------------ run + judge

struct Obs {
    pre: [u64; REGS],
    post: [u64; REGS],
    step: Step,
}

fn run_case(base: &Vm, case: &Case) -> Obs {
    let mut vm = base.clone();
    vmkit::set_reg(&mut vm, R_OF, DIRTY_OF);
    vmkit::set_reg(&mut vm, R_ERR, DIRTY_ERR);
    vmkit::set_reg(&mut vm, R_FLAG, case.flag);
    for (r, v) in case.sets() {
        vmkit::set_reg(&mut vm, *r as usize, *v);
    }
    let pre = vmkit::regs(&vm);
    let step = vmkit::inject_raw(&mut vm, case.raw());
    let post = vmkit::regs(&vm);
    Obs { pre, post, step }
}

fn is_gas(i: usize) -> bool {
    i == R_GGAS || i == R_CGAS
}

#[derive(Clone, Copy, PartialEq, Eq, PartialOrd, Ord, Debug)]
enum Outcome {
    Ok,
    OkOverflowWrapped,
    OkErrSet,
    PanicArithmeticOverflow,
    PanicArithmeticError,
    PanicInvalidFlags,
    PanicInvalidImmediate,
    PanicReserved,
    PanicReservedOtherReason,
    Other,
}
const N_OUTCOMES: usize = 10;
const N_CLASSES: usize = 34 + 64;
const OUTCOME_NAMES: [&str; N_OUTCOMES] = [
    "ok",
    "ok:overflow_wrapped($of!=0)",
    "ok:$err=1(unsafe math)",
    "panic:ArithmeticOverflow",
    "panic:ArithmeticError",
    "panic:InvalidFlags",
    "panic:InvalidImmediateValue",
    "panic:ReservedRegisterNotWritable",
    "panic:reserved_dest_but_other_applicable_reason",
    "other",
];

fn outcome_of(case: &Case, o: &Obs) -> Outcome {
    match &o.step {
        Step::Proceed => {
            if o.post[R_ERR] == 1 && case.op != Op::FLAG {
                Outcome::OkErrSet
            } else if o.post[R_OF] != 0 && case.op != Op::FLAG {
                Outcome::OkOverflowWrapped
            } else {
                Outcome::Ok
            }
        }
        Step::Panic(PanicReason::ReservedRegisterNotWritable) => Outcome::PanicReserved,
        Step::Panic(_) if case.has_dest() && case.a < FIRST_WRITABLE => {
            Outcome::PanicReservedOtherReason
        }
        Step::Panic(PanicReason::ArithmeticOverflow) => Outcome::PanicArithmeticOverflow,
        Step::Panic(PanicReason::ArithmeticError) => Outcome::PanicArithmeticError,
        Step::Panic(PanicReason::InvalidFlags) => Outcome::PanicInvalidFlags,
        Step::Panic(PanicReason::InvalidImmediateValue) => Outcome::PanicInvalidImmediate,
        _ => Outcome::Other,
    }
}

/// First disagreement between observation and reference: (aspect, description).
fn judge(case: &Case, o: &Obs) -> Option<(&'static str, String)> {
    let exp = expect(case, &o.pre);
    let reserved = case.has_dest() && case.a < FIRST_WRITABLE;
    match exp {
        Exp::Panic { reasons, unchanged } => {
            let got = match &o.step {
                Step::Panic(r) => Some(*r),
                _ => None,
            };
            let accepted = got.is_some() && reasons.iter().any(|r| *r == got);
            if !accepted {
                let want: Vec<String> =
                    reasons.iter().flatten().map(|r| format!("{r:?}")).collect();
                return Some((
                    if reserved { "reserved_dest:outcome" } else { "outcome" },
                    format!("expected panic {} but observed {}", want.join(" or "), o.step.label()),
                ))
            }
            if unchanged {
                for i in 0..REGS {
                    if !is_gas(i) && o.post[i] != o.pre[i] {
                        return Some((
                            "reserved_dest:registers",
                            format!(
                                "register {i:#04x} changed {:#x} -> {:#x} although the write must be refused",
                                o.pre[i], o.post[i]
                            ),
                        ))
                    }
                }
            }
            None
        }
        Exp::Ok(e) => {
            if o.step != Step::Proceed {
                return Some((
                    "outcome",
                    format!("expected success but observed {}", o.step.label()),
                ))
            }
            let want_pc = o.pre[R_PC] + 4;
            if o.post[R_PC] != want_pc {
                return Some((
                    "pc",
                    format!("$pc expected {want_pc:#x}, observed {:#x}", o.post[R_PC]),
                ))
            }
            let dest = case.a as usize;
            if let Some(w) = e.dest {
                if !w.admits(o.pre[dest], o.post[dest]) {
                    return Some((
                        "dest",
                        format!("destination {dest:#04x} expected {w:x?}, observed {:#x}", o.post[dest]),
                    ))
                }
            }
            if !e.of.admits(o.pre[R_OF], o.post[R_OF]) {
                return Some((
                    "of",
                    format!("$of expected {:x?}, observed {:#x}", e.of, o.post[R_OF]),
                ))
            }
            if !e.err.admits(o.pre[R_ERR], o.post[R_ERR]) {
                return Some((
                    "err",
                    format!("$err expected {:x?}, observed {:#x}", e.err, o.post[R_ERR]),
                ))
            }
            let want_flag = e.flag.unwrap_or(o.pre[R_FLAG]);
            if o.post[R_FLAG] != want_flag {
                return Some((
                    "flag",
                    format!("$flag expected {want_flag:#x}, observed {:#x}", o.post[R_FLAG]),
                ))
            }
            for i in 0..REGS {
                let skip = is_gas(i)
                    || i == R_PC
                    || i == R_OF
                    || i == R_ERR
                    || i == R_FLAG
                    || (e.dest.is_some() && i == dest);
                if !skip && o.post[i] != o.pre[i] {
                    return Some((
                        "other_register",
                        format!("register {i:#04x} changed {:#x} -> {:#x}", o.pre[i], o.post[i]),
                    ))
                }
            }
            None
        }
    }
}

fn describe(case: &Case, o: &Obs) -> String {
    let srcs: Vec<String> = case.sets().iter().map(|(r, v)| format!("r{r:#04x}={v:#x}")).collect();
    format!(
        "{} raw={:#010x} dst={:#04x} b={:#04x} c={:#04x} d={:#04x} imm={:#x} $flag={} [{}]",
        case.class(),
        case.raw(),
        case.a,
        case.b,
        case.c,
        case.d,
        case.imm,
        o.pre[R_FLAG],
        srcs.join(" ")
    )
}

fn key_of(case: &Case, aspect: &str) -> String {
    format!("C21:{}:{}", case.class(), aspect)
}

// ------------------------------------------------------------------ enumeration

struct Acc {
    outcomes: [u64; N_OUTCOMES],
    per_class: [u64; N_CLASSES],
    fps: HashSet<u64>,
    /// key -> (first case in this chunk, description, occurrences)
    viols: BTreeMap<String, (Value, String, u64)>,
    panic_regs_untouched: u64,
    panic_regs_touched: u64,
    n: u64,
}

impl Acc {
    fn new() -> Self {
        Acc {
            outcomes: [0; N_OUTCOMES],
            per_class: [0; N_CLASSES],
            fps: HashSet::new(),
            viols: BTreeMap::new(),
            panic_regs_untouched: 0,
            panic_regs_touched: 0,
            n: 0,
        }
    }
}

fn bitlen(v: u64) -> u32 {
    64 - v.leading_zeros()
}

fn eval(base: &Vm, case: &Case, acc: &mut Acc) {
    let o = run_case(base, case);
    acc.n += 1;
    acc.per_class[case.class_idx()] += 1;
    acc.outcomes[outcome_of(case, &o) as usize] += 1;
    if let Some((aspect, what)) = judge(case, &o) {
        let key = key_of(case, aspect);
        let e = acc
            .viols
            .entry(key)
            .or_insert_with(|| (case.to_json(), format!("{}: {}", describe(case, &o), what), 0));
        e.2 += 1;
    }
    match &o.step {
        Step::Proceed => {
            // non-trivial = the instruction executed; fingerprint = behaviour class
            let d = case.a as usize;
            acc.fps.insert(hash64(&(
                case.op as u8,
                case.imm & if case.op == Op::NIOP { 0x3f } else { 0 },
                o.pre[R_FLAG],
                bitlen(o.pre[case.b as usize]),
                bitlen(o.pre[case.c as usize]),
                if case.has_dest() { bitlen(o.post[d]) } else { 0 },
                bitlen(o.post[R_OF]),
                o.post[R_ERR],
            )));
        }
        Step::Panic(_) => {
            let same = (0..REGS).all(|i| is_gas(i) || o.pre[i] == o.post[i]);
            if same {
                acc.panic_regs_untouched += 1;
            } else {
                acc.panic_regs_touched += 1;
            }
        }
        _ => {}
    }
}

struct Totals {
    viol_counts: BTreeMap<String, u64>,
    spaces: Vec<Value>,
    per_class: [u64; N_CLASSES],
    panic_regs_untouched: u64,
    panic_regs_touched: u64,
}

fn run_space(
    ctx: &Ctx,
    base: &Vm,
    totals: &mut Totals,
    name: &str,
    desc: &str,
    n: u64,
    at: impl Fn(u64) -> Case + Sync,
) {
    if ctx.out_of_time() {
        ctx.cap(format!("time budget used up before space '{name}' ({n} cases skipped)"));
        return
    }
    let t0 = ctx.elapsed();
    let mut outcomes = [0u64; N_OUTCOMES];
    let mut done = 0u64;
    // slices bound the memory held by per-chunk accumulators
    const SLICE: u64 = 1 << 22;
    let mut lo = 0u64;
    while lo < n {
        if lo > 0 && ctx.out_of_time() {
            ctx.cap(format!("time budget used up inside space '{name}' after {lo} of {n} cases"));
            break
        }
        let len = SLICE.min(n - lo);
    space::par_chunks(
        len,
        8192,
        Acc::new,
        |i, acc: &mut Acc| {
            let case = at(lo + i);
            eval(base, &case, acc);
        },
        |acc| {
            done += acc.n;
            for (i, c) in acc.outcomes.iter().enumerate() {
                outcomes[i] += c;
            }
            ctx.fps_merge(acc.fps);
            for (key, (case, what, cnt)) in acc.viols {
                ctx.violation(key.clone(), what, case);
                *totals.viol_counts.entry(key).or_insert(0) += cnt;
            }
            totals.panic_regs_untouched += acc.panic_regs_untouched;
            totals.panic_regs_touched += acc.panic_regs_touched;
            for (k, v) in acc.per_class.iter().enumerate() {
                totals.per_class[k] += v;
            }
        },
    );
        lo += len;
    }
    ctx.evals(done);
    let mut h = serde_json::Map::new();
    for (i, c) in outcomes.iter().enumerate() {
        if *c > 0 {
            ctx.outcome(OUTCOME_NAMES[i], *c);
            h.insert(OUTCOME_NAMES[i].to_string(), json!(c));
        }
    }
    totals.spaces.push(json!({
        "space": name, "what": desc, "cases": done, "outcomes": Value::Object(h),
        "wall_s": ((ctx.elapsed() - t0) * 100.0).round() / 100.0,
    }));
}

fn make_base() -> Vm {
    use fuel_asm::op;
    vmkit::vm_for_script(&[op::noop(), op::noop(), op::ret(RegId::ONE)], vec![], 10_000_000)
}

// ------------------------------------------------------------------ alphabets

const P3_40: u64 = 12_157_665_459_056_928_801; // 3^40
const SQ32: u64 = 0xffff_fffe_0000_0001; // (2^32-1)^2

/// 41 boundary words, simplest first.
fn words_b() -> Vec<u64> {
    let mut v: Vec<u64> = vec![0, 1, 2, 3, 7, 8, 31, 32, 33, 63, 64, 65];
    for k in [8u32, 16, 31, 32, 63] {
        v.extend([(1u64 << k) - 1, 1u64 << k, (1u64 << k) + 1]);
    }
    v.extend([u64::MAX - 1, u64::MAX]);
    v.extend([
        10,
        100,
        10_000_000_000_000_000_000,
        1u64 << 62,
        P3_40 - 1,
        P3_40,
        SQ32 - 1,
        SQ32,
        0x0102_0304_0506_0708,
        0xaaaa_aaaa_aaaa_aaaa,
        0x5555_5555_5555_5555,
        0xffff_ffff_0000_0000,
    ]);
    debug_assert_eq!(v.len(), 41);
    v
}

/// Thorough: B plus 2^k-1, 2^k, 2^k+1 for every k.
fn words_thorough() -> Vec<u64> {
    let mut v = words_b();
    for k in 2..64u32 {
        for w in [(1u64 << k) - 1, 1u64 << k, (1u64 << k) + 1] {
            if !v.contains(&w) {
                v.push(w);
            }
        }
    }
    v
}

/// A reduced operand set (12 words).
fn words_small() -> Vec<u64> {
    vec![0, 1, 2, 3, 63, 64, 255, 256, 0xffff_ffff, 1u64 << 63, u64::MAX - 1, u64::MAX]
}

/// r^n - 1, r^n, r^n + 1 around exact powers (largest root per exponent, and 2, 3, 10).
fn words_powers() -> Vec<u64> {
    let mut v: Vec<u64> = vec![];
    for n in 2..=64u64 {
        let top = ref_root(u64::MAX, n);
        for r in [top, top.saturating_sub(1).max(2), 2, 3, 10] {
            if let Some(p) = ref_pow(r, n, u64::MAX) {
                for w in [p - 1, p, p.saturating_add(1)] {
                    if !v.contains(&w) {
                        v.push(w);
                    }
                }
            }
        }
    }
    v
}

fn imm12_boundary() -> Vec<u32> {
    vec![0, 1, 2, 3, 7, 8, 31, 32, 33, 63, 64, 65, 127, 128, 255, 256, 2047, 2048, 4094, 4095]
}

fn imm18_boundary() -> Vec<u32> {
    vec![
        0, 1, 2, 3, 63, 64, 255, 256, 4095, 4096, 4097, 65535, 65536, 131071, 131072, 0x2aaaa,
        0x15555, 0x3fffe, 0x3ffff,
    ]
}

fn narrow_boundary(bits: u32) -> Vec<u64> {
    let m = (1u64 << bits) - 1;
    let mut v: Vec<u64> = vec![0, 1, 2, 3, 7, 8, 9, 15, 16, 17, 31, 32, 33, 255, 256, 257];
    if bits == 32 {
        v.extend([65535, 65536, 65537, 46340, 46341, 0x1234_5678]);
    }
    let half = 1u64 << (bits - 1);
    v.extend([half - 1, half, half + 1, m - 1, m, 0xaaaa_aaaa & m, 0x1234 & m]);
    let mut out: Vec<u64> = vec![];
    for w in v {
        let w = w & m;
        if !out.contains(&w) {
            out.push(w);
        }
    }
    out
}

const UPPER: [u64; 3] = [0, u64::MAX, 0xdead_beef_cafe_f00d];

fn dirty(v: u64, bits: u32, pattern: u64) -> u64 {
    let m = (1u64 << bits) - 1;
    (v & m) | (pattern & !m)
}

/// (dst, b, c) register layouts for the reg-reg forms.
const LAYOUTS: [(u8, u8, u8); 6] = [
    (0x10, 0x11, 0x12),
    (0x3f, 0x11, 0x12),
    (0x10, 0x10, 0x12), // destination aliases lhs
    (0x10, 0x11, 0x10), // destination aliases rhs
    (0x3f, 0x3f, 0x3f), // all three the same register
    (0x20, R_ONE as u8, 0x12), // system register as a source
];

fn rrr(op: Op, lay: (u8, u8, u8), x: u64, y: u64, flag: u64) -> Case {
    let mut c = Case::new(op);
    c.a = lay.0;
    c.b = lay.1;
    c.c = lay.2;
    c.flag = flag;
    if lay.1 >= FIRST_WRITABLE {
        c = c.set(lay.1, x);
    }
    if lay.2 >= FIRST_WRITABLE {
        c = c.set(lay.2, y);
    }
    c
}

fn rri(op: Op, dst: u8, b: u8, x: u64, imm: u32, flag: u64) -> Case {
    let mut c = Case::new(op);
    c.a = dst;
    c.b = b;
    c.imm = imm;
    c.flag = flag;
    c.set(b, x)
}

fn mldv(dst: u8, x: u64, y: u64, z: u64, flag: u64) -> Case {
    let mut c = Case::new(Op::MLDV);
    c.a = dst;
    c.b = 0x11;
    c.c = 0x12;
    c.d = 0x13;
    c.flag = flag;
    c.set(0x11, x).set(0x12, y).set(0x13, z)
}

fn niop(dst: u8, b: u8, c_: u8, imm: u32, x: u64, y: u64, flag: u64) -> Case {
    let mut c = Case::new(Op::NIOP);
    c.a = dst;
    c.b = b;
    c.c = c_;
    c.imm = imm;
    c.flag = flag;
    c.set(b, x).set(c_, y)
}

fn digits<const N: usize>(mut i: u64, radices: [u64; N]) -> [usize; N] {
    let mut d = [0usize; N];
    for k in 0..N {
        d[k] = (i % radices[k]) as usize;
        i /= radices[k];
    }
    d
}

// ------------------------------------------------------------------ explore

fn sanity() {
    // machinery self-checks (a failure is a machinery error, not a verdict)
    for (op, name, code, _) in OPS.iter() {
        let oc = fuel_asm::Opcode::try_from(*code).unwrap_or_else(|_| panic!("opcode byte {code:#x} unknown"));
        assert_eq!(&format!("{oc:?}"), name, "opcode table mismatch for {op:?}");
        assert!(OPS[*op as usize].0 == *op, "OPS order");
    }
    for (id, idx) in [
        (RegId::ONE, R_ONE),
        (RegId::OF, R_OF),
        (RegId::PC, R_PC),
        (RegId::ERR, R_ERR),
        (RegId::GGAS, R_GGAS),
        (RegId::CGAS, R_CGAS),
        (RegId::FLAG, R_FLAG),
        (RegId::WRITABLE, FIRST_WRITABLE as usize),
    ] {
        assert_eq!(id.to_u8() as usize, idx, "register index table");
    }
    // reference self-checks on hand-computed values
    assert_eq!(ref_pow(0, 0, u64::MAX), Some(1));
    assert_eq!(ref_pow(0, u64::MAX, u64::MAX), Some(0));
    assert_eq!(ref_pow(2, 63, u64::MAX), Some(1 << 63));
    assert_eq!(ref_pow(2, 64, u64::MAX), None);
    assert_eq!(ref_pow(3, 40, u64::MAX), Some(P3_40));
    assert_eq!(ref_pow(3, 41, u64::MAX), None);
    assert_eq!(ref_pow(16, 2, 255), None);
    assert_eq!(ref_pow(15, 2, 255), Some(225));
    assert_eq!(ref_ilog(P3_40, 3), 40);
    assert_eq!(ref_ilog(P3_40 - 1, 3), 39);
    assert_eq!(ref_ilog(u64::MAX, 2), 63);
    assert_eq!(ref_ilog(1, 2), 0);
    assert_eq!(ref_root(SQ32, 2), 0xffff_ffff);
    assert_eq!(ref_root(SQ32 - 1, 2), 0xffff_fffe);
    assert_eq!(ref_root(u64::MAX, 2), 0xffff_ffff);
    assert_eq!(ref_root(u64::MAX, 1), u64::MAX);
    assert_eq!(ref_root(u64::MAX, 64), 1);
    assert_eq!(ref_root(u64::MAX, 63), 2);
    assert_eq!(ref_root(0, 5), 0);
    assert_eq!(ref_root(27, 3), 3);
    assert_eq!(ref_root(26, 3), 2);
    assert_eq!(ref_muldiv(u64::MAX, 4, 2), (0xffff_ffff_ffff_fffe, 1));
    assert_eq!(ref_muldiv(u64::MAX, u64::MAX, 0), (u64::MAX - 1, 0));
    assert_eq!(ref_muldiv(9, 9, 4), (20, 0));
    assert_eq!(ref_muldiv(u64::MAX, u64::MAX, 1), (1, u64::MAX - 1));
}

fn explore(ctx: &Ctx) {
    sanity();
    ctx.rule(
        "every element of each listed product space is executed on a clone of one prepared VM \
         (one injected instruction) and compared on all 64 registers with the reference; \
         a case is non-trivial when the instruction executed (no panic); distinct = distinct \
         (opcode, NIOP mode, $flag, bit lengths of the two source operands, of the destination value and of $of, $err)",
    );
    ctx.assume("$cgas/$ggas are not part of this property (C26); they are ignored everywhere");
    ctx.assume("raw instruction words are built from the documented field layout (opcode byte, 6-bit register ids, imm12/imm18/imm06 in the low bits)");
    ctx.assume("b ** 0 = 1 for every b, including 0 ** 0");
    ctx.set(
        "dont_care",
        json!([
            "$cgas and $ggas after any instruction (gas is charged before the reserved-register panic; see C26)",
            "register contents after ArithmeticOverflow / ArithmeticError / InvalidFlags / InvalidImmediateValue panics (only the reason is checked; counts of touched/untouched are reported as panic_registers)",
            "which reason is reported when the destination is reserved AND another panic condition of the same instruction applies (either accepted; registers must still be unchanged)",
            "exact $of after a narrow (NIOP) SUB underflow or EXP overflow with F_WRAPPING (checked: non-zero)",
            "exact destination after a narrow (NIOP) EXP overflow with F_WRAPPING (checked: fits the width)",
            "$of and $err after FLAG (accepted: unchanged or cleared)",
        ]),
    );

    let thorough = ctx.thorough();
    let b = if thorough { words_thorough() } else { words_b() };
    let b41 = words_b();
    let small = words_small();
    let powers = words_powers();
    let flags: [u64; 4] = [0, F_UNSAFEMATH, F_WRAPPING, F_UNSAFEMATH | F_WRAPPING];
    let (nb, nf) = (b.len() as u64, 4u64);
    ctx.set("alphabet_B", json!(b.iter().map(|w| format!("{w:#x}")).collect::<Vec<_>>()));
    ctx.set("alphabet_small", json!(small.iter().map(|w| format!("{w:#x}")).collect::<Vec<_>>()));
    ctx.set("alphabet_exact_powers", json!({"count": powers.len(), "rule": "r^n-1, r^n, r^n+1 for n in 2..=64, r in {floor(2^(64/n)), that-1, 2, 3, 10}"}));
    ctx.set("flags", json!(flags));
    ctx.set("layouts_dst_b_c", json!(LAYOUTS.iter().map(|l| format!("{:#04x},{:#04x},{:#04x}", l.0, l.1, l.2)).collect::<Vec<_>>()));
    ctx.set("opcodes", json!(OPS.iter().map(|e| e.1).collect::<Vec<_>>()));

    let base = make_base();
    let mut totals = Totals {
        viol_counts: BTreeMap::new(),
        spaces: vec![],
        per_class: [0; N_CLASSES],
        panic_regs_untouched: 0,
        panic_regs_touched: 0,
    };
    let t = &mut totals;

    // 1. three-register forms over B^2
    {
        let rad = [nb, nb, nf, LAYOUTS.len() as u64, RRR_OPS.len() as u64];
        let n: u64 = rad.iter().product();
        run_space(ctx, &base, t, "rrr", "16 three-register opcodes x B^2 x 4 flags x 6 layouts", n, |i| {
            let d = digits(i, rad);
            rrr(RRR_OPS[d[4]], LAYOUTS[d[3]], b[d[1]], b[d[0]], flags[d[2]])
        });
    }
    // 2. MOVE / NOT
    {
        let ops = [Op::MOVE, Op::NOT];
        let rad = [nb, nf, LAYOUTS.len() as u64, 2];
        let n: u64 = rad.iter().product();
        run_space(ctx, &base, t, "rr", "MOVE, NOT x B x 4 flags x 6 layouts", n, |i| {
            let d = digits(i, rad);
            let l = LAYOUTS[d[2]];
            // two-register form: the third register field is unused and stays zero
            let mut c = Case::new(ops[d[3]]);
            c.a = l.0;
            c.b = l.1;
            c.flag = flags[d[1]];
            if l.1 >= FIRST_WRITABLE {
                c = c.set(l.1, b[d[0]]);
            }
            c
        });
    }
    // 3. MLDV over B^3
    {
        let rad = [nb, nb, nb, nf, 2];
        let n: u64 = rad.iter().product();
        run_space(ctx, &base, t, "mldv", "MLDV x B^3 x 4 flags x dest {0x10,0x3f}", n, |i| {
            let d = digits(i, rad);
            mldv([0x10, 0x3f][d[4]], b[d[2]], b[d[1]], b[d[0]], flags[d[3]])
        });
    }
    // 4. imm12 forms: all 4096 immediates
    {
        let f2 = if thorough { vec![0, 1, 2, 3] } else { vec![0, F_UNSAFEMATH | F_WRAPPING] };
        let rad = [4096, nb, f2.len() as u64, RRI_OPS.len() as u64];
        let n: u64 = rad.iter().product();
        run_space(ctx, &base, t, "rri12", &format!("11 imm12 opcodes x ALL 4096 immediates x B x flags {f2:?}, dest 0x10"), n, |i| {
            let d = digits(i, rad);
            rri(RRI_OPS[d[3]], 0x10, 0x11, b[d[1]], d[0] as u32, f2[d[2]])
        });
        let rad = [4096, small.len() as u64, nf, RRI_OPS.len() as u64];
        let n: u64 = rad.iter().product();
        run_space(ctx, &base, t, "rri12_alias", "11 imm12 opcodes x ALL 4096 immediates x small set x 4 flags, dest = source = 0x3f", n, |i| {
            let d = digits(i, rad);
            rri(RRI_OPS[d[3]], 0x3f, 0x3f, small[d[1]], d[0] as u32, flags[d[2]])
        });
    }
    // 5. MOVI: all imm18
    {
        let f2 = if thorough { vec![0, 1, 2, 3] } else { vec![0] };
        let n = (1u64 << 18) * f2.len() as u64;
        run_space(ctx, &base, t, "movi", &format!("MOVI x ALL 2^18 immediates x flags {f2:?}, dest 0x10"), n, |i| {
            let d = digits(i, [1 << 18, f2.len() as u64]);
            let mut c = Case::new(Op::MOVI);
            c.a = 0x10;
            c.imm = d[0] as u32;
            c.flag = f2[d[1]];
            c
        });
        let ib = imm18_boundary();
        let rad = [ib.len() as u64, nf, 2];
        let n: u64 = rad.iter().product();
        run_space(ctx, &base, t, "movi_boundary", "MOVI x boundary imm18 x 4 flags x dest {0x10, 0x3f}", n, |i| {
            let d = digits(i, rad);
            let mut c = Case::new(Op::MOVI);
            c.a = [0x10, 0x3f][d[2]];
            c.imm = ib[d[0]];
            c.flag = flags[d[1]];
            c
        });
    }
    // 6. NOOP, FLAG
    {
        run_space(ctx, &base, t, "noop", "NOOP x 4 flags", nf, |i| {
            let mut c = Case::new(Op::NOOP);
            c.flag = flags[i as usize];
            c
        });
        let mut fv: Vec<u64> = (0..=16).collect();
        for w in &b {
            if !fv.contains(w) {
                fv.push(*w);
            }
        }
        let srcs: [u8; 3] = [0x10, 0x3f, R_ONE as u8];
        let rad = [fv.len() as u64, nf, 3];
        let n: u64 = rad.iter().product();
        run_space(ctx, &base, t, "flag", "FLAG x ({0..16} u B) x 4 previous flags x source register {0x10,0x3f,$one}", n, |i| {
            let d = digits(i, rad);
            let mut c = Case::new(Op::FLAG);
            c.a = srcs[d[2]];
            c.flag = flags[d[1]];
            if c.a >= FIRST_WRITABLE {
                c = c.set(c.a, fv[d[0]]);
            }
            c
        });
    }
    // 7. dense small grid + exact powers for EXP / MLOG / MROO
    {
        let ops = [Op::EXP, Op::MLOG, Op::MROO];
        let gx: u64 = if thorough { 65536 } else { 1024 };
        let rad = [71, gx + 1, nf, 3];
        let n: u64 = rad.iter().product();
        run_space(ctx, &base, t, "grid", &format!("EXP, MLOG, MROO x lhs 0..={gx} x rhs 0..=70 x 4 flags"), n, |i| {
            let d = digits(i, rad);
            rrr(ops[d[3]], LAYOUTS[0], d[1] as u64, d[0] as u64, flags[d[2]])
        });
        let rad = [67, powers.len() as u64, nf, 3];
        let n: u64 = rad.iter().product();
        run_space(ctx, &base, t, "exact_powers", "EXP, MLOG, MROO x exact-power boundary words x rhs 0..=66 x 4 flags", n, |i| {
            let d = digits(i, rad);
            rrr(ops[d[3]], LAYOUTS[0], powers[d[1]], d[0] as u64, flags[d[2]])
        });
        let rad = [powers.len() as u64, nb, nf, 3];
        let n: u64 = rad.iter().product();
        run_space(ctx, &base, t, "exact_powers_as_rhs", "EXP, MLOG, MROO x B x exact-power boundary words as rhs x 4 flags", n, |i| {
            let d = digits(i, rad);
            rrr(ops[d[3]], LAYOUTS[0], b[d[1]], powers[d[0]], flags[d[2]])
        });
        // EXPI with the dense base grid: all imm12 exponents
        let gx: u64 = if thorough { 4096 } else { 256 };
        let rad = [4096, gx + 1, 2];
        let n: u64 = rad.iter().product();
        run_space(ctx, &base, t, "expi_grid", &format!("EXPI x base 0..={gx} x ALL 4096 exponents x flags {{0, wrapping}}"), n, |i| {
            let d = digits(i, rad);
            rri(Op::EXPI, 0x10, 0x11, d[1] as u64, d[0] as u32, [0, F_WRAPPING][d[2]])
        });
    }
    // 8. NIOP: all 8-bit operand pairs
    {
        let rad = [256, 256, nf, 6, 2];
        let n: u64 = rad.iter().product();
        run_space(ctx, &base, t, "niop_u8", "NIOP U8 x ALL 65,536 operand pairs x 6 ops x 4 flags x {clean, dirty upper 56 bits}", n, |i| {
            let d = digits(i, rad);
            let (mut x, mut y) = (d[1] as u64, d[0] as u64);
            if d[4] == 1 {
                x = dirty(x, 8, 0xa5c3_0f1e_2d4b_69ff);
                y = dirty(y, 8, u64::MAX);
            }
            niop(0x10, 0x11, 0x12, niop_imm(d[3] as u32, 0), x, y, flags[d[2]])
        });
        for (w, bits) in [(1u32, 16u32), (2, 32)] {
            let nbw = narrow_boundary(bits);
            let k = nbw.len() as u64;
            let rad = [k, 3, k, 3, nf, 6, 2];
            let n: u64 = rad.iter().product();
            run_space(ctx, &base, t, &format!("niop_u{bits}"), &format!("NIOP U{bits} x ({k} boundary values x 3 upper-bit patterns)^2 x 6 ops x 4 flags x dest {{0x10, 0x3f}}"), n, |i| {
                let d = digits(i, rad);
                let x = dirty(nbw[d[2]], bits, UPPER[d[3]]);
                let y = dirty(nbw[d[0]], bits, UPPER[d[1]]);
                niop([0x10, 0x3f][d[6]], 0x11, 0x12, niop_imm(d[5] as u32, w), x, y, flags[d[4]])
            });
        }
        if thorough {
            // 16-bit: every lhs against the boundary rhs set and vice versa
            let nbw = narrow_boundary(16);
            let k = nbw.len() as u64;
            let rad = [k, 65536, nf, 6, 2];
            let n: u64 = rad.iter().product();
            run_space(ctx, &base, t, "niop_u16_dense", "NIOP U16 x ALL 65,536 values on one side x boundary values on the other (both orders) x 6 ops x 4 flags, dirty upper bits", n, |i| {
                let d = digits(i, rad);
                let (full, bnd) = (dirty(d[1] as u64, 16, UPPER[2]), dirty(nbw[d[0]], 16, UPPER[1]));
                let (x, y) = if d[4] == 0 { (full, bnd) } else { (bnd, full) };
                niop(0x10, 0x11, 0x12, niop_imm(d[3] as u32, 1), x, y, flags[d[2]])
            });
        }
        // every imm06 value (valid and invalid modes), aliasing layouts included
        let lay: [(u8, u8, u8); 5] = [(0x10, 0x11, 0x12), (0x3f, 0x11, 0x12), (0x10, 0x10, 0x12), (0x10, 0x11, 0x10), (0x00, 0x11, 0x12)];
        let ks = small.len() as u64;
        let rad = [ks, ks, nf, 64, lay.len() as u64];
        let n: u64 = rad.iter().product();
        run_space(ctx, &base, t, "niop_imm", "NIOP x ALL 64 imm06 values x small^2 x 4 flags x 5 layouts (incl. aliasing and $zero as destination)", n, |i| {
            let d = digits(i, rad);
            let l = lay[d[4]];
            niop(l.0, l.1, l.2, d[3] as u32, small[d[1]], small[d[0]], flags[d[2]])
        });
    }
    // 9. reserved destinations: all 16
    {
        let rad = [b41.len() as u64, b41.len() as u64, nf, 16, RRR_OPS.len() as u64];
        let n: u64 = rad.iter().product();
        run_space(ctx, &base, t, "reserved_rrr", "16 three-register opcodes x ALL 16 reserved destinations x B41^2 x 4 flags", n, |i| {
            let d = digits(i, rad);
            rrr(RRR_OPS[d[4]], (d[3] as u8, 0x11, 0x12), b41[d[1]], b41[d[0]], flags[d[2]])
        });
        let ops = [Op::MOVE, Op::NOT];
        let rad = [b41.len() as u64, nf, 16, 2];
        let n: u64 = rad.iter().product();
        run_space(ctx, &base, t, "reserved_rr", "MOVE, NOT x ALL 16 reserved destinations x B41 x 4 flags", n, |i| {
            let d = digits(i, rad);
            let mut c = Case::new(ops[d[3]]);
            c.a = d[2] as u8;
            c.b = 0x11;
            c.flag = flags[d[1]];
            c.set(0x11, b41[d[0]])
        });
        let ks = small.len() as u64;
        let rad = [ks, ks, ks, nf, 16];
        let n: u64 = rad.iter().product();
        run_space(ctx, &base, t, "reserved_mldv", "MLDV x ALL 16 reserved destinations x small^3 x 4 flags", n, |i| {
            let d = digits(i, rad);
            mldv(d[4] as u8, small[d[2]], small[d[1]], small[d[0]], flags[d[3]])
        });
        let ib = imm12_boundary();
        let rad = [ib.len() as u64, b41.len() as u64, nf, 16, RRI_OPS.len() as u64];
        let n: u64 = rad.iter().product();
        run_space(ctx, &base, t, "reserved_rri12", "11 imm12 opcodes x ALL 16 reserved destinations x boundary imm12 x B41 x 4 flags", n, |i| {
            let d = digits(i, rad);
            rri(RRI_OPS[d[4]], d[3] as u8, 0x11, b41[d[1]], ib[d[0]], flags[d[2]])
        });
        let i18 = imm18_boundary();
        let rad = [i18.len() as u64, nf, 16];
        let n: u64 = rad.iter().product();
        run_space(ctx, &base, t, "reserved_movi", "MOVI x ALL 16 reserved destinations x boundary imm18 x 4 flags", n, |i| {
            let d = digits(i, rad);
            let mut c = Case::new(Op::MOVI);
            c.a = d[2] as u8;
            c.imm = i18[d[0]];
            c.flag = flags[d[1]];
            c
        });
        let rad = [ks, ks, nf, 18, 16];
        let n: u64 = rad.iter().product();
        run_space(ctx, &base, t, "reserved_niop", "NIOP x ALL 16 reserved destinations x 18 valid modes x small^2 x 4 flags", n, |i| {
            let d = digits(i, rad);
            let imm = niop_imm((d[3] % 6) as u32, (d[3] / 6) as u32);
            niop(d[4] as u8, 0x11, 0x12, imm, small[d[1]], small[d[0]], flags[d[2]])
        });
    }

    ctx.set("spaces", json!(totals.spaces));
    let mut pc = serde_json::Map::new();
    for (k, v) in totals.per_class.iter().enumerate() {
        if *v > 0 {
            let mut c = Case::new(if k < OPS.len() { OPS[k].0 } else { Op::NIOP });
            let name = if k < OPS.len() {
                c.class()
            } else {
                c.imm = (k - OPS.len()) as u32;
                let n = c.class();
                if n == "NIOP.invalid_imm" { format!("NIOP.invalid_imm={:#04x}", c.imm) } else { n }
            };
            pc.insert(name, json!(v));
        }
    }
    ctx.set("per_class_cases", Value::Object(pc));
    ctx.set(
        "panic_registers",
        json!({"all_non_gas_registers_untouched": totals.panic_regs_untouched, "some_register_touched": totals.panic_regs_touched,
               "note": "observation only; a verdict only for reserved destinations"}),
    );
    if !totals.viol_counts.is_empty() {
        ctx.set("violation_case_counts", json!(totals.viol_counts));
    }

    // written-out samples (members of the spaces above)
    let samples = [
        rrr(Op::MUL, LAYOUTS[0], u64::MAX, 3, F_WRAPPING),
        rrr(Op::MROO, LAYOUTS[0], SQ32 - 1, 2, 0),
        rrr(Op::EXP, LAYOUTS[0], 0, 1u64 << 32, 0),
        rrr(Op::DIV, LAYOUTS[1], 7, 0, F_UNSAFEMATH),
        niop(0x10, 0x11, 0x12, niop_imm(1, 0), dirty(3, 8, u64::MAX), dirty(5, 8, u64::MAX), F_WRAPPING),
        rrr(Op::ADD, (R_PC as u8, 0x11, 0x12), 1, 2, 0),
    ];
    for c in samples.iter() {
        let o = run_case(&base, c);
        let verdict = judge(c, &o);
        ctx.sample(json!({
            "case": c.to_json(),
            "observed": {
                "step": o.step.label(),
                "dest": format!("{:#x}", o.post[c.a as usize]),
                "$of": format!("{:#x}", o.post[R_OF]),
                "$err": format!("{:#x}", o.post[R_ERR]),
                "$pc_delta": o.post[R_PC] as i128 - o.pre[R_PC] as i128,
                "$cgas_delta": o.post[R_CGAS] as i128 - o.pre[R_CGAS] as i128,
            },
            "expected": format!("{:x?}", expect(c, &o.pre)),
            "agrees": verdict.is_none(),
        }));
    }
}

fn replay(case: &Value, ctx: &Ctx) {
    let c = Case::from_json(case);
    let base = make_base();
    let o = run_case(&base, &c);
    if let Some((aspect, what)) = judge(&c, &o) {
        ctx.violation(key_of(&c, aspect), format!("{}: {}", describe(&c, &o), what), c.to_json());
    }
}

fn main() {
    run_check("C21", Level::Exploration, explore, replay)
}
