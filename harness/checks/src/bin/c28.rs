//! C28 — Execution outcomes and receipts are well formed.
//!
//! Space (bounded exhaustive, every element executed on the real interpreter):
//!
//! * SEQ: for each of 3 worlds (contract bodies that write storage / mint / burn /
//!   log / ret / retd / rvrt / panic / call each other / fall into an invalid
//!   instruction; w0 all defaults; w1 non-default base asset id, max fee 5000 at gas
//!   price 0; w2 non-default base asset id, chain id, gas price 37, price factor 1000,
//!   max fee 100,000) ALL programs of
//!   length <= k (3 quick / 4 thorough) over an 18-letter alphabet (ret, rvrt, log,
//!   invalid instruction, out-of-bounds store, retd, logd, tr, tro to both variable
//!   outputs, call A, call B, smo, call A with coins, call of a contract that is not an
//!   input, mint outside a contract, noop, call B with 10 gas), and for every program
//!   ALL FAULT POINTS: the script is first run step by step with the full gas limit,
//!   the charge of every executed instruction (also inside nested calls) is recorded,
//!   and the program is re-executed with every gas limit in {P_i, P_i - 1} (P_i = prefix
//!   sums of the charges), so an out-of-gas panic is injected at every instruction.
//!   (Limits that end inside the fixed register prelude are only enumerated for
//!   programs of length <= 1: the prelude is the same for every program.)
//! * EMPTY: the empty script (special-cased by the VM).
//! * LIMIT: a LOG loop (log; subi; jnzb) producing N receipts, N in 65,531..=65,534
//!   (thorough: 65,530..=65,535), followed by every terminal sequence of length <= 1
//!   (thorough: 2 in world 0, 1 in world 1) over {ret, rvrt, invalid, log, call A, retd,
//!   store panic, tr}, run with the full gas limit; out-of-gas as terminal: the
//!   programs with terminal [log] (thorough: every terminal sequence of length <= 1 in
//!   world 0) are also run with the gas limits that stop execution at each of the last
//!   3 (thorough 6) instructions.
//!
//! Every (world, program, gas limit) is executed three times: step by step
//! (`vmkit::step`, fresh VM), end to end with `Interpreter::transact` (fresh VM) and
//! with `MemoryClient::transact` (fresh client over a clone of the world storage).
//!
//! Oracle (from the statement), applied to the interpreter run and to the client run:
//!  (1) exactly one ScriptResult receipt and it is the last receipt;
//!  (2) a Panic receipt exists iff the result is Panic and then it is immediately
//!      before the ScriptResult; result == Success iff the step-wise run ended with a
//!      RET/RETD outside any call, Revert iff it ended with RVRT (anywhere), Panic
//!      otherwise; a Revert receipt exists iff the result is Revert; the returned
//!      ProgramState is Return/ReturnData for Success and Revert otherwise;
//!  (3) `Script::receipts_root` of the output transaction == RFC 6962 MTH over
//!      `receipt.to_bytes()` (harness implementation `vcore::oracle::mth`);
//!  (4) at most 65,535 receipts; (doc comment of `ReceiptsCtx::push`: only the last two
//!      slots are reserved) a TooManyReceipts panic only happens when >= 65,533
//!      receipts exist, and execution never continues with > 65,533 receipts;
//!  (5) on Revert/Panic: every variable output has amount 0, every change output holds
//!      the initial free balance of its asset (inputs - max fee for the base asset),
//!      plus, for the base asset, max_fee - ceil((min_gas + gas_used) * price / factor);
//!  (6) `MemoryClient::transact` leaves `MemoryStorage` (Debug rendering) exactly as
//!      it was on Revert/Panic, and on Success it equals the committed final storage
//!      of the step-wise interpreter.
//!
//! Don't-cares: receipt contents beyond kind/position, gas_used (only used as input of
//! the refund formula), outputs on Success, contract outputs, executions that end
//! with an interpreter error instead of a state (C29), the result rule for the empty
//! script, `to`/`asset_id` of a variable output after a failed run (counted).

#[path = "../progkit.rs"]
mod progkit;

use fuel_asm::{
    op,
    Instruction,
    PanicReason,
    RegId,
};
use fuel_tx::{
    field::{
        Outputs,
        ReceiptsRoot,
    },
    Chargeable,
    ConsensusParameters,
    FeeParameters,
    Output,
    Receipt,
    Script,
    ScriptExecutionResult,
};
use fuel_types::{
    canonical::Serialize,
    Address,
    AssetId,
    BlockHeight,
};
use fuel_vm::{
    checked_transaction::{
        Checked,
        IntoChecked,
        Ready,
    },
    interpreter::{
        Interpreter,
        MemoryInstance,
    },
    memory_client::MemoryClient,
    state::ProgramState,
    storage::MemoryStorage,
};
use progkit::{
    r,
    World,
    WorldCfg,
};
use std::collections::{
    BTreeMap,
    BTreeSet,
    HashSet,
};
use vcore::{
    guard,
    json,
    oracle,
    run::hash64,
    run_check,
    space,
    vmkit::{
        self,
        Step,
        Vm,
    },
    Ctx,
    Level,
    Value,
};

const MAX_RECEIPTS: usize = 65_535;

// registers loaded by the extended prelude
const R_V0: u8 = 0x29; // index of the first variable output
const R_V1: u8 = 0x2a; // index of the second variable output
const R_TEN: u8 = 0x2b; // 10
const R_LEN: u8 = 0x2c; // 8
const R_T: u8 = 0x12; // scratch

// ------------------------------------------------------------------ programs

#[derive(Clone)]
struct L {
    name: &'static str,
    words: Vec<u32>,
}

fn word(i: Instruction) -> u32 {
    u32::from_be_bytes(i.to_bytes())
}

fn l(name: &'static str, ins: Vec<Instruction>) -> L {
    L {
        name,
        words: ins.into_iter().map(word).collect(),
    }
}

const INVALID: u32 = 0x0000_0000;

fn alphabet() -> Vec<L> {
    vec![
        l("ret", vec![op::ret(RegId::ONE)]),
        l("rvrt", vec![op::rvrt(RegId::ONE)]),
        l("log", vec![op::log(RegId::ONE, RegId::ZERO, RegId::ZERO, RegId::ZERO)]),
        L {
            name: "invalid",
            words: vec![INVALID],
        },
        l("sw oob", vec![op::sw(RegId::ZERO, RegId::ONE, 0)]),
        l("retd", vec![op::retd(r::PATTERN, R_LEN)]),
        l("logd", vec![op::logd(RegId::ZERO, RegId::ONE, r::PATTERN, R_LEN)]),
        l("tr A X 10", vec![op::tr(r::CALL_A, R_TEN, r::ASSET_X)]),
        l("tro v0 X 10", vec![op::tro(r::RECIPIENT, R_V0, R_TEN, r::ASSET_X)]),
        l("tro v1 base 10", vec![op::tro(r::RECIPIENT, R_V1, R_TEN, r::ASSET_BASE)]),
        l("call A", vec![op::call(r::CALL_A, RegId::ZERO, r::ASSET_BASE, RegId::CGAS)]),
        l("call B", vec![op::call(r::CALL_B, RegId::ZERO, r::ASSET_BASE, RegId::CGAS)]),
        l("smo 10", vec![op::smo(r::RECIPIENT, r::PATTERN, R_LEN, R_TEN)]),
        l("call A +10 X", vec![op::call(r::CALL_A, R_TEN, r::ASSET_X, RegId::CGAS)]),
        l("call C", vec![op::call(r::CALL_C, RegId::ZERO, r::ASSET_BASE, RegId::CGAS)]),
        l("mint", vec![op::mint(R_TEN, r::PATTERN)]),
        l("noop", vec![op::noop()]),
        l("call B gas10", vec![op::call(r::CALL_B, RegId::ZERO, r::ASSET_BASE, R_TEN)]),
    ]
}

/// terminal alphabet of the receipt-limit programs
fn terminals() -> Vec<L> {
    let a = alphabet();
    let pick = |n: &str| a.iter().find(|x| x.name == n).unwrap().clone();
    vec![
        pick("ret"),
        pick("rvrt"),
        pick("invalid"),
        pick("log"),
        pick("call A"),
        pick("retd"),
        pick("sw oob"),
        pick("tr A X 10"),
    ]
}

fn seq_words(alpha: &[L], seq: &[u64]) -> Vec<u32> {
    seq.iter()
        .flat_map(|i| alpha[*i as usize].words.iter().copied())
        .collect()
}

fn seq_names(alpha: &[L], seq: &[u64]) -> Vec<&'static str> {
    seq.iter().map(|i| alpha[*i as usize].name).collect()
}

fn limit_words(n: u32, term: &[u32]) -> Vec<u32> {
    let mut v = vec![
        word(op::movi(0x10, n)),
        word(op::log(0x10, RegId::ZERO, RegId::ZERO, RegId::ZERO)),
        word(op::subi(0x10, 0x10, 1)),
        word(op::jnzb(0x10, RegId::ZERO, 1)),
    ];
    v.extend_from_slice(term);
    v.push(word(op::ret(RegId::ONE)));
    v
}

// ------------------------------------------------------------------ worlds

struct WorldInfo {
    name: &'static str,
    w: World,
    /// "unlimited" gas for SEQ programs
    g0: u64,
    init_base: u64,
    init_x: u64,
    debug0: String,
}

const BASE_W1: AssetId = AssetId::new([0xB5; 32]);
const BASE_W2: AssetId = AssetId::new([0xC7; 32]);
const G0_SEQ: u64 = 100_000;
const G0_LIMIT: u64 = 20_000_000;

fn make_world(name: &'static str, cfg: WorldCfg) -> WorldInfo {
    let mut w = World::new(cfg);
    let outs = w.template.outputs().to_vec();
    let vars: Vec<usize> = outs
        .iter()
        .enumerate()
        .filter(|(_, o)| o.is_variable())
        .map(|(i, _)| i)
        .collect();
    assert_eq!(vars.len(), 2);
    w.prelude.push(op::movi(R_V0, vars[0] as u32));
    w.prelude.push(op::movi(R_V1, vars[1] as u32));
    w.prelude.push(op::movi(R_TEN, 10));
    w.prelude.push(op::movi(R_LEN, 8));
    assert!(
        outs.iter().any(|o| matches!(o, Output::Change { asset_id, .. } if asset_id == w.params.base_asset_id())),
        "world must have a change output of the configured base asset"
    );
    let init_base = w.cfg.base_coin + w.cfg.msg_coin - w.cfg.max_fee_limit;
    let init_x = w.cfg.x_coin;
    let debug0 = format!("{:?}", w.storage);
    WorldInfo {
        name,
        w,
        g0: G0_SEQ,
        init_base,
        init_x,
        debug0,
    }
}

fn worlds() -> Vec<WorldInfo> {
    let w0 = WorldCfg {
        // A: storage write, mint, log, return
        code_a: vec![
            op::sww(RegId::FP, R_T, R_TEN),
            op::mint(R_TEN, RegId::FP),
            op::log(RegId::BAL, RegId::ZERO, RegId::ZERO, RegId::ZERO),
            op::ret(RegId::ONE),
        ],
        // B: storage write, then revert inside the call
        code_b: vec![op::sww(RegId::FP, R_T, R_LEN), op::rvrt(RegId::ONE)],
        ..WorldCfg::default()
    };
    let w1 = WorldCfg {
        // A: mint, burn, return data
        code_a: vec![
            op::mint(R_TEN, RegId::FP),
            op::burn(RegId::ONE, RegId::FP),
            op::retd(RegId::FP, R_LEN),
        ],
        // B: storage write, nested call of A, then a memory violation
        code_b: vec![
            op::sww(RegId::FP, R_T, R_LEN),
            op::call(r::CALL_A, RegId::ZERO, r::ASSET_BASE, RegId::CGAS),
            op::sw(RegId::ZERO, RegId::ONE, 0),
        ],
        // non-default base asset; gas price 0 with a non-zero max fee: the refund is
        // the whole max fee
        balances: vec![(progkit::A, progkit::ASSET_X, 500), (progkit::B, BASE_W1, 300)],
        max_fee_limit: 5_000,
        params: {
            let mut p = ConsensusParameters::standard();
            p.set_base_asset_id(BASE_W1);
            p
        },
        ..WorldCfg::default()
    };
    // every configured constant the oracle depends on is non-default here: base asset,
    // chain id, gas price, price factor, max fee
    let mut params = ConsensusParameters::standard();
    params.set_fee_params(FeeParameters::DEFAULT.with_gas_price_factor(1000));
    params.set_base_asset_id(BASE_W2);
    params.set_chain_id(fuel_types::ChainId::new(0x5eed));
    let w2 = WorldCfg {
        // A: transfer-out to a variable output from inside a call, storage write, return
        code_a: vec![
            op::tro(r::RECIPIENT, R_V1, R_TEN, r::ASSET_X),
            op::sww(RegId::FP, R_T, R_TEN),
            op::ret(RegId::ONE),
        ],
        // B: one log, then falls into the zero padding of its code (invalid instruction)
        code_b: vec![op::log(RegId::ONE, RegId::ZERO, RegId::ZERO, RegId::ZERO)],
        balances: vec![(progkit::A, progkit::ASSET_X, 500), (progkit::B, BASE_W2, 300)],
        gas_price: 37,
        max_fee_limit: 100_000,
        params,
        ..WorldCfg::default()
    };
    vec![
        make_world("w0:A=sww,mint,log,ret;B=sww,rvrt", w0),
        make_world("w1:base=b5..,maxfee5000@price0;A=mint,burn,retd;B=sww,callA,sw-oob", w1),
        make_world("w2:base=c7..,chain=0x5eed,gasprice37/1000,maxfee1e5;A=tro,sww,ret;B=log,<invalid>", w2),
    ]
}

fn script_bytes(w: &World, body: &[u32]) -> Vec<u8> {
    let mut v: Vec<u8> = w.prelude.iter().copied().collect();
    for x in body {
        v.extend_from_slice(&x.to_be_bytes());
    }
    v
}

fn checked(w: &World, script: &[u8], gas: u64) -> Checked<Script> {
    w.tx(script.to_vec(), gas)
        .into_checked_basic(BlockHeight::new(0), &w.params)
        .expect("world tx must pass basic checks")
}

fn ready(w: &World, script: &[u8], gas: u64) -> Ready<Script> {
    checked(w, script, gas)
        .into_ready(w.cfg.gas_price, w.params.gas_costs(), w.params.fee_params(), None)
        .expect("world tx must become ready (max fee covers the gas limit)")
}

// ------------------------------------------------------------------ drivers

#[derive(Clone, Copy, PartialEq, Eq, Debug, Hash)]
enum Class {
    Success,
    Revert,
    Panic,
}

impl Class {
    fn s(self) -> &'static str {
        match self {
            Class::Success => "success",
            Class::Revert => "revert",
            Class::Panic => "panic",
        }
    }
}

struct StepRun {
    last: Step,
    in_call: bool,
    steps: u64,
    /// gas charged by every executed instruction
    charges: Vec<u64>,
    storage: MemoryStorage,
    monitor: Vec<(String, String)>,
}

impl StepRun {
    fn class(&self) -> Option<Class> {
        match &self.last {
            Step::Return(_) | Step::ReturnData(_) if !self.in_call => Some(Class::Success),
            Step::Revert(_) => Some(Class::Revert),
            Step::Panic(_) => Some(Class::Panic),
            _ => None,
        }
    }

    fn label(&self) -> String {
        format!("{}{}", self.last.label(), if self.in_call { "@call" } else { "" })
    }
}

fn stepwise(w: &World, script: &[u8], gas: u64, want_charges: bool) -> StepRun {
    let mut vm: Vm = Interpreter::with_storage(
        MemoryInstance::new(),
        w.storage.clone(),
        w.interpreter_params(),
    );
    vm.init_script(ready(w, script, gas)).expect("init_script");
    let mut charges = Vec::new();
    let mut monitor = Vec::new();
    let mut steps = 0u64;
    // every instruction costs >= 1 gas, so gas + 1 steps are never reached
    let max_steps = gas + 16;
    loop {
        let before = vmkit::reg(&vm, RegId::GGAS);
        let n_before = vm.receipts().len();
        let (s, in_call) = vmkit::step_ctx(&mut vm);
        steps += 1;
        if want_charges {
            charges.push(before.saturating_sub(vmkit::reg(&vm, RegId::GGAS)));
        }
        let fin = vmkit::is_final(&s, in_call);
        if s == Step::Panic(PanicReason::TooManyReceipts) && n_before < MAX_RECEIPTS - 2 {
            monitor.push((
                "C28:limit:too-many-receipts-before-reserved-slots".to_string(),
                format!("step {steps}: TooManyReceipts with only {n_before} receipts (the last two of 65,535 slots are reserved)"),
            ));
        }
        if !fin && vm.receipts().len() > MAX_RECEIPTS - 2 {
            monitor.push((
                "C28:limit:non-terminal-receipt-in-reserved-slot".to_string(),
                format!("step {steps}: execution continues with {} receipts (> 65,533)", vm.receipts().len()),
            ));
        }
        if fin || steps >= max_steps {
            return StepRun {
                last: if fin { s } else { Step::Error("step cap".into()) },
                in_call,
                steps,
                charges,
                storage: vm.as_ref().clone(),
                monitor,
            }
        }
    }
}

struct Done {
    state: ProgramState,
    receipts: Vec<Receipt>,
    tx: Script,
}

fn interp_run(w: &World, script: &[u8], gas: u64) -> Result<Done, String> {
    let rd = ready(w, script, gas);
    let mut vm: Vm = Interpreter::with_storage(
        MemoryInstance::new(),
        w.storage.clone(),
        w.interpreter_params(),
    );
    let r = guard::catch_any(|| match vm.transact(rd) {
        Ok(st) => Ok(Done {
            state: *st.state(),
            receipts: st.receipts().to_vec(),
            tx: st.tx().clone(),
        }),
        Err(e) => Err(format!("{e:?}")),
    });
    match r {
        Ok(x) => x,
        Err(m) => Err(format!("HOST-PANIC {m}")),
    }
}

fn client_run(w: &World, script: &[u8], gas: u64) -> (Result<Done, String>, String) {
    let mut c: MemoryClient<MemoryInstance> =
        MemoryClient::new(MemoryInstance::new(), w.storage.clone(), w.interpreter_params());
    let ch = checked(w, script, gas);
    let r = guard::catch_any(|| {
        c.transact(ch);
    });
    let done = match r {
        Err(m) => Err(format!("HOST-PANIC {m}")),
        Ok(()) => match c.state_transition() {
            Some(st) => Ok(Done {
                state: *st.state(),
                receipts: st.receipts().to_vec(),
                tx: st.tx().clone(),
            }),
            None => Err("no state transition (interpreter error)".to_string()),
        },
    };
    let s: &MemoryStorage = c.as_ref();
    (done, format!("{s:?}"))
}

// ------------------------------------------------------------------ oracle

fn ceil_div(a: u128, b: u128) -> u128 {
    (a + b - 1) / b
}

struct Obs {
    class: Option<Class>,
    kinds: Vec<u8>,
    var_residue: bool,
}

fn kind(r: &Receipt) -> u8 {
    match r {
        Receipt::Call { .. } => 0,
        Receipt::Return { .. } => 1,
        Receipt::ReturnData { .. } => 2,
        Receipt::Panic { .. } => 3,
        Receipt::Revert { .. } => 4,
        Receipt::Log { .. } => 5,
        Receipt::LogData { .. } => 6,
        Receipt::Transfer { .. } => 7,
        Receipt::TransferOut { .. } => 8,
        Receipt::ScriptResult { .. } => 9,
        Receipt::MessageOut { .. } => 10,
        Receipt::Mint { .. } => 11,
        Receipt::Burn { .. } => 12,
    }
}

/// Clauses (1)-(5) on one completed execution.
fn check_done(
    wi: &WorldInfo,
    driver: &str,
    d: &Done,
    expected: Option<Class>,
    out: &mut Vec<(String, String)>,
) -> Obs {
    let rs = &d.receipts;
    let n = rs.len();
    let kinds: Vec<u8> = rs.iter().map(kind).collect();
    let mut obs = Obs {
        class: None,
        kinds: if n > 64 {
            // long runs: compress (count, last 4 kinds)
            let mut k = vec![(n & 0xff) as u8, ((n >> 8) & 0xff) as u8];
            k.extend_from_slice(&kinds[n - 4..]);
            k
        } else {
            kinds.clone()
        },
        var_residue: false,
    };
    // (4)
    if n > MAX_RECEIPTS {
        out.push((
            "C28:receipts:more-than-65535".into(),
            format!("[{driver}] {n} receipts"),
        ));
    }
    // (1)
    let sr: Vec<usize> = (0..n).filter(|i| kinds[*i] == 9).collect();
    if sr.len() != 1 {
        out.push((
            "C28:script-result:not-exactly-one".into(),
            format!("[{driver}] {} ScriptResult receipts among {n}", sr.len()),
        ));
        return obs
    }
    if sr[0] != n - 1 {
        out.push((
            "C28:script-result:not-last".into(),
            format!("[{driver}] ScriptResult at position {} of {n}", sr[0]),
        ));
    }
    let (result, gas_used) = match &rs[sr[0]] {
        Receipt::ScriptResult { result, gas_used } => (*result, *gas_used),
        _ => unreachable!(),
    };
    let class = match result {
        ScriptExecutionResult::Success => Some(Class::Success),
        ScriptExecutionResult::Revert => Some(Class::Revert),
        ScriptExecutionResult::Panic => Some(Class::Panic),
        ScriptExecutionResult::GenericFailure(_) => None,
    };
    obs.class = class;
    let cs = class.map(|c| c.s()).unwrap_or("generic-failure");
    // (2)
    let panics: Vec<usize> = (0..n).filter(|i| kinds[*i] == 3).collect();
    if class == Some(Class::Panic) {
        if !(panics.len() == 1 && sr[0] > 0 && panics[0] == sr[0] - 1) {
            out.push((
                "C28:panic-receipt:not-immediately-before-result".into(),
                format!("[{driver}] result Panic, Panic receipts at {panics:?}, ScriptResult at {}", sr[0]),
            ));
        }
    } else if !panics.is_empty() {
        out.push((
            "C28:panic-receipt:without-panic-result".into(),
            format!("[{driver}] result {cs}, Panic receipts at {panics:?}"),
        ));
    }
    if let Some(e) = expected {
        if class != Some(e) {
            out.push((
                format!("C28:result:{}-reported-as-{cs}", e.s()),
                format!("[{driver}] step-wise run ended as {}, ScriptResult says {cs}", e.s()),
            ));
        }
    }
    let reverts: Vec<usize> = (0..n).filter(|i| kinds[*i] == 4).collect();
    let rev_ok = if class == Some(Class::Revert) {
        reverts.len() == 1 && sr[0] > 0 && reverts[0] == sr[0] - 1
    } else {
        reverts.is_empty()
    };
    if !rev_ok {
        out.push((
            "C28:revert-receipt-vs-result".into(),
            format!("[{driver}] result {cs}, Revert receipts at {reverts:?}, ScriptResult at {}", sr[0]),
        ));
    }
    let state_ok = match (class, &d.state) {
        (Some(Class::Success), ProgramState::Return(_) | ProgramState::ReturnData(_)) => true,
        (Some(Class::Revert) | Some(Class::Panic), ProgramState::Revert(_)) => true,
        _ => false,
    };
    if !state_ok {
        out.push((
            "C28:program-state:inconsistent-with-result".into(),
            format!("[{driver}] result {cs}, ProgramState {:?}", d.state),
        ));
    }
    // (3)
    let leaves: Vec<Vec<u8>> = rs.iter().map(|r| r.to_bytes()).collect();
    let root = oracle::mth(&leaves);
    let got: [u8; 32] = (*d.tx.receipts_root()).into();
    if got != root {
        out.push((
            "C28:receipts-root".into(),
            format!(
                "[{driver}] receipts_root {} != MTH of the {n} encoded receipts {}",
                hex::encode(got),
                hex::encode(root)
            ),
        ));
    }
    // (5)
    if matches!(class, Some(Class::Revert) | Some(Class::Panic)) {
        let w = &wi.w;
        let base = *w.params.base_asset_id();
        let min_gas = d.tx.min_gas(w.params.gas_costs(), w.params.fee_params());
        let fee = ceil_div(
            (min_gas as u128 + gas_used as u128) * w.cfg.gas_price as u128,
            w.params.fee_params().gas_price_factor() as u128,
        );
        let refund = (w.cfg.max_fee_limit as u128).checked_sub(fee);
        for (i, o) in d.tx.outputs().iter().enumerate() {
            match o {
                Output::Variable { to, amount, asset_id } => {
                    if *amount != 0 {
                        out.push((
                            "C28:outputs:variable-not-zeroed".into(),
                            format!("[{driver}] result {cs}, output {i} = {o:?}"),
                        ));
                    }
                    if *to != Address::zeroed() || *asset_id != AssetId::zeroed() {
                        obs.var_residue = true;
                    }
                }
                Output::Change { asset_id, amount, .. } => {
                    if *asset_id == base {
                        let exp = refund.map(|r| wi.init_base as u128 + r);
                        if exp != Some(*amount as u128) {
                            out.push((
                                "C28:outputs:change-base".into(),
                                format!(
                                    "[{driver}] result {cs}, base change {amount}, expected initial {} + refund (max_fee {} - fee {fee} for min_gas {min_gas} + used {gas_used}) = {exp:?}",
                                    wi.init_base, w.cfg.max_fee_limit
                                ),
                            ));
                        }
                    } else {
                        let exp = if *asset_id == progkit::ASSET_X { wi.init_x } else { 0 };
                        if *amount != exp {
                            out.push((
                                "C28:outputs:change-other".into(),
                                format!("[{driver}] result {cs}, change of {asset_id} = {amount}, initial free balance {exp}"),
                            ));
                        }
                    }
                }
                _ => {}
            }
        }
    }
    obs
}

#[derive(Default)]
struct Acc {
    evals: u64,
    programs: u64,
    fault_points: u64,
    max_steps: u64,
    var_residue: u64,
    incomplete: u64,
    fps: HashSet<u64>,
    outcomes: BTreeMap<String, u64>,
    by_receipt_kind: [u64; 13],
    /// key -> (what, case, occurrences); reported in enumeration order by `merge`
    viols: BTreeMap<String, (String, Value, u64)>,
}

/// One (world, script, gas limit): three executions + all clauses.
/// `sr` may carry the already computed step-wise run for this gas limit.
fn check_run(
    ctx: &Ctx,
    wi: &WorldInfo,
    wix: usize,
    script: &[u8],
    gas: u64,
    sr: Option<StepRun>,
    case: &dyn Fn() -> Value,
    acc: &mut Acc,
) {
    let mut v: Vec<(String, String)> = Vec::new();
    let is_empty = script.is_empty();
    let sr = if is_empty {
        None
    } else {
        Some(sr.unwrap_or_else(|| stepwise(&wi.w, script, gas, false)))
    };
    let expected = sr.as_ref().and_then(|s| s.class());
    if let Some(s) = &sr {
        v.extend(s.monitor.iter().cloned());
        acc.max_steps = acc.max_steps.max(s.steps);
    }
    let ir = interp_run(&wi.w, script, gas);
    let (cr, after) = client_run(&wi.w, script, gas);
    acc.evals += 1;

    let label;
    match (&ir, &cr) {
        (Ok(di), Ok(dc)) => {
            let oi = check_done(wi, "interpreter", di, expected, &mut v);
            let oc = check_done(wi, "client", dc, expected, &mut v);
            if oi.var_residue {
                acc.var_residue += 1;
            }
            // (6)
            match oc.class {
                Some(Class::Revert) | Some(Class::Panic) => {
                    if after != wi.debug0 {
                        v.push((
                            format!("C28:client:storage-changed-after-{}", oc.class.unwrap().s()),
                            format!(
                                "MemoryClient storage differs from the initial one after a {} (first difference at byte {})",
                                oc.class.unwrap().s(),
                                first_diff(&after, &wi.debug0)
                            ),
                        ));
                    }
                }
                Some(Class::Success) => {
                    if let Some(s) = sr.as_ref().filter(|s| s.class() == Some(Class::Success)) {
                        let mut fin = s.storage.clone();
                        fin.commit();
                        let exp = format!("{fin:?}");
                        if after != exp {
                            v.push((
                                "C28:client:success-changes-not-kept".into(),
                                format!(
                                    "MemoryClient storage after Success differs from the committed final storage of the step-wise run (first difference at byte {})",
                                    first_diff(&after, &exp)
                                ),
                            ));
                        }
                    }
                }
                None => {}
            }
            for k in di.receipts.iter().map(kind) {
                acc.by_receipt_kind[k as usize] += 1;
            }
            let end = sr.as_ref().map(|s| s.label()).unwrap_or_else(|| "empty-script".into());
            label = format!(
                "{}|{}",
                oi.class.map(|c| c.s()).unwrap_or("?"),
                end
            );
            acc.fps.insert(hash64(&(wix, &oi.kinds, oi.class, &end)));
        }
        _ => {
            // execution did not complete with a state: not in the scope of the statement
            acc.incomplete += 1;
            let e = match (&ir, &cr) {
                (Err(e), _) => e.clone(),
                (_, Err(e)) => format!("client: {e}"),
                _ => unreachable!(),
            };
            label = format!("incomplete|{}", e.chars().take(48).collect::<String>());
        }
    }
    *acc.outcomes.entry(label).or_insert(0) += 1;
    if !v.is_empty() {
        let c = case();
        let mut seen = BTreeSet::new();
        for (k, what) in v {
            if seen.insert(k.clone()) {
                if ctx.replaying {
                    ctx.violation(k, format!("world {} gas_limit {gas}: {what}", wi.name), c.clone());
                } else {
                    acc.viols
                        .entry(k)
                        .or_insert_with(|| (format!("world {} gas_limit {gas}: {what}", wi.name), c.clone(), 0))
                        .2 += 1;
                }
            }
        }
    }
}

/// Written-out observation for the evidence samples.
fn describe(wi: &WorldInfo, script: &[u8], gas: u64) -> Value {
    const NAMES: [&str; 13] = [
        "Call", "Return", "ReturnData", "Panic", "Revert", "Log", "LogData", "Transfer", "TransferOut", "ScriptResult",
        "MessageOut", "Mint", "Burn",
    ];
    match interp_run(&wi.w, script, gas) {
        Ok(d) => {
            let n = d.receipts.len();
            let tail: Vec<&str> = d.receipts[n.saturating_sub(12)..].iter().map(|r| NAMES[kind(r) as usize]).collect();
            let outs: Vec<String> = d
                .tx
                .outputs()
                .iter()
                .filter(|o| o.is_variable() || o.is_change())
                .map(|o| format!("{o:?}"))
                .collect();
            json!({"state": format!("{:?}", d.state), "receipts": n, "last_receipt_kinds": tail,
                "script_result": format!("{:?}", d.receipts.last()), "change_and_variable_outputs": outs,
                "receipts_root": hex::encode(<[u8; 32]>::from(*d.tx.receipts_root()))})
        }
        Err(e) => json!({"incomplete": e}),
    }
}

fn first_diff(a: &str, b: &str) -> usize {
    a.bytes()
        .zip(b.bytes())
        .position(|(x, y)| x != y)
        .unwrap_or(a.len().min(b.len()))
}

/// All gas limits that stop execution at a different instruction: prefix sums of the
/// charges and each - 1 (only those >= `from`), plus the full limit.
fn fault_limits(charges: &[u64], from: u64, g0: u64) -> Vec<u64> {
    let mut set = BTreeSet::new();
    let mut p = 0u64;
    for c in charges {
        p += c;
        for g in [p.saturating_sub(1), p] {
            if g >= from && g < g0 {
                set.insert(g);
            }
        }
    }
    set.into_iter().collect()
}

/// Runs the program with the full gas limit (step-wise run recorded) and returns the
/// gas limits of its fault points; they are executed here unless `defer` is set.
#[allow(clippy::too_many_arguments)]
fn run_program(
    ctx: &Ctx,
    wi: &WorldInfo,
    wix: usize,
    body: &[u32],
    g0: u64,
    // Some(n): only the fault points of the last n instructions
    last_only: Option<usize>,
    skip_prelude_faults: bool,
    defer: bool,
    case: &dyn Fn(u64) -> Value,
    acc: &mut Acc,
) -> Vec<u64> {
    let script = script_bytes(&wi.w, body);
    let full = stepwise(&wi.w, &script, g0, true);
    let charges = full.charges.clone();
    let from = if skip_prelude_faults {
        charges.iter().take(wi.w.prelude.len()).sum::<u64>()
    } else {
        0
    };
    let limits = match last_only {
        None => fault_limits(&charges, from, g0),
        Some(n) => {
            let cut = charges.len().saturating_sub(n);
            let base: u64 = charges[..cut].iter().sum();
            let mut tail = vec![base];
            tail.extend_from_slice(&charges[cut..]);
            // prefix sums restart at `base`
            fault_limits(&tail, base.saturating_sub(1), g0)
        }
    };
    acc.programs += 1;
    check_run(ctx, wi, wix, &script, g0, Some(full), &|| case(g0), acc);
    if !defer {
        acc.fault_points += limits.len() as u64;
        for g in &limits {
            check_run(ctx, wi, wix, &script, *g, None, &|| case(*g), acc);
        }
    }
    limits
}

// ------------------------------------------------------------------ explore / replay

fn merge(ctx: &Ctx, tot: &mut Acc, a: Acc) {
    // chunks are merged in index order, so the recorded case of every key is the
    // first (= shortest) one of the enumeration
    for (k, (what, case, n)) in a.viols {
        for _ in 0..n {
            ctx.violation(k.clone(), what.clone(), case.clone());
        }
    }
    ctx.evals(a.evals);
    ctx.fps_merge(a.fps);
    ctx.outcomes_merge(&a.outcomes);
    tot.programs += a.programs;
    tot.fault_points += a.fault_points;
    tot.max_steps = tot.max_steps.max(a.max_steps);
    tot.var_residue += a.var_residue;
    tot.incomplete += a.incomplete;
    for i in 0..13 {
        tot.by_receipt_kind[i] += a.by_receipt_kind[i];
    }
}

fn explore(ctx: &Ctx) {
    ctx.rule(
        "every (world, program, gas limit) of the described space is executed step-wise, with Interpreter::transact and with \
         MemoryClient::transact; non-trivial = the execution completed with a state; distinct = distinct (world, sequence of \
         receipt kinds, result, kind and call depth of the ending instruction)",
    );
    ctx.assume("vcore::oracle::mth (RFC 6962) and sha2 are correct");
    ctx.assume("fuel_tx::Chargeable::min_gas is taken from the library as an input of the refund formula (C18's topic); gas_used is read from the ScriptResult receipt (C26's topic)");
    ctx.assume("the step-wise run (vmkit::step on a fresh VM, same gas limit) is the reference for 'the top-level program returned' / 'a RVRT executed'");
    ctx.assume("the derived Debug rendering of MemoryStorage is a faithful, deterministic image of all three storage layers (BTreeMaps)");
    ctx.set(
        "dont_care",
        json!([
            "receipt contents beyond kind and position",
            "gas_used (used only as input of the refund formula)",
            "outputs after Success; contract outputs",
            "executions that end with an interpreter error / host panic instead of a state (counted as incomplete; C29)",
            "result rule for the empty script",
            "to / asset_id of a variable output after Revert/Panic (only amount == 0 is demanded; residues are counted in variable_to_asset_residue_after_failure)"
        ]),
    );
    let ws = worlds();
    let alpha = alphabet();
    let term = terminals();
    let k = ctx.pick(3u32, 4u32);
    ctx.set("alphabet", json!(alpha.iter().map(|x| x.name).collect::<Vec<_>>()));
    ctx.set("terminals", json!(term.iter().map(|x| x.name).collect::<Vec<_>>()));
    ctx.set("worlds", json!(ws.iter().map(|w| w.name).collect::<Vec<_>>()));
    ctx.set("k", json!(k));
    let mut tot = Acc::default();

    // ---- EMPTY
    {
        let mut acc = Acc::default();
        for (wix, wi) in ws.iter().enumerate() {
            for g in [0u64, 1, G0_SEQ] {
                check_run(ctx, wi, wix, &[], g, None, &|| json!({"kind": "empty", "world": wix, "gas": g}), &mut acc);
            }
        }
        merge(ctx, &mut tot, acc);
    }

    // ---- SEQ
    {
        let per_world = space::seq_count(alpha.len() as u64, k);
        let total = per_world * ws.len() as u64;
        let mut skipped = 0u64;
        space::par_chunks(
            total,
            64,
            Acc::default,
            |i, acc| {
                if ctx.out_of_time() {
                    acc.incomplete += 1 << 32;
                    return
                }
                // shortest programs first, worlds interleaved
                let wix = (i % ws.len() as u64) as usize;
                let idx = i / ws.len() as u64;
                let seq = space::seq_at(alpha.len() as u64, k, idx);
                let body = seq_words(&alpha, &seq);
                let wi = &ws[wix];
                let names = seq_names(&alpha, &seq);
                let before = acc.evals;
                run_program(
                    ctx,
                    wi,
                    wix,
                    &body,
                    wi.g0,
                    None,
                    seq.len() > 1,
                    false,
                    &|g| json!({"kind": "seq", "world": wix, "seq": seq, "names": names, "gas": g}),
                    acc,
                );
                let interesting = match (wix, names.as_slice()) {
                    (0, ["tr A X 10", "call B"]) => true,
                    (1, ["tro v0 X 10", "call B", "ret"]) => true,
                    (2, ["call A", "tro v0 X 10", "rvrt"]) => true,
                    (2, ["smo 10", "call B"]) => true,
                    _ => false,
                };
                if interesting {
                    ctx.sample(json!({"kind": "seq", "world": wi.name, "program": names, "gas_limits_run": acc.evals - before,
                        "with_full_gas": describe(wi, &script_bytes(&wi.w, &body), wi.g0)}));
                }
            },
            |mut a| {
                skipped += a.incomplete >> 32;
                a.incomplete &= (1 << 32) - 1;
                merge(ctx, &mut tot, a)
            },
        );
        if skipped > 0 {
            ctx.cap(format!("time budget: {skipped} of {total} SEQ programs not run"));
        }
        ctx.set("seq_programs", json!({"per_world": per_world, "total": total, "run": tot.programs}));
    }
    let seq_programs = tot.programs;
    let t_seq = ctx.elapsed();

    // ---- LIMIT
    {
        let ns: Vec<u32> = ctx.pick((65_531..=65_534).collect(), (65_530..=65_535).collect());
        let tk = ctx.pick(1u32, 2u32);
        let lim_worlds: Vec<usize> = ctx.pick(vec![0], vec![0, 1]);
        // explicit list of (world, log count, terminal sequence); the first world gets
        // terminal sequences up to length tk, the others up to length 1
        let mut progs: Vec<(usize, u32, Vec<u64>)> = Vec::new();
        for ti in 0..space::seq_count(term.len() as u64, tk) {
            let t = space::seq_at(term.len() as u64, tk, ti);
            for n in &ns {
                for (p, wix) in lim_worlds.iter().enumerate() {
                    if p == 0 || t.len() <= 1 {
                        progs.push((*wix, *n, t.clone()));
                    }
                }
            }
        }
        let total = progs.len() as u64;
        // out-of-gas as terminal: the gas limits that end execution at each of the last
        // `fault_tail` instructions; quick: only after the terminal [log], thorough:
        // after every terminal sequence of length <= 1 (first world)
        let fault_tail = ctx.pick(3usize, 6usize);
        let decode = |i: u64| progs[i as usize].clone();
        let wants_faults = |wix: usize, t: &[u64]| if ctx.quick() { t == [3] } else { wix == lim_worlds[0] && t.len() <= 1 };
        let mut skipped = 0u64;
        let mut oog_cases: Vec<(u64, u64)> = Vec::new();
        space::par_chunks(
            total,
            1,
            || (Acc::default(), Vec::new()),
            |i, (acc, cases): &mut (Acc, Vec<(u64, u64)>)| {
                if ctx.out_of_time() {
                    acc.incomplete += 1 << 32;
                    return
                }
                let (wix, n, t) = decode(i);
                let body = limit_words(n, &seq_words(&term, &t));
                let names = seq_names(&term, &t);
                let wi = &ws[wix];
                let limits = run_program(
                    ctx,
                    wi,
                    wix,
                    &body,
                    G0_LIMIT,
                    Some(fault_tail),
                    true,
                    true,
                    &|g| json!({"kind": "limit", "world": wix, "n": n, "term": t, "names": names, "gas": g}),
                    acc,
                );
                if wants_faults(wix, &t) {
                    cases.extend(limits.into_iter().map(|g| (i, g)));
                }
                if n == 65_533 && t.len() <= 1 && ctx.want_sample() && (t.is_empty() || t[0] == 4) {
                    ctx.sample(json!({"kind": "limit", "world": wi.name, "log_iterations": n, "terminal": names,
                        "with_full_gas": describe(wi, &script_bytes(&wi.w, &body), G0_LIMIT)}));
                }
            },
            |(mut a, c)| {
                skipped += a.incomplete >> 32;
                a.incomplete &= (1 << 32) - 1;
                oog_cases.extend(c);
                merge(ctx, &mut tot, a)
            },
        );
        space::par_chunks(
            oog_cases.len() as u64,
            1,
            Acc::default,
            |c, acc| {
                if ctx.out_of_time() {
                    acc.incomplete += 1 << 32;
                    return
                }
                let (i, g) = oog_cases[c as usize];
                let (wix, n, t) = decode(i);
                let body = limit_words(n, &seq_words(&term, &t));
                let names = seq_names(&term, &t);
                let wi = &ws[wix];
                acc.fault_points += 1;
                check_run(
                    ctx,
                    wi,
                    wix,
                    &script_bytes(&wi.w, &body),
                    g,
                    None,
                    &|| json!({"kind": "limit", "world": wix, "n": n, "term": t, "names": names, "gas": g}),
                    acc,
                );
            },
            |mut a| {
                skipped += a.incomplete >> 32;
                a.incomplete &= (1 << 32) - 1;
                merge(ctx, &mut tot, a)
            },
        );
        ctx.set("limit_programs", json!({"log_counts": ns, "terminal_len": tk, "worlds": lim_worlds, "programs": total,
            "run": tot.programs - seq_programs, "out_of_gas_runs": oog_cases.len(),
            "fault_points": format!("gas limits ending at each of the last {fault_tail} instructions of {}", if ctx.quick() { "the programs with terminal [log]" } else { "the programs of the first world with a terminal sequence of length <= 1" })}));
        if skipped > 0 {
            ctx.cap(format!("time budget: {skipped} receipt-limit runs not executed"));
        }
    }
    ctx.set("phase_wall_s", json!({"empty+seq": t_seq, "limit": ctx.elapsed() - t_seq}));
    ctx.set("programs", json!(tot.programs));
    ctx.set("fault_point_runs", json!(tot.fault_points));
    ctx.set("max_steps_of_one_run", json!(tot.max_steps));
    ctx.set("incomplete_executions", json!(tot.incomplete));
    ctx.set("variable_to_asset_residue_after_failure", json!(tot.var_residue));
    let names = [
        "Call", "Return", "ReturnData", "Panic", "Revert", "Log", "LogData", "Transfer", "TransferOut", "ScriptResult",
        "MessageOut", "Mint", "Burn",
    ];
    let m: BTreeMap<&str, u64> = names.iter().copied().zip(tot.by_receipt_kind.iter().copied()).collect();
    ctx.set("receipts_seen_by_kind", json!(m));
}

fn replay(case: &Value, ctx: &Ctx) {
    let ws = worlds();
    let wix = case["world"].as_u64().expect("world") as usize;
    let gas = case["gas"].as_u64().expect("gas");
    let wi = &ws[wix];
    let idxs = |v: &Value| -> Vec<u64> { v.as_array().expect("array").iter().map(|x| x.as_u64().unwrap()).collect() };
    let script = match case["kind"].as_str() {
        Some("empty") => vec![],
        Some("seq") => script_bytes(&wi.w, &seq_words(&alphabet(), &idxs(&case["seq"]))),
        Some("limit") => script_bytes(
            &wi.w,
            &limit_words(case["n"].as_u64().unwrap() as u32, &seq_words(&terminals(), &idxs(&case["term"]))),
        ),
        other => panic!("unknown kind {other:?}"),
    };
    let mut acc = Acc::default();
    check_run(ctx, wi, wix, &script, gas, None, &|| case.clone(), &mut acc);
}

fn main() {
    run_check("C28", Level::Exploration, explore, replay)
}
