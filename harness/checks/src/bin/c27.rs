//! C27 — Assets are conserved by every script execution.
//!
//! Space (bounded exhaustive): for every WORLD (transaction shape × callee code
//! configuration, listed below) ALL programs of length <= k (k = 3 quick, 4 thorough)
//! over the 27-letter alphabet A27 built for that world, each program executed with a
//! generous gas limit (1,000,000) AND with every gas limit `g − 1` where g is the gas
//! consumed when the script reaches the start of its 2nd, 3rd, … letter, the closing
//! `ret`, and the end (so the execution runs out of gas inside the last charged
//! instruction of every letter / of the callee it entered).
//!   script = progkit prelude (9 ins) ‖ 4 extra register loads ‖ letters ‖ `ret $one`.
//!   A27 = ret, rvrt, bal; TR to contract A/B of {0,1,all,all+1} of {base, X, asset
//!   minted by A}; TRO to the variable outputs (index register) of {0,1,all} of
//!   base/X and to a non-variable output; CALL A / CALL B forwarding {0,1,all,all+1} of
//!   base/X; SMO {0,1,all} with data lens {0,1}. "all" is read by the program itself
//!   from the balance table in VM memory (`lw` from the table slot).
//!   Callee code configurations (WorldCfg.code_a/code_b):
//!     K1 A: mint 5, burn 2, tr B 1 minted, ret         B: tro var1 1 base, smo 1 (1 data byte), ret
//!     K2 A: mint 3, call B forwarding 2 minted, ret     B: if $bal==0 rvrt else tr A $bal of the forwarded asset, ret
//!     K3 A: mint 4, burn ALL of its minted balance, if $bal!=0 burn 1 more (panics), ret
//!        B: mint 1 (new balance entry), smo ALL of B's base balance, if $bal!=0 tro var0 $bal of the forwarded asset, ret
//!   Transaction shapes: std (base coin + X coin, both change outputs, 2 variable
//!     outputs), nochange (no change outputs), msgs (message-coin + message-data inputs,
//!     coin outputs of base and X, change(base) only, max_fee_limit 1000 at price 0),
//!     fee (gas price 3, gas_price_factor 7, max_fee_limit 600000, both change outputs),
//!     feenc (same fee set-up, message-data input, no change(base)).
//!   Contracts A, B (inputs) and C (deployed, not an input) have prior balances.
//!
//! Execution: end to end through `MemoryClient::transact` (Transactor + storage
//!   commit/revert) and, in parallel, step by step (`World::vm` + `vmkit::step_ctx`).
//!   Choice of the "final" storage view: `Interpreter::transact` never rolls the
//!   storage back; revert semantics live in `MemoryClient::transact` (`should_revert()
//!   ⇒ MemoryStorage::revert()` else `commit()`), so the contracts' final balances are
//!   read from the MemoryClient's storage after `transact`. (`World::transact` is not
//!   used: it builds `Ready` with `test_into_ready`, which fixes gas price 0 and is
//!   refused by `Interpreter::transact` when the interpreter's gas price is not 0.)
//!
//! Oracle, from the property statement only:
//!  (1) per run, per asset (base, X, asset(A,0), asset(B,0) and any asset named in a
//!      receipt/output):   Σ spendable inputs (message-data amounts only on success)
//!        + Σ prior balances of A,B,C + minted(success only)
//!      == Σ coin/change/variable outputs of the final tx + Σ final balances of A,B,C
//!        + burned(success only) + remainder without a change output
//!        + [base] fee charged (max_fee_limit − refund, refund = max_fee_limit −
//!          ceil((min_gas + ScriptResult.gas_used)·price/factor)) + [base] MessageOut
//!          amounts (success only).
//!      Remainder without a change output: on success the final free balance of the VM
//!      (plus, for base, the refund nobody receives); on revert/panic the initial free
//!      balance (non-retryable inputs − max_fee_limit − coin outputs, plus refund).
//!  (2) step-wise: every Transfer / TransferOut / Mint / Burn / MessageOut receipt
//!      pushed by a step matches the change of the named source and destination
//!      (free balance, contract balance in the VM's storage, variable output in the
//!      in-VM transaction) over that step by exactly the receipt's amount.
//!  (3) after init and after every step, for every asset of the tx inputs, the entry
//!      (asset id ‖ amount) at VM_MEMORY_BALANCES_OFFSET + 40·rank(asset) equals
//!      `verif_runtime_balance(asset)` (reported once, at the step that introduces a
//!      difference, keyed by that step's opcode).
//!  Violation keys: C27:ledger:<base|X|minted|other>:<success|failed>,
//!  C27:receipt:<kind>:<src|dst|output>, C27:memtable:<opcode|init>. Violations are
//!  collected per chunk and reported in enumeration order (std/K1, shortest program,
//!  uncut gas first). Worlds are visited in a Latin-square order (see `build_worlds`).
//!  asset(contract, sub) = sha256(contract ‖ sub) is computed by the harness.

#[path = "../progkit.rs"]
mod progkit;

use std::collections::{
    BTreeMap,
    BTreeSet,
    HashSet,
};

use fuel_asm::{
    op,
    Instruction,
    RegId,
};
use fuel_tx::{
    field::{
        Inputs,
        MaxFeeLimit,
        Outputs,
    },
    Chargeable,
    ConsensusParameters,
    FeeParameters,
    Output,
    Receipt,
    Script,
    ScriptExecutionResult,
};
use fuel_types::{
    Address,
    AssetId,
    BlockHeight,
    ContractId,
};
use fuel_vm::{
    checked_transaction::IntoChecked,
    interpreter::MemoryInstance,
    memory_client::MemoryClient,
    storage::{
        ContractsAssetsStorage,
        MemoryStorage,
    },
    transactor::Transactor,
};
use progkit::{
    letter,
    off,
    r,
    Letter,
    World,
    WorldCfg,
    A,
    ASSET_X,
    B,
    C,
};
use vcore::{
    guard,
    json,
    oracle,
    run_check,
    run::hash64,
    space,
    vmkit::{
        self,
        Step,
        Vm,
    },
    Ctx,
    Level,
    Value,
};

const GENEROUS_GAS: u64 = 1_000_000;
const BALANCES_OFFSET: usize = 64; // VM_MEMORY_BALANCES_OFFSET: tx id (32) ‖ base asset id (32)
const ENTRY: usize = 40; // asset id (32) ‖ amount (8)

// extra registers loaded by the 4-instruction prelude extension
const R_MINTED_A: u8 = 0x29; // -> asset(A, 0) (32 bytes in script data)
const R_SUB0: u8 = 0x2A; // -> 32 zero bytes (sub id)
const R_VAR0: u8 = 0x2B; // output index of the first variable output
const R_VAR1: u8 = 0x2C; // output index of the second variable output
const R_AMT: u8 = 0x10; // scratch
const R_T1: u8 = 0x11;

fn derived_asset(c: &ContractId, sub: &[u8; 32]) -> AssetId {
    AssetId::new(oracle::sha256(&[c.as_ref(), &sub[..]]))
}

// ------------------------------------------------------------------ worlds

struct W {
    name: String,
    world: World,
    ext: Vec<Instruction>,
    alphabet: Vec<Letter>,
    /// assets of the tx inputs, sorted (= layout of the balance table)
    tx_assets: Vec<AssetId>,
    /// assets always included in the ledger
    ledger_assets: Vec<AssetId>,
    minted_a: AssetId,
    base: AssetId,
    desc: Value,
}

#[derive(Clone)]
struct Shape {
    name: &'static str,
    msg_coin: u64,
    msg_data: Option<u64>,
    change_base: bool,
    change_x: bool,
    gas_price: u64,
    factor: Option<u64>,
    max_fee_limit: u64,
    coin_outputs: bool,
}

fn shapes() -> Vec<Shape> {
    let std = Shape {
        name: "std",
        msg_coin: 0,
        msg_data: None,
        change_base: true,
        change_x: true,
        gas_price: 0,
        factor: None,
        max_fee_limit: 0,
        coin_outputs: false,
    };
    vec![
        std.clone(),
        Shape {
            name: "nochange",
            change_base: false,
            change_x: false,
            ..std.clone()
        },
        Shape {
            name: "msgs",
            msg_coin: 500,
            msg_data: Some(700),
            change_x: false,
            max_fee_limit: 1000,
            coin_outputs: true,
            ..std.clone()
        },
        Shape {
            name: "fee",
            gas_price: 3,
            factor: Some(7),
            max_fee_limit: 600_000,
            ..std.clone()
        },
        Shape {
            name: "feenc",
            msg_data: Some(700),
            change_base: false,
            gas_price: 3,
            factor: Some(7),
            max_fee_limit: 600_000,
            ..std
        },
    ]
}

/// Callee bodies. Registers of the caller (prelude pointers) are visible in the callee.
fn codes(which: &str) -> (Vec<Instruction>, Vec<Instruction>) {
    match which {
        "K1" => (
            vec![
                op::movi(R_AMT, 5),
                op::mint(R_AMT, R_SUB0),
                op::movi(R_AMT, 2),
                op::burn(R_AMT, R_SUB0),
                op::tr(r::CALL_B, RegId::ONE, R_MINTED_A),
                op::ret(RegId::ONE),
            ],
            vec![
                op::tro(r::RECIPIENT, R_VAR1, RegId::ONE, r::ASSET_BASE),
                op::smo(r::RECIPIENT, r::PATTERN, RegId::ONE, RegId::ONE),
                op::ret(RegId::ONE),
            ],
        ),
        "K2" => (
            vec![
                op::movi(R_AMT, 3),
                op::mint(R_AMT, R_SUB0),
                op::movi(R_AMT, 2),
                op::call(r::CALL_B, R_AMT, R_MINTED_A, RegId::CGAS),
                op::ret(RegId::ONE),
            ],
            vec![
                op::jnzi(RegId::BAL, 2),
                op::rvrt(RegId::ONE),
                op::addi(R_T1, RegId::FP, 32), // forwarded asset id in the call frame
                op::tr(r::CALL_A, RegId::BAL, R_T1),
                op::ret(RegId::ONE),
            ],
        ),
        "K3" => (
            vec![
                op::movi(R_AMT, 4),
                op::mint(R_AMT, R_SUB0),
                op::bal(R_T1, R_MINTED_A, RegId::FP), // own balance of the minted asset
                op::burn(R_T1, R_SUB0),               // burn all (boundary)
                op::jnzi(RegId::BAL, 6),
                op::ret(RegId::ONE),
                op::burn(RegId::ONE, R_SUB0), // nothing left: panics
                op::ret(RegId::ONE),
            ],
            vec![
                op::mint(RegId::ONE, R_SUB0), // asset(B,0): creates a new balance entry
                op::bal(R_T1, r::ASSET_BASE, RegId::FP),
                op::smo(r::RECIPIENT, r::PATTERN, RegId::ZERO, R_T1), // all of B's base
                op::jnzi(RegId::BAL, 5),
                op::ret(RegId::ONE),
                op::addi(R_T1, RegId::FP, 32),
                op::tro(r::RECIPIENT, R_VAR0, RegId::BAL, R_T1),
                op::ret(RegId::ONE),
            ],
        ),
        other => panic!("unknown code configuration {other}"),
    }
}

const CODE_NAMES: [&str; 3] = ["K1", "K2", "K3"];

fn build_world(shape: &Shape, code: &str) -> W {
    let mut params = ConsensusParameters::standard();
    if let Some(f) = shape.factor {
        params.set_fee_params(FeeParameters::DEFAULT.with_gas_price_factor(f));
    }
    let base = *params.base_asset_id();
    let minted_a = derived_asset(&A, &[0u8; 32]);
    let minted_b = derived_asset(&B, &[0u8; 32]);
    let (code_a, code_b) = codes(code);
    let mut extra = minted_a.to_vec();
    extra.extend_from_slice(&[0u8; 32]);
    let cfg = WorldCfg {
        code_a,
        code_b,
        balances: vec![
            (A, ASSET_X, 500),
            (B, base, 300),
            (A, minted_a, 10),
            (B, ASSET_X, 7),
            (C, base, 40),
            (C, ASSET_X, 41),
        ],
        base_coin: 1_000_000,
        x_coin: 1_000,
        msg_coin: shape.msg_coin,
        msg_data: shape.msg_data.map(|a| (a, vec![1, 2, 3])),
        change_base: shape.change_base,
        change_x: shape.change_x,
        variable_outputs: 2,
        gas_price: shape.gas_price,
        max_fee_limit: shape.max_fee_limit,
        params,
        extra_script_data: extra,
        ..WorldCfg::default()
    };
    let mut world = World::new(cfg);
    // outputs: contract, contract, [change base], [change X], variable, variable, [coins…]
    let var0 = 2 + shape.change_base as u32 + shape.change_x as u32;
    if shape.coin_outputs {
        // appended, so that the variable-output indices stay put
        let outs = world.template.outputs_mut();
        outs.push(Output::coin(Address::new([0x88; 32]), 50, base));
        outs.push(Output::coin(Address::new([0x89; 32]), 100, ASSET_X));
    }
    {
        let outs = world.template.outputs();
        assert!(outs[var0 as usize].is_variable() && outs[var0 as usize + 1].is_variable());
        assert!(!outs[var0 as usize - 1].is_variable());
    }
    let ext = vec![
        op::addi(R_MINTED_A, r::DATA, off::END),
        op::addi(R_SUB0, r::DATA, off::END + 32),
        op::movi(R_VAR0, var0),
        op::movi(R_VAR1, var0 + 1),
    ];
    let mut tx_assets: Vec<AssetId> = vec![base, ASSET_X];
    tx_assets.sort();
    tx_assets.dedup();
    let slot = |asset: &AssetId| -> u16 {
        let i = tx_assets.iter().position(|a| a == asset).expect("tx asset");
        let addr = BALANCES_OFFSET + ENTRY * i + 32;
        assert_eq!(addr % 8, 0);
        (addr / 8) as u16
    };
    let (sb, sx) = (slot(&base), slot(&ASSET_X));

    // ---- alphabet A27 (simplest first)
    let all = |s: u16| vec![op::lw(R_AMT, RegId::ZERO, s)];
    let all1 = |s: u16| vec![op::lw(R_AMT, RegId::ZERO, s), op::addi(R_AMT, R_AMT, 1)];
    let cat = |mut a: Vec<Instruction>, b: Instruction| {
        a.push(b);
        a
    };
    let alphabet = vec![
        letter("ret", vec![op::ret(RegId::ONE)]),
        letter("rvrt", vec![op::rvrt(RegId::ONE)]),
        letter("bal A X", vec![op::bal(0x12, r::ASSET_X, r::CALL_A)]),
        // TR
        letter("tr A base 1", vec![op::tr(r::CALL_A, RegId::ONE, r::ASSET_BASE)]),
        letter("tr B X 1", vec![op::tr(r::CALL_B, RegId::ONE, r::ASSET_X)]),
        letter("tr A base all", cat(all(sb), op::tr(r::CALL_A, R_AMT, r::ASSET_BASE))),
        letter("tr B X all", cat(all(sx), op::tr(r::CALL_B, R_AMT, r::ASSET_X))),
        letter("tr A X all+1", cat(all1(sx), op::tr(r::CALL_A, R_AMT, r::ASSET_X))),
        letter("tr A base 0", vec![op::tr(r::CALL_A, RegId::ZERO, r::ASSET_BASE)]),
        letter("tr B mintedA 1", vec![op::tr(r::CALL_B, RegId::ONE, R_MINTED_A)]),
        // TRO
        letter("tro var0 base 1", vec![op::tro(r::RECIPIENT, R_VAR0, RegId::ONE, r::ASSET_BASE)]),
        letter("tro var1 X 1", vec![op::tro(r::RECIPIENT, R_VAR1, RegId::ONE, r::ASSET_X)]),
        letter("tro var0 X all", cat(all(sx), op::tro(r::RECIPIENT, R_VAR0, R_AMT, r::ASSET_X))),
        letter("tro var1 base all", cat(all(sb), op::tro(r::RECIPIENT, R_VAR1, R_AMT, r::ASSET_BASE))),
        letter("tro var0 base 0", vec![op::tro(r::RECIPIENT, R_VAR0, RegId::ZERO, r::ASSET_BASE)]),
        letter("tro out0 X 1", vec![op::tro(r::RECIPIENT, RegId::ZERO, RegId::ONE, r::ASSET_X)]),
        // CALL
        letter("call A fwd 0", vec![op::call(r::CALL_A, RegId::ZERO, r::ASSET_BASE, RegId::CGAS)]),
        letter("call A fwd 1 base", vec![op::call(r::CALL_A, RegId::ONE, r::ASSET_BASE, RegId::CGAS)]),
        letter("call A fwd all X", cat(all(sx), op::call(r::CALL_A, R_AMT, r::ASSET_X, RegId::CGAS))),
        letter("call A fwd all+1 X", cat(all1(sx), op::call(r::CALL_A, R_AMT, r::ASSET_X, RegId::CGAS))),
        letter("call B fwd 0", vec![op::call(r::CALL_B, RegId::ZERO, r::ASSET_X, RegId::CGAS)]),
        letter("call B fwd 1 X", vec![op::call(r::CALL_B, RegId::ONE, r::ASSET_X, RegId::CGAS)]),
        letter("call B fwd all base", cat(all(sb), op::call(r::CALL_B, R_AMT, r::ASSET_BASE, RegId::CGAS))),
        // SMO
        letter("smo 0 len0", vec![op::smo(r::RECIPIENT, r::PATTERN, RegId::ZERO, RegId::ZERO)]),
        letter("smo 1 len1", vec![op::smo(r::RECIPIENT, r::PATTERN, RegId::ONE, RegId::ONE)]),
        letter("smo all len0", cat(all(sb), op::smo(r::RECIPIENT, r::PATTERN, RegId::ZERO, R_AMT))),
        letter("smo all len1", cat(all(sb), op::smo(r::RECIPIENT, r::PATTERN, RegId::ONE, R_AMT))),
    ];

    let name = format!("{}/{}", shape.name, code);
    let desc = json!({
        "name": name,
        "inputs": {"base_coin": 1_000_000, "x_coin": 1_000, "message_coin": shape.msg_coin, "message_data": shape.msg_data},
        "outputs": {"change_base": shape.change_base, "change_x": shape.change_x, "variable": 2, "contract": 2,
                    "coin": if shape.coin_outputs { json!([["base", 50], ["X", 100]]) } else { json!([]) }},
        "gas_price": shape.gas_price, "gas_price_factor": shape.factor, "max_fee_limit": shape.max_fee_limit,
        "prior_balances": "A:{X:500, asset(A,0):10} B:{base:300, X:7} C:{base:40, X:41}",
        "callee_code": code,
    });
    W {
        name,
        world,
        ext,
        alphabet,
        tx_assets,
        ledger_assets: vec![base, ASSET_X, minted_a, minted_b],
        minted_a,
        base,
        desc,
    }
}

fn build_worlds() -> Vec<W> {
    // Latin-square order: every three consecutive worlds use the three code
    // configurations with three different shapes (so a run cut short by the time
    // budget still has seen every shape and every callee code early); std/K1 first.
    let sh = shapes();
    let mut v = Vec::new();
    for layer in 0..sh.len() {
        for (ci, code) in CODE_NAMES.iter().enumerate() {
            v.push(build_world(&sh[(layer + ci) % sh.len()], code));
        }
    }
    v
}

// ------------------------------------------------------------------ one run

#[derive(Default)]
struct RunReport {
    viols: Vec<(String, String)>,
    outcome: String,
    /// gas consumed at the letter boundaries and at the end (generous runs only)
    boundaries: Vec<u64>,
    nontrivial: bool,
    fp: u64,
    receipts: BTreeMap<&'static str, u64>,
    summary: Value,
}

fn asset_class(w: &W, a: &AssetId) -> &'static str {
    if *a == w.base {
        "base"
    } else if *a == ASSET_X {
        "X"
    } else if w.ledger_assets.contains(a) {
        "minted"
    } else {
        "other"
    }
}

const CONTRACTS: [ContractId; 3] = [A, B, C];

fn cbal(s: &MemoryStorage, c: &ContractId, a: &AssetId) -> u64 {
    s.contract_asset_id_balance(c, a)
        .expect("infallible")
        .unwrap_or(0)
}

#[derive(Clone, PartialEq, Eq, Hash, PartialOrd, Ord, Debug)]
enum Holder {
    Free,
    Contract(ContractId),
    VarOut,
}

/// Tracked balances of the step-wise run.
struct Snap {
    free: Vec<Option<u64>>,          // per ledger asset
    contracts: Vec<Vec<u64>>,        // [contract][ledger asset]
    vars: Vec<(Address, u64, AssetId)>, // variable outputs of the in-VM transaction
}

fn snap(w: &W, vm: &Vm) -> Snap {
    Snap {
        free: w
            .ledger_assets
            .iter()
            .map(|a| vm.verif_runtime_balance(a))
            .collect(),
        contracts: CONTRACTS
            .iter()
            .map(|c| w.ledger_assets.iter().map(|a| cbal(vm.as_ref(), c, a)).collect())
            .collect(),
        vars: vm
            .transaction()
            .outputs()
            .iter()
            .filter_map(|o| match o {
                Output::Variable {
                    to,
                    amount,
                    asset_id,
                } => Some((*to, *amount, *asset_id)),
                _ => None,
            })
            .collect(),
    }
}

impl Snap {
    fn get(&self, w: &W, h: &Holder, a: &AssetId) -> Option<i128> {
        let ai = w.ledger_assets.iter().position(|x| x == a)?;
        match h {
            Holder::Free => Some(self.free[ai].unwrap_or(0) as i128),
            Holder::Contract(c) => {
                let ci = CONTRACTS.iter().position(|x| x == c)?;
                Some(self.contracts[ci][ai] as i128)
            }
            Holder::VarOut => Some(
                self.vars
                    .iter()
                    .filter(|v| v.2 == *a)
                    .map(|v| v.1 as i128)
                    .sum(),
            ),
        }
    }
}

fn table_mismatch(w: &W, vm: &Vm) -> Option<String> {
    for (i, asset) in w.tx_assets.iter().enumerate() {
        let at = BALANCES_OFFSET + ENTRY * i;
        let id: Result<[u8; 32], _> = vm.memory().read_bytes(at);
        let amt: Result<[u8; 8], _> = vm.memory().read_bytes(at + 32);
        let internal = vm.verif_runtime_balance(asset);
        match (id, amt) {
            (Ok(id), Ok(amt)) => {
                let amt = u64::from_be_bytes(amt);
                if id != **asset || Some(amt) != internal {
                    return Some(format!(
                        "table entry {i} at {at}: asset {} amount {amt}; internal free balance of {} = {internal:?}",
                        hex::encode(&id[..4]),
                        hex::encode(&asset[..4]),
                    ))
                }
            }
            other => return Some(format!("table entry {i} unreadable: {other:?}")),
        }
    }
    None
}

fn opcode_at_pc(vm: &Vm) -> String {
    let pc = vmkit::reg(vm, RegId::PC);
    match vm.memory().read_bytes::<_, 4>(pc) {
        Ok(b) => match Instruction::try_from(b) {
            Ok(i) => format!("{:?}", i.opcode()),
            Err(_) => "INVALID".into(),
        },
        Err(_) => "NOFETCH".into(),
    }
}

fn ceil_fee(gas: u64, price: u64, factor: u64) -> u128 {
    let p = gas as u128 * price as u128;
    let f = factor as u128;
    (p + f - 1) / f
}

fn rname(r: &Receipt) -> String {
    format!("{r:?}")
        .chars()
        .take_while(|c| c.is_ascii_alphanumeric())
        .collect()
}

fn kind(r: &Receipt) -> Option<&'static str> {
    Some(match r {
        Receipt::Transfer { .. } => "Transfer",
        Receipt::TransferOut { .. } => "TransferOut",
        Receipt::Mint { .. } => "Mint",
        Receipt::Burn { .. } => "Burn",
        Receipt::MessageOut { .. } => "MessageOut",
        _ => return None,
    })
}

struct EndToEnd {
    receipts: Vec<Receipt>,
    tx: Script,
    storage: MemoryStorage,
    final_free: BTreeMap<AssetId, Option<u64>>,
}

fn end_to_end(w: &W, script: Vec<u8>, gas_limit: u64, assets: &BTreeSet<AssetId>) -> Result<EndToEnd, String> {
    let checked = w
        .world
        .tx(script, gas_limit)
        .into_checked_basic(BlockHeight::new(0), &w.world.params)
        .expect("world tx must pass basic checks");
    let r = guard::catch_any(|| {
        let mut client = MemoryClient::<MemoryInstance>::new(
            MemoryInstance::new(),
            w.world.storage.clone(),
            w.world.interpreter_params(),
        );
        client.transact(checked);
        let (receipts, tx) = match client.state_transition() {
            Some(st) => (st.receipts().to_vec(), st.tx().clone()),
            None => return Err("no state transition (interpreter error)".to_string()),
        };
        let storage: MemoryStorage = AsRef::<MemoryStorage>::as_ref(&client).clone();
        let t: Transactor<MemoryInstance, MemoryStorage, Script> = client.into();
        let final_free = assets
            .iter()
            .map(|a| (*a, t.interpreter().verif_runtime_balance(a)))
            .collect();
        Ok(EndToEnd {
            receipts,
            tx,
            storage,
            final_free,
        })
    });
    match r {
        Ok(x) => x,
        Err(m) => Err(format!("HOST-PANIC {m}")),
    }
}

/// Run one (world, program, gas limit) through both executions and all oracles.
fn check_run(w: &W, names: &[String], body: &[Instruction], letter_lens: &[usize], gas_limit: u64) -> RunReport {
    let mut rep = RunReport::default();
    let mut full: Vec<Instruction> = w.ext.clone();
    full.extend_from_slice(body);
    full.push(op::ret(RegId::ONE));
    let script = w.world.script_bytes(&full);

    // instruction indices (from $is) at which "gas so far" is recorded
    let mut marks: BTreeSet<u64> = BTreeSet::new();
    let mut at = (w.world.body_start() + w.ext.len()) as u64;
    for (i, l) in letter_lens.iter().enumerate() {
        if i > 0 {
            marks.insert(at);
        }
        at += *l as u64;
    }
    marks.insert(at); // the closing ret

    // ---------------- step-wise run: oracles (2) and (3)
    let mut vm = w.world.vm(script.clone(), gas_limit);
    let mut table_ok = true;
    if let Some(m) = table_mismatch(w, &vm) {
        table_ok = false;
        rep.viols.push(("C27:memtable:init".into(), format!("after initialisation: {m}")));
    }
    let mut prev = snap(w, &vm);
    let mut steps = 0u32;
    let mut step_err: Option<String> = None;
    loop {
        let opname = opcode_at_pc(&vm);
        let fp = vmkit::reg(&vm, RegId::FP);
        if fp == 0 {
            let idx = (vmkit::reg(&vm, RegId::PC) - vmkit::reg(&vm, RegId::IS)) / 4;
            if marks.contains(&idx) {
                rep.boundaries.push(gas_limit - vmkit::reg(&vm, RegId::GGAS));
            }
        }
        let current: Option<ContractId> = vm.verif_call_stack().last().map(|f| *f.to());
        let rlen = vm.receipts().len();
        let (s, in_call) = vmkit::step_ctx(&mut vm);
        steps += 1;
        let now = snap(w, &vm);
        let new: Vec<Receipt> = vm.receipts()[rlen.min(vm.receipts().len())..].to_vec();
        for rc in &new {
            let Some(k) = kind(rc) else { continue };
            *rep.receipts.entry(k).or_default() += 1;
            // (holder, asset, expected signed change, role)
            let mut exp: Vec<(Holder, AssetId, i128, &'static str)> = vec![];
            let src_of = |id: &ContractId| {
                if *id == ContractId::zeroed() {
                    Holder::Free
                } else {
                    Holder::Contract(*id)
                }
            };
            let mut varout: Option<(Address, u64, AssetId)> = None;
            match rc {
                Receipt::Transfer {
                    id,
                    to,
                    amount,
                    asset_id,
                    ..
                } => {
                    exp.push((src_of(id), *asset_id, -(*amount as i128), "src"));
                    exp.push((Holder::Contract(*to), *asset_id, *amount as i128, "dst"));
                }
                Receipt::TransferOut {
                    id,
                    to,
                    amount,
                    asset_id,
                    ..
                } => {
                    exp.push((src_of(id), *asset_id, -(*amount as i128), "src"));
                    exp.push((Holder::VarOut, *asset_id, *amount as i128, "dst"));
                    varout = Some((*to, *amount, *asset_id));
                }
                Receipt::Mint {
                    sub_id,
                    contract_id,
                    val,
                    ..
                } => exp.push((
                    Holder::Contract(*contract_id),
                    derived_asset(contract_id, sub_id),
                    *val as i128,
                    "dst",
                )),
                Receipt::Burn {
                    sub_id,
                    contract_id,
                    val,
                    ..
                } => exp.push((
                    Holder::Contract(*contract_id),
                    derived_asset(contract_id, sub_id),
                    -(*val as i128),
                    "src",
                )),
                Receipt::MessageOut { amount, .. } => exp.push((
                    current.map(Holder::Contract).unwrap_or(Holder::Free),
                    w.base,
                    -(*amount as i128),
                    "src",
                )),
                _ => {}
            }
            // a transfer to oneself nets out
            let mut net: BTreeMap<(Holder, AssetId), (i128, &'static str)> = BTreeMap::new();
            for (h, a, d, role) in exp {
                let e = net.entry((h, a)).or_insert((0, role));
                e.0 += d;
            }
            for ((h, a), (d, role)) in net {
                match (prev.get(w, &h, &a), now.get(w, &h, &a)) {
                    (Some(b), Some(n)) => {
                        if n - b != d {
                            rep.viols.push((
                                format!("C27:receipt:{k}:{role}"),
                                format!(
                                    "step {steps} ({opname}): receipt {rc:?} but {h:?} balance of {} asset went {b} -> {n} (expected change {d})",
                                    asset_class(w, &a)
                                ),
                            ));
                        }
                    }
                    _ => panic!("harness: receipt names an untracked holder/asset: {rc:?}"),
                }
            }
            if let Some(v) = varout {
                let was = prev.vars.iter().filter(|x| **x == v).count();
                let is = now.vars.iter().filter(|x| **x == v).count();
                if is != was + 1 {
                    rep.viols.push((
                        "C27:receipt:TransferOut:output".into(),
                        format!("step {steps} ({opname}): receipt {rc:?} but no variable output became (to, amount, asset) of the receipt"),
                    ));
                }
            }
        }
        // reported at the step that introduces a difference (later steps inherit it)
        match table_mismatch(w, &vm) {
            Some(m) if table_ok => {
                table_ok = false;
                rep.viols.push((
                    format!("C27:memtable:{opname}"),
                    format!("after step {steps} ({opname}, result {}): {m}", s.label()),
                ));
            }
            Some(_) => {}
            None => table_ok = true,
        }
        prev = now;
        match &s {
            Step::Error(e) => step_err = Some(e.clone()),
            Step::HostPanic(m) => step_err = Some(format!("HOST-PANIC {m}")),
            Step::Debug => step_err = Some("debug event".into()),
            _ => {}
        }
        if vmkit::is_final(&s, in_call) {
            break
        }
        assert!(steps < 400, "harness: program does not terminate");
    }
    let total_used = gas_limit - vmkit::reg(&vm, RegId::GGAS);
    rep.boundaries.push(total_used);
    let step_receipts: Vec<Receipt> = vm.receipts().to_vec();

    // ---------------- end-to-end run: oracle (1)
    let mut assets: BTreeSet<AssetId> = w.ledger_assets.iter().copied().collect();
    for rc in &step_receipts {
        match rc {
            Receipt::Transfer { asset_id, .. } | Receipt::TransferOut { asset_id, .. } | Receipt::Call { asset_id, .. } => {
                assets.insert(*asset_id);
            }
            Receipt::Mint {
                sub_id,
                contract_id,
                ..
            }
            | Receipt::Burn {
                sub_id,
                contract_id,
                ..
            } => {
                assets.insert(derived_asset(contract_id, sub_id));
            }
            _ => {}
        }
    }
    let e2e = match end_to_end(w, script, gas_limit, &assets) {
        Ok(e) => e,
        Err(m) => {
            rep.outcome = format!("interpreter-error:{}", m.chars().take(40).collect::<String>());
            return rep
        }
    };
    if step_err.is_some() {
        rep.outcome = "interpreter-error(stepwise)".into();
        return rep
    }
    // both executions are the same deterministic computation
    let n = step_receipts.len();
    assert!(
        e2e.receipts.len() > n && e2e.receipts[..n] == step_receipts[..] && e2e.receipts.len() <= n + 2,
        "harness: step-wise and end-to-end executions diverged ({} / {n} receipts) for {names:?} in {}",
        e2e.receipts.len(),
        w.name
    );
    let (result, gas_used) = match e2e.receipts.last() {
        Some(Receipt::ScriptResult { result, gas_used }) => (*result, *gas_used),
        other => panic!("harness: last receipt is not ScriptResult: {other:?}"),
    };
    let success = matches!(result, ScriptExecutionResult::Success);
    let panic_reason = e2e.receipts.iter().find_map(|r| match r {
        Receipt::Panic { reason, .. } => Some(format!("{:?}", reason.reason())),
        _ => None,
    });
    rep.outcome = match (&result, &panic_reason) {
        (ScriptExecutionResult::Success, _) => "success".into(),
        (ScriptExecutionResult::Revert, _) => "revert".into(),
        (_, Some(p)) => format!("panic:{p}"),
        (other, None) => format!("{other:?}"),
    };
    for o in e2e.tx.outputs() {
        if let Some(a) = o.asset_id() {
            assets.insert(*a);
        }
    }

    let tx = &e2e.tx;
    let max_fee_limit = tx.max_fee_limit();
    let fee_params = w.world.params.fee_params();
    let min_gas = tx.min_gas(w.world.params.gas_costs(), fee_params);
    let used_fee = ceil_fee(
        min_gas.saturating_add(gas_used),
        w.world.cfg.gas_price,
        fee_params.gas_price_factor(),
    );
    let refund: u128 = (max_fee_limit as u128)
        .checked_sub(used_fee)
        .expect("harness: world max_fee_limit too small for the fee");
    let fee_charged = max_fee_limit as u128 - refund;

    let mut ledger_json = vec![];
    for a in &assets {
        let is_base = *a == w.base;
        let mut inputs: u128 = 0;
        let mut non_retryable: u128 = 0;
        for i in tx.inputs() {
            let Some(amount) = i.amount() else { continue };
            if i.asset_id(&w.base) != Some(a) {
                continue
            }
            let data_msg = i.is_message_data_signed() || i.is_message_data_predicate();
            if !data_msg {
                non_retryable += amount as u128;
            }
            if !data_msg || success {
                inputs += amount as u128;
            }
        }
        let prior: u128 = CONTRACTS.iter().map(|c| cbal(&w.world.storage, c, a) as u128).sum();
        let fin: u128 = CONTRACTS.iter().map(|c| cbal(&e2e.storage, c, a) as u128).sum();
        let (mut minted, mut burned, mut msgs) = (0u128, 0u128, 0u128);
        if success {
            for rc in &e2e.receipts {
                match rc {
                    Receipt::Mint {
                        sub_id,
                        contract_id,
                        val,
                        ..
                    } if derived_asset(contract_id, sub_id) == *a => minted += *val as u128,
                    Receipt::Burn {
                        sub_id,
                        contract_id,
                        val,
                        ..
                    } if derived_asset(contract_id, sub_id) == *a => burned += *val as u128,
                    Receipt::MessageOut { amount, .. } if is_base => msgs += *amount as u128,
                    _ => {}
                }
            }
        }
        let (mut outs, mut coin_outs, mut has_change) = (0u128, 0u128, false);
        for o in tx.outputs() {
            if o.asset_id() != Some(a) {
                continue
            }
            match o {
                Output::Coin { amount, .. } => {
                    outs += *amount as u128;
                    coin_outs += *amount as u128;
                }
                Output::Change { amount, .. } => {
                    outs += *amount as u128;
                    has_change = true;
                }
                Output::Variable { amount, .. } => outs += *amount as u128,
                _ => {}
            }
        }
        let left: u128 = if has_change {
            0
        } else {
            let kept = if success {
                e2e.final_free.get(a).copied().flatten().unwrap_or(0) as u128
            } else {
                let fee_part = if is_base { max_fee_limit as u128 } else { 0 };
                non_retryable
                    .checked_sub(fee_part + coin_outs)
                    .expect("harness: world inputs do not cover fee limit and coin outputs")
            };
            kept + if is_base { refund } else { 0 }
        };
        let fee = if is_base { fee_charged } else { 0 };
        let lhs = inputs + prior + minted;
        let rhs = outs + fin + burned + left + fee + msgs;
        if *a == w.base || *a == ASSET_X || *a == w.minted_a {
            ledger_json.push(json!({"asset": asset_class(w, a), "in": inputs as u64, "prior": prior as u64, "minted": minted as u64,
                "outputs": outs as u64, "final": fin as u64, "burned": burned as u64, "left": left as u64, "fee": fee as u64, "messages": msgs as u64}));
        }
        if lhs != rhs {
            rep.viols.push((
                format!(
                    "C27:ledger:{}:{}",
                    asset_class(w, a),
                    if success { "success" } else { "failed" }
                ),
                format!(
                    "{} asset, result {}: inputs {inputs} + prior {prior} + minted {minted} = {lhs}  !=  outputs {outs} + final {fin} + burned {burned} + left-without-change {left} + fee {fee} + messages {msgs} = {rhs} (gas_used {gas_used}, refund {refund})",
                    asset_class(w, a),
                    rep.outcome
                ),
            ));
        }
    }

    rep.nontrivial = e2e.receipts.iter().any(|r| {
        kind(r).is_some() || matches!(r, Receipt::Call { amount, .. } if *amount > 0)
    });
    let outs: Vec<(u8, u64)> = tx
        .outputs()
        .iter()
        .map(|o| (o.repr() as u8, o.amount().unwrap_or(0)))
        .collect();
    let fins: Vec<u64> = CONTRACTS
        .iter()
        .flat_map(|c| w.ledger_assets.iter().map(|a| cbal(&e2e.storage, c, a)).collect::<Vec<_>>())
        .collect();
    let rk: Vec<(String, u64)> = e2e
        .receipts
        .iter()
        .map(|r| (rname(r), r.amount().or(r.val()).unwrap_or(0)))
        .collect();
    rep.fp = hash64(&(&w.name, &rep.outcome, outs, fins, rk, gas_limit == GENEROUS_GAS));
    rep.summary = json!({
        "world": w.name, "letters": names, "gas_limit": gas_limit, "result": rep.outcome, "gas_used": gas_used,
        "steps": steps, "receipts": e2e.receipts.iter().map(rname).collect::<Vec<_>>(),
        "ledger": ledger_json,
    });
    rep
}

// ------------------------------------------------------------------ driver

#[derive(Default)]
struct Acc {
    evals: u64,
    outcomes: BTreeMap<String, u64>,
    fps: HashSet<u64>,
    viols: Vec<(String, String, Value)>,
    samples: Vec<(u32, Value)>,
    programs: u64,
    skipped: u64,
}

fn absorb(acc: &mut Acc, w: &W, names: &[String], gas: u64, rep: &RunReport) {
    acc.evals += 1;
    *acc.outcomes.entry(rep.outcome.clone()).or_default() += 1;
    if gas != GENEROUS_GAS {
        *acc.outcomes.entry("(runs with a cut gas limit)".into()).or_default() += 1;
    }
    for (k, n) in &rep.receipts {
        *acc.outcomes.entry(format!("receipt:{k}")).or_default() += n;
    }
    if rep.nontrivial {
        acc.fps.insert(rep.fp);
    }
    for (k, what) in &rep.viols {
        if acc.viols.len() < 64 {
            acc.viols.push((
                k.clone(),
                format!("[{} | {:?} | gas {gas}] {what}", w.name, names),
                json!({"world": w.name, "letters": names, "gas_limit": gas}),
            ));
        }
    }
    // sample score: successful runs with many kinds of movement receipts
    let score = rep.receipts.len() as u32 * 2 + (rep.outcome == "success") as u32 * 3 + (gas != GENEROUS_GAS) as u32;
    if rep.nontrivial && acc.samples.len() < 2 && score >= 5 {
        acc.samples.push((score, rep.summary.clone()));
    }
}

fn run_program(w: &W, k: u32, idx: u64, acc: &mut Acc) {
    let (seq, body) = progkit::program_at(&w.alphabet, k, idx);
    let names = progkit::program_names(&w.alphabet, &seq);
    let lens: Vec<usize> = seq.iter().map(|i| w.alphabet[*i as usize].ins.len()).collect();
    acc.programs += 1;
    let rep = check_run(w, &names, &body, &lens, GENEROUS_GAS);
    absorb(acc, w, &names, GENEROUS_GAS, &rep);
    let limits: BTreeSet<u64> = rep
        .boundaries
        .iter()
        .filter(|g| **g >= 1)
        .map(|g| g - 1)
        .collect();
    for g in limits {
        let rep = check_run(w, &names, &body, &lens, g);
        absorb(acc, w, &names, g, &rep);
    }
}

fn explore(ctx: &Ctx) {
    ctx.rule(
        "for every world, all letter sequences of length <= k over that world's alphabet (shortest first), each run with \
         gas limit 1,000,000 and with every limit g-1 for g = gas consumed at the 2nd.. letter starts, the closing ret and \
         the end; a run is non-trivial when it produced at least one Transfer/TransferOut/Mint/Burn/MessageOut receipt or \
         a Call forwarding coins; distinct = distinct (world, result, final outputs, final contract balances, receipt \
         kinds+amounts, cut/uncut gas)",
    );
    ctx.assume("sha2 (asset id derivation) and the MemoryStorage test backend are correct");
    ctx.assume("min_gas of the transaction is taken from fuel_tx::Chargeable::min_gas (fee arithmetic itself is C18's subject); the fee/refund from it is recomputed by the harness as ceil((min_gas+gas_used)*price/factor)");
    ctx.assume("the final state of a transaction is the MemoryClient's storage after transact (revert() on Revert/Panic receipts, commit() otherwise)");
    ctx.assume("step-wise and end-to-end executions of the same transaction are the same computation (asserted: identical receipts)");
    ctx.set(
        "dont_care",
        json!([
            "order and content of receipts beyond the amounts/ids used by oracle (2)",
            "whether a transfer of an asset that is not among the inputs panics, and with which reason (only its ledger is checked)",
            "which panic reason ends a failing run; register contents",
            "balance changes of steps that push none of the five receipt kinds (e.g. CALL forwarding) are only checked end to end by (1)",
            "per-contract split of balances in the ledger (only sums over A,B,C per asset)",
            "runs in which the interpreter returns an error instead of a result (counted as interpreter-error outcomes)"
        ]),
    );
    let k = ctx.pick(3u32, 4u32);
    let worlds = build_worlds();
    ctx.set("k", json!(k));
    ctx.set("alphabet", json!(worlds[0].alphabet.iter().map(|l| l.name.clone()).collect::<Vec<_>>()));
    ctx.set("alphabet_size", json!(worlds[0].alphabet.len()));
    ctx.set("callee_code", json!({
        "K1": "A: mint 5; burn 2; tr B 1 minted; ret | B: tro var1 1 base; smo 1 (1 byte); ret",
        "K2": "A: mint 3; call B fwd 2 minted; ret | B: if $bal==0 rvrt; tr A $bal forwarded-asset; ret",
        "K3": "A: mint 4; burn all; if $bal!=0 burn 1 (panics); ret | B: mint 1 (new entry); smo all base; if $bal!=0 tro var0 $bal forwarded-asset; ret",
    }));
    let mut per_world = vec![];
    let mut capped = false;
    for w in &worlds {
        let n = space::seq_count(w.alphabet.len() as u64, k);
        let mut tot = Acc::default();
        space::par_chunks(
            n,
            256,
            Acc::default,
            |i, acc| {
                if ctx.out_of_time() {
                    acc.skipped += 1;
                    return
                }
                run_program(w, k, i, acc);
            },
            |a| {
                tot.evals += a.evals;
                tot.programs += a.programs;
                tot.skipped += a.skipped;
                for (k, v) in a.outcomes {
                    *tot.outcomes.entry(k).or_default() += v;
                }
                ctx.fps_merge(a.fps);
                for (k, what, case) in a.viols {
                    ctx.violation(k, what, case);
                }
                tot.samples.extend(a.samples);
            },
        );
        ctx.evals(tot.evals);
        ctx.outcomes_merge(&tot.outcomes);
        tot.samples.sort_by(|a, b| b.0.cmp(&a.0));
        if let Some((_, s)) = tot.samples.first() {
            if ctx.sample_count() < 8 && (w.name.ends_with("K1") || ctx.sample_count() < 3) {
                ctx.sample(s.clone());
            }
        }
        if tot.skipped > 0 {
            capped = true;
        }
        let mut d = w.desc.clone();
        d["programs"] = json!(tot.programs);
        d["programs_in_space"] = json!(n);
        d["runs"] = json!(tot.evals);
        d["outcomes"] = json!(tot.outcomes);
        per_world.push(d);
    }
    ctx.set("worlds", json!(per_world));
    if capped {
        ctx.cap("time budget reached: some (world, program) pairs were not run; see worlds[].programs vs programs_in_space");
    }
}

fn replay(case: &Value, ctx: &Ctx) {
    let worlds = build_worlds();
    let wname = case["world"].as_str().expect("world");
    let w = worlds.iter().find(|w| w.name == wname).expect("unknown world");
    let names: Vec<String> = case["letters"]
        .as_array()
        .expect("letters")
        .iter()
        .map(|v| v.as_str().expect("letter").to_string())
        .collect();
    let gas = case["gas_limit"].as_u64().expect("gas_limit");
    let mut body = vec![];
    let mut lens = vec![];
    for n in &names {
        let l = w.alphabet.iter().find(|l| &l.name == n).expect("unknown letter");
        body.extend_from_slice(&l.ins);
        lens.push(l.ins.len());
    }
    let rep = check_run(w, &names, &body, &lens, gas);
    for (k, what) in rep.viols {
        ctx.violation(k, what, case.clone());
    }
}

fn main() {
    run_check("C27", Level::Exploration, explore, replay)
}
