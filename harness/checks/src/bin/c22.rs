//! C22 — Wide-integer instructions follow the specification.
//!
//! One prepared VM (script context; the stack was extended by the real `CFEI 256`, the
//! heap by the real `ALOC 256`; both growths are verified on the memory instance). Per
//! case the VM is cloned, big-endian operands are written into stack / heap slots,
//! pointer (or direct value) registers, `$flag`, `$of`(=5) and `$err`(= the reachable value
//! the instruction has to change: 1, or 0 when the reference expects 1) are set, ONE
//! raw instruction word is injected and the complete observable state is compared.
//!
//! Space (finite, fully enumerated; sizes quick | thorough):
//!   opcodes   WDCM WQCM WDOP WQOP WDML WQML WDDV WQDV (register,register,register,imm06)
//!             WDMD WQMD WDAM WQAM WDMM WQMM             (four registers)
//!   operands  (ia, ib, ic) ∈ {0..n}³, n = 12 | 20. Index i denotes the width-specific
//!             boundary integer W[i] when the operand is read from memory and the
//!             64-bit value DIRECT[i] when the mode says "register value is the
//!             operand". For the imm06 opcodes (two operands) ic selects the previous
//!             content of the destination (memory bytes W[ic] / register DIRECT[ic]).
//!   imm06     every value 0..63 for the eight imm06 opcodes (all valid and invalid
//!             mode encodings, direct and indirect); the four-register opcodes use
//!             rd = r19. Reduction for the *invalid* encodings (their specified behaviour
//!             does not depend on operands): quick runs them for every (ia, ib) but only
//!             ic = 0; thorough runs them for every triple but only with the 9
//!             representative layouts.
//!   $flag     0, F_UNSAFEMATH, F_WRAPPING, both.
//!   layout    operand placement (each of lhs/rhs/third in the script-owned stack or
//!             heap) × destination (owned stack slot, owned heap slot, aliasing the lhs
//!             operand, last bytes of the stack, last bytes of memory, not owned: inside
//!             the tx area below `$ssp`, not owned: straddling `$ssp`).
//!             quick: 9 representative combinations; thorough: all 8 × 7 = 56.
//!             For compares the destination dimension selects the register instead:
//!             r16, r63, the lhs pointer register, the rhs register, `$zero`, `$hp`.
//!
//! Oracle: independent decoder of the imm06 encodings (doc comments of
//! fuel-asm/src/args/wideint.rs) + arbitrary-precision reference (`vcore::oracle::Big`):
//!   compare   EQ NE LT GT LTE GTE → 0/1, LZC → leading zero bits of lhs; `$of`=`$err`=0
//!   WxOP      add/sub/not/or/xor/and/shl/shr truncated to the width; `$of` = carry /
//!             borrow (0 for the bitwise ops and shr); `$err` = 0
//!   WxML      product truncated; `$of` = product ≥ 2^width
//!   WxDV      lhs / rhs; rhs = 0 ⇒ ArithmeticError, or with F_UNSAFEMATH result 0, `$err`=1
//!   WxMD      (a·b) / c with c = 0 meaning 2^width; `$of` = quotient ≥ 2^width (truncated)
//!   WxAM/MM   (a+b) mod c, (a·b) mod c; c = 0 as for WxDV
//!   overflow without F_WRAPPING ⇒ ArithmeticOverflow; invalid imm06 ⇒
//!   InvalidImmediateValue; destination not owned ⇒ MemoryOwnership; reserved
//!   destination register (compares) ⇒ ReservedRegisterNotWritable.
//!   Success ⇒ `$pc` += 4, destination = result, nothing else in memory changes, no
//!   register other than `$of $err $pc $cgas $ggas` (and the compare destination) changes.
//!   Panic ⇒ reason ∈ set of applicable conditions, memory unchanged.
//!
//! Don't-cares: which reason is reported when several panic conditions hold; register
//! contents after a panic; `$of` of SHL when non-zero bits are shifted out (and, tied to
//! it, ArithmeticOverflow without F_WRAPPING in that case) — the result bytes are still
//! checked; WxOP/NOT and WxCM/LZC with an *invalid* indirect rhs pointer are not part of
//! the space (all pointers used are readable); gas registers.
//!
//! Violation keys: `C22:<OPCODE>[:<sub-operation>]:<condition>:<what differs>` with
//! condition ∈ invalid-imm, reserved-dst, unowned-dst, zero-divisor, overflow, plain and
//! what ∈ outcome, result, of, err, pc, regs, memory, host-panic.

use std::collections::{
    BTreeMap,
    HashSet,
};

use fuel_asm::{
    op,
    PanicReason,
    RegId,
};
use serde::{
    Deserialize,
    Serialize,
};
use vcore::{
    json,
    oracle::Big,
    run::hash64,
    run_check,
    space,
    vmkit::{
        self,
        Step,
        Vm,
    },
    Ctx,
    Level,
    Value,
};

// ------------------------------------------------------------------ constants

/// VM_MAX_RAM of the specification (64 MiB); cross-checked against the initial `$hp`.
const MEM_SIZE: u64 = 1 << 26;
const GROW: u64 = 256;
/// Bytes below `$ssp` that belong to the compared "window" (tx area destination).
const BELOW: u64 = 64;
const SLOT: u64 = 48;

const R_DST: usize = 0x10;
const R_LHS: usize = 0x11;
const R_RHS: usize = 0x12;
const R_THIRD: usize = 0x13;

const OF_BEFORE: u64 = 5;
const ERR_BEFORE: u64 = 1;

const F_UNSAFEMATH: u8 = 0x01;
const F_WRAPPING: u8 = 0x02;

#[derive(Clone, Copy, PartialEq, Eq, Debug)]
enum Kind {
    Cmp,
    Op,
    Mul,
    Div,
    MulDiv,
    AddMod,
    MulMod,
}

struct OpDef {
    name: &'static str,
    byte: u32,
    kind: Kind,
    w: usize,
}

const fn od(name: &'static str, byte: u32, kind: Kind, w: usize) -> OpDef {
    OpDef {
        name,
        byte,
        kind,
        w,
    }
}

/// Opcode bytes as documented in the instruction table of fuel-asm/src/lib.rs.
const OPS: [OpDef; 14] = [
    od("WDCM", 0xa0, Kind::Cmp, 16),
    od("WQCM", 0xa1, Kind::Cmp, 32),
    od("WDOP", 0xa2, Kind::Op, 16),
    od("WQOP", 0xa3, Kind::Op, 32),
    od("WDML", 0xa4, Kind::Mul, 16),
    od("WQML", 0xa5, Kind::Mul, 32),
    od("WDDV", 0xa6, Kind::Div, 16),
    od("WQDV", 0xa7, Kind::Div, 32),
    od("WDMD", 0xa8, Kind::MulDiv, 16),
    od("WQMD", 0xa9, Kind::MulDiv, 32),
    od("WDAM", 0xaa, Kind::AddMod, 16),
    od("WQAM", 0xab, Kind::AddMod, 32),
    od("WDMM", 0xac, Kind::MulMod, 16),
    od("WQMM", 0xad, Kind::MulMod, 32),
];

fn has_imm(kind: Kind) -> bool {
    matches!(kind, Kind::Cmp | Kind::Op | Kind::Mul | Kind::Div)
}

const CMP_NAMES: [&str; 7] = ["EQ", "NE", "LT", "GT", "LTE", "GTE", "LZC"];
const MATH_NAMES: [&str; 8] = ["ADD", "SUB", "NOT", "OR", "XOR", "AND", "SHL", "SHR"];

// ------------------------------------------------------------------ imm06 decoder (independent)

#[derive(Clone, Copy, PartialEq, Eq, Debug, Hash)]
enum Mode {
    Invalid,
    /// mode 0..=6, indirect rhs
    Cmp(u8, bool),
    /// op 0..=7, indirect rhs
    Op(u8, bool),
    /// indirect lhs, indirect rhs
    Mul(bool, bool),
    /// indirect rhs
    Div(bool),
    /// four-register form: everything indirect
    Quad,
}

/// Bit 5 = "load rhs from memory"; the remaining bits per instruction group:
/// compare: bits 0..2 mode (0..=6), bits 3..4 reserved; op: bits 0..4 operation (0..=7);
/// mul: bit 4 = "load lhs from memory", bits 0..3 reserved; div: bits 0..4 reserved.
fn decode(kind: Kind, imm: u8) -> Mode {
    let ind_rhs = imm & 0b10_0000 != 0;
    match kind {
        Kind::Cmp => {
            let mode = imm & 0b111;
            if imm & 0b1_1000 != 0 || mode > 6 {
                Mode::Invalid
            } else {
                Mode::Cmp(mode, ind_rhs)
            }
        }
        Kind::Op => {
            let o = imm & 0b1_1111;
            if o > 7 {
                Mode::Invalid
            } else {
                Mode::Op(o, ind_rhs)
            }
        }
        Kind::Mul => {
            if imm & 0b1111 != 0 {
                Mode::Invalid
            } else {
                Mode::Mul(imm & 0b1_0000 != 0, ind_rhs)
            }
        }
        Kind::Div => {
            if imm & 0b1_1111 != 0 {
                Mode::Invalid
            } else {
                Mode::Div(ind_rhs)
            }
        }
        Kind::MulDiv | Kind::AddMod | Kind::MulMod => Mode::Quad,
    }
}

fn lhs_indirect(m: Mode) -> bool {
    !matches!(m, Mode::Mul(false, _))
}

fn rhs_indirect(m: Mode) -> bool {
    match m {
        Mode::Invalid | Mode::Quad => true,
        Mode::Cmp(_, i) | Mode::Op(_, i) | Mode::Mul(_, i) | Mode::Div(i) => i,
    }
}

fn sub_name(m: Mode) -> Option<&'static str> {
    match m {
        Mode::Cmp(c, _) => Some(CMP_NAMES[c as usize]),
        Mode::Op(o, _) => Some(MATH_NAMES[o as usize]),
        _ => None,
    }
}

// ------------------------------------------------------------------ arithmetic reference

#[derive(Clone, Debug)]
struct Pure {
    /// result (already truncated to the width); for compares the register value
    value: Big,
    overflow: bool,
    divzero: bool,
    /// `$of` not pinned by the documentation (SHL that shifts out non-zero bits)
    of_open: bool,
}

fn bitwise(a: &Big, b: &Big, w: usize, f: impl Fn(u8, u8) -> u8) -> Big {
    let (x, y) = (a.to_be(w), b.to_be(w));
    let z: Vec<u8> = x.iter().zip(y.iter()).map(|(p, q)| f(*p, *q)).collect();
    Big::from_be(&z)
}

/// Shift amount if it is smaller than the width in bits.
fn small_shift(b: &Big, bits: usize) -> Option<usize> {
    match b.to_u64() {
        Some(s) if (s as u128) < bits as u128 => Some(s as usize),
        _ => None,
    }
}

fn pure(mode: Mode, kind: Kind, w: usize, a: &Big, b: &Big, c: &Big) -> Option<Pure> {
    let bits = w * 8;
    let plain = |value: Big| Pure {
        value,
        overflow: false,
        divzero: false,
        of_open: false,
    };
    let trunc = |v: Big| {
        let overflow = v.bits() > bits;
        Pure {
            value: v.low_bits(bits),
            overflow,
            divzero: false,
            of_open: false,
        }
    };
    let zero_div = || Pure {
        value: Big::zero(),
        overflow: false,
        divzero: true,
        of_open: false,
    };
    Some(match (mode, kind) {
        (Mode::Invalid, _) => return None,
        (Mode::Cmp(m, _), _) => {
            let t = |x: bool| Big::from_u64(x as u64);
            plain(match m {
                0 => t(a == b),
                1 => t(a != b),
                2 => t(a < b),
                3 => t(a > b),
                4 => t(a <= b),
                5 => t(a >= b),
                _ => Big::from_u64((bits - a.bits()) as u64),
            })
        }
        (Mode::Op(o, _), _) => match o {
            0 => trunc(a.add(b)),
            1 => {
                if a >= b {
                    plain(a.sub(b))
                } else {
                    Pure {
                        value: Big::pow2(bits).add(a).sub(b),
                        overflow: true,
                        divzero: false,
                        of_open: false,
                    }
                }
            }
            2 => plain(Big::pow2(bits).sub(&Big::one()).sub(a)),
            3 => plain(bitwise(a, b, w, |p, q| p | q)),
            4 => plain(bitwise(a, b, w, |p, q| p ^ q)),
            5 => plain(bitwise(a, b, w, |p, q| p & q)),
            6 => match small_shift(b, bits) {
                Some(s) => {
                    let full = a.shl(s);
                    let lost = full.bits() > bits;
                    Pure {
                        value: full.low_bits(bits),
                        overflow: false,
                        divzero: false,
                        of_open: lost,
                    }
                }
                None => Pure {
                    value: Big::zero(),
                    overflow: false,
                    divzero: false,
                    of_open: !a.is_zero(),
                },
            },
            _ => match small_shift(b, bits) {
                Some(s) => plain(a.shr(s)),
                None => plain(Big::zero()),
            },
        },
        (Mode::Mul(..), _) => trunc(a.mul(b)),
        (Mode::Div(_), _) => {
            if b.is_zero() {
                zero_div()
            } else {
                plain(a.divrem(b).0)
            }
        }
        (Mode::Quad, Kind::MulDiv) => {
            let d = if c.is_zero() { Big::pow2(bits) } else { c.clone() };
            trunc(a.mul(b).divrem(&d).0)
        }
        (Mode::Quad, Kind::AddMod) => {
            if c.is_zero() {
                zero_div()
            } else {
                plain(a.add(b).divrem(c).1)
            }
        }
        (Mode::Quad, Kind::MulMod) => {
            if c.is_zero() {
                zero_div()
            } else {
                plain(a.mul(b).divrem(c).1)
            }
        }
        (Mode::Quad, _) => unreachable!("quad mode only for four-register opcodes"),
    })
}

// ------------------------------------------------------------------ alphabets

/// One operand index: the wide value (when read from memory) and the 64-bit value
/// (when the register value is the operand).
#[derive(Clone, Debug)]
struct Opd {
    w: Vec<u8>,
    d: u64,
    wb: Big,
    db: Big,
}

fn opd(wide: &Big, d: u64, w: usize) -> Opd {
    Opd {
        w: wide.to_be(w),
        d,
        wb: wide.clone(),
        db: Big::from_u64(d),
    }
}

fn p2(k: usize) -> Big {
    Big::pow2(k)
}

fn wide_alphabet(w: usize, n: usize) -> Vec<Big> {
    let one = Big::one();
    let pat: Vec<u8> = (1..=w as u8).collect();
    let mut v = if w == 16 {
        vec![
            Big::zero(),
            Big::one(),
            Big::from_u64(2),
            Big::from_u64(128),
            p2(64).sub(&one),
            p2(64),
            p2(64).add(&one),
            p2(127),
            p2(128).sub(&one),
            Big::from_be(&pat),
            p2(127).sub(&one),
            p2(128).sub(&Big::from_u64(2)),
            // thorough
            Big::from_u64(3),
            Big::from_u64(127),
            Big::from_u64(129),
            p2(32),
            p2(63),
            p2(96).add(&Big::from_u64(5)),
            p2(127).add(&one),
            p2(128).sub(&p2(64)),
        ]
    } else {
        vec![
            Big::zero(),
            Big::one(),
            Big::from_u64(2),
            Big::from_u64(256),
            p2(64).sub(&one),
            p2(64),
            p2(127),
            p2(128).sub(&one),
            p2(128),
            p2(255),
            p2(256).sub(&one),
            Big::from_be(&pat),
            // thorough
            Big::from_u64(3),
            Big::from_u64(255),
            Big::from_u64(257),
            p2(128).add(&one),
            p2(192),
            p2(255).sub(&one),
            p2(255).add(&one),
            p2(256).sub(&Big::from_u64(2)),
        ]
    };
    assert!(n <= v.len());
    v.truncate(n);
    v
}

fn direct_alphabet(n: usize) -> Vec<u64> {
    let mut v = vec![
        0,
        1,
        2,
        3,
        64,
        127,
        128,
        255,
        256,
        1 << 32,
        1 << 63,
        u64::MAX,
        // thorough
        7,
        63,
        65,
        129,
        257,
        (1 << 32) - 1,
        (1 << 63) - 1,
        u64::MAX - 1,
    ];
    assert!(n <= v.len());
    v.truncate(n);
    v
}

fn alphabet(w: usize, n: usize) -> Vec<Opd> {
    wide_alphabet(w, n)
        .iter()
        .zip(direct_alphabet(n))
        .map(|(b, d)| opd(b, d, w))
        .collect()
}

// ------------------------------------------------------------------ layouts

#[derive(Clone, Copy, PartialEq, Eq, Debug, Serialize, Deserialize)]
enum Place {
    Stack,
    Heap,
}

#[derive(Clone, Copy, PartialEq, Eq, Debug, Serialize, Deserialize)]
enum Dst {
    Stack,
    Heap,
    AliasLhs,
    StackTop,
    HeapTop,
    TxArea,
    StraddleSsp,
}

const DSTS: [Dst; 7] = [
    Dst::Stack,
    Dst::Heap,
    Dst::AliasLhs,
    Dst::StackTop,
    Dst::HeapTop,
    Dst::TxArea,
    Dst::StraddleSsp,
];

#[derive(Clone, Copy, PartialEq, Eq, Debug, Serialize, Deserialize)]
struct Layout {
    a: Place,
    b: Place,
    c: Place,
    dst: Dst,
}

fn layouts(full: bool) -> Vec<Layout> {
    use Place::*;
    if !full {
        let l = |a, b, c, dst| Layout {
            a,
            b,
            c,
            dst,
        };
        return vec![
            l(Stack, Stack, Stack, Dst::Stack),
            l(Heap, Heap, Heap, Dst::Heap),
            l(Stack, Heap, Stack, Dst::Heap),
            l(Heap, Stack, Heap, Dst::Stack),
            l(Stack, Stack, Stack, Dst::AliasLhs),
            l(Heap, Heap, Heap, Dst::TxArea),
            l(Stack, Stack, Stack, Dst::StraddleSsp),
            l(Stack, Heap, Stack, Dst::StackTop),
            l(Heap, Stack, Heap, Dst::HeapTop),
        ]
    }
    let mut v = Vec::new();
    for dst in DSTS {
        for bits in 0..8u8 {
            let p = |b: u8| if b == 0 { Stack } else { Heap };
            v.push(Layout {
                a: p(bits & 1),
                b: p(bits & 2),
                c: p(bits & 4),
                dst,
            });
        }
    }
    v
}

// ------------------------------------------------------------------ prepared VM

struct Base {
    vm: Vm,
    ssp: u64,
    sp: u64,
    hp: u64,
    stack0: Vec<u8>,
    heap0: Vec<u8>,
    heap_base: u64,
    /// window start in the stack (ssp - BELOW)
    win_lo: u64,
}

fn rid(r: RegId) -> usize {
    r.to_u8() as usize
}

impl Base {
    fn new() -> Base {
        let mut vm = vmkit::vm_for_script(&[op::noop(), op::ret(RegId::ONE)], vec![], 1_000_000);
        assert_eq!(vmkit::reg(&vm, RegId::HP), MEM_SIZE, "initial $hp is VM_MAX_RAM");
        let ssp0 = vmkit::reg(&vm, RegId::SSP);
        assert_eq!(vmkit::reg(&vm, RegId::SP), ssp0);
        assert_eq!(vmkit::inject(&mut vm, op::cfei(GROW as u32)), Step::Proceed, "CFEI");
        assert_eq!(vmkit::inject(&mut vm, op::movi(0x20, GROW as u32)), Step::Proceed, "MOVI");
        assert_eq!(vmkit::inject(&mut vm, op::aloc(0x20)), Step::Proceed, "ALOC");
        vm.registers_mut()[0x20] = 0;
        let (ssp, sp, hp) = (
            vmkit::reg(&vm, RegId::SSP),
            vmkit::reg(&vm, RegId::SP),
            vmkit::reg(&vm, RegId::HP),
        );
        assert_eq!(ssp, ssp0);
        assert_eq!(sp, ssp + GROW);
        assert_eq!(hp, MEM_SIZE - GROW);
        assert!(ssp >= BELOW);
        // the memory instance has really grown
        let m = vm.memory();
        assert!(m.verify(ssp, GROW).is_ok(), "stack readable up to $sp");
        assert!(m.verify(hp, GROW).is_ok(), "heap readable from $hp");
        assert!(m.verify(sp, 1u64).is_err(), "gap above $sp is not accessible");
        assert!(m.verify(hp - 1, 1u64).is_err(), "gap below $hp is not accessible");
        let stack0 = m.stack_raw().to_vec();
        let heap0 = m.heap_raw().to_vec();
        assert_eq!(stack0.len() as u64, sp, "stack buffer ends at $sp");
        assert_eq!(heap0.len() as u64, GROW, "heap buffer is exactly the allocation");
        assert!(stack0[ssp as usize..].iter().all(|b| *b == 0));
        assert!(heap0.iter().all(|b| *b == 0));
        Base {
            vm,
            ssp,
            sp,
            hp,
            heap_base: MEM_SIZE - heap0.len() as u64,
            stack0,
            heap0,
            win_lo: ssp - BELOW,
        }
    }

    fn img_len(&self) -> usize {
        (self.sp - self.win_lo) as usize + self.heap0.len()
    }

    /// Index into the expected image (stack window followed by the heap buffer).
    fn img_index(&self, addr: u64, len: usize) -> usize {
        let end = addr + len as u64;
        if addr >= self.win_lo && end <= self.sp {
            (addr - self.win_lo) as usize
        } else if addr >= self.heap_base && end <= MEM_SIZE {
            (self.sp - self.win_lo + addr - self.heap_base) as usize
        } else {
            panic!("harness address {addr}+{len} outside the compared windows")
        }
    }

    fn slot(&self, p: Place, i: u64) -> u64 {
        match p {
            Place::Stack => self.ssp + SLOT * i,
            Place::Heap => self.hp + 8 + SLOT * i,
        }
    }

    fn dst_addr(&self, d: Dst, w: usize, lhs_addr: u64) -> u64 {
        match d {
            Dst::Stack => self.ssp + SLOT * 3,
            Dst::Heap => self.hp + 8 + SLOT * 3,
            Dst::AliasLhs => lhs_addr,
            Dst::StackTop => self.sp - w as u64,
            Dst::HeapTop => MEM_SIZE - w as u64,
            Dst::TxArea => self.ssp - BELOW,
            Dst::StraddleSsp => self.ssp - 8,
        }
    }

    /// Ownership in a script context (no call frame): the stack `[$ssp, $sp)` or the
    /// heap `[$hp, VM_MAX_RAM)`.
    fn owned(&self, addr: u64, w: usize) -> bool {
        let end = addr + w as u64;
        (addr >= self.ssp && end <= self.sp) || (addr >= self.hp && end <= MEM_SIZE)
    }
}

struct Scratch {
    img: Vec<u8>,
}

// ------------------------------------------------------------------ one case

struct CaseRef<'a> {
    op: usize,
    /// imm06 for the imm opcodes; ignored (rd = r19) for the four-register opcodes
    imm: u8,
    flag: u8,
    layout: Layout,
    a: &'a Opd,
    b: &'a Opd,
    c: &'a Opd,
}

#[derive(Clone, Copy, PartialEq, Eq, Debug)]
enum Class {
    Ok = 0,
    OkOf,
    OkErr,
    PInvalidImm,
    POverflow,
    PArith,
    POwnership,
    PReserved,
    DontCare,
}
const NCLASS: usize = 9;
const CLASS_NAMES: [&str; NCLASS] = [
    "ok",
    "ok($of=1)",
    "ok($err=1)",
    "panic:InvalidImmediateValue",
    "panic:ArithmeticOverflow",
    "panic:ArithmeticError",
    "panic:MemoryOwnership",
    "panic:ReservedRegisterNotWritable",
    "accepted-by-dont-care(SHL bits shifted out)",
];

enum Verdict {
    Good {
        class: Class,
        /// executed without panic and fully pinned by the oracle
        nontrivial: bool,
    },
    Bad {
        key: String,
        what: String,
    },
}

struct PanicSet {
    r: [Option<PanicReason>; 4],
    n: usize,
    cond: &'static str,
}

impl PanicSet {
    fn add(&mut self, p: PanicReason, c: &'static str) {
        if self.n == 0 {
            self.cond = c;
        }
        self.r[self.n] = Some(p);
        self.n += 1;
    }
}

fn cmp_dst_reg(d: Dst) -> usize {
    match d {
        Dst::Stack | Dst::HeapTop => R_DST,
        Dst::Heap => 0x3f,
        Dst::AliasLhs => R_LHS,
        Dst::StackTop => R_RHS,
        Dst::TxArea => rid(RegId::ZERO),
        Dst::StraddleSsp => rid(RegId::HP),
    }
}

fn effective<'a>(cs: &'a CaseRef, mode: Mode) -> (&'a Big, &'a Big, &'a Big) {
    let a = if lhs_indirect(mode) { &cs.a.wb } else { &cs.a.db };
    let b = if rhs_indirect(mode) { &cs.b.wb } else { &cs.b.db };
    (a, b, &cs.c.wb)
}

fn describe(cs: &CaseRef, mode: Mode) -> String {
    let o = &OPS[cs.op];
    let (a, b, c) = effective(cs, mode);
    format!(
        "{} imm06={:#04x} ({:?}) $flag={} layout={:?} a={} b={} c/dst-before={}",
        o.name,
        cs.imm,
        mode,
        cs.flag,
        cs.layout,
        hex::encode(a.to_be(o.w)),
        hex::encode(b.to_be(o.w)),
        hex::encode(c.to_be(o.w)),
    )
}

fn check_with(base: &Base, cs: &CaseRef, mode: Mode, pu: Option<&Pure>, sc: &mut Scratch) -> Verdict {
    let o = &OPS[cs.op];
    let w = o.w;
    let is_cmp = o.kind == Kind::Cmp;
    let quad = !has_imm(o.kind);
    let lay = cs.layout;

    // ---- addresses
    let a_addr = base.slot(lay.a, 0);
    let b_addr = base.slot(lay.b, 1);
    let c_addr = base.slot(lay.c, 2);
    let d_addr = base.dst_addr(lay.dst, w, a_addr);
    let dst_reg = cmp_dst_reg(lay.dst);

    // ---- expected image of the compared memory windows
    let swin = (base.sp - base.win_lo) as usize;
    sc.img[..swin].copy_from_slice(&base.stack0[base.win_lo as usize..]);
    sc.img[swin..].copy_from_slice(&base.heap0);

    // ---- set up the real VM
    let mut vm = base.vm.clone();
    {
        let mut put = |addr: u64, bytes: &[u8]| {
            vm.memory_mut()
                .write_noownerchecks(addr, bytes.len())
                .expect("harness write")
                .copy_from_slice(bytes);
            let i = base.img_index(addr, bytes.len());
            sc.img[i..i + bytes.len()].copy_from_slice(bytes);
        };
        put(a_addr, &cs.a.w);
        put(b_addr, &cs.b.w);
        if quad {
            put(c_addr, &cs.c.w);
        }
        if !is_cmp && matches!(lay.dst, Dst::Stack | Dst::Heap | Dst::StackTop | Dst::HeapTop) {
            // previous content of the destination
            if quad {
                put(d_addr, &[0xa5u8; 32][..w]);
            } else {
                put(d_addr, &cs.c.w);
            }
        }
    }
    {
        let r = vm.registers_mut();
        r[R_DST] = if is_cmp { 0 } else { d_addr };
        r[R_LHS] = if lhs_indirect(mode) { a_addr } else { cs.a.d };
        r[R_RHS] = if rhs_indirect(mode) { b_addr } else { cs.b.d };
        r[R_THIRD] = if quad { c_addr } else { 0 };
        if is_cmp && dst_reg >= 16 && dst_reg != R_LHS && dst_reg != R_RHS {
            r[dst_reg] = cs.c.d;
        }
        r[rid(RegId::FLAG)] = cs.flag as u64;
        r[rid(RegId::OF)] = OF_BEFORE;
        // `$err` is 0 or 1 in every reachable state: start from the value the instruction
        // must change (1 unless the reference expects `$err` = 1)
        r[rid(RegId::ERR)] = match pu {
            Some(p) if p.divzero => 0,
            _ => ERR_BEFORE,
        };
    }
    let pre = vmkit::regs(&vm);
    let ra = if is_cmp { dst_reg } else { R_DST } as u32;
    let last = if quad { R_THIRD as u32 } else { cs.imm as u32 };
    let raw = (o.byte << 24) | (ra << 18) | ((R_LHS as u32) << 12) | ((R_RHS as u32) << 6) | last;

    // ---- run
    let step = vmkit::inject_raw(&mut vm, raw);
    let post = vmkit::regs(&vm);

    // ---- expectation
    let wrapping = cs.flag & F_WRAPPING != 0;
    let unsafemath = cs.flag & F_UNSAFEMATH != 0;
    let mut ps = PanicSet {
        r: [None; 4],
        n: 0,
        cond: "plain",
    };
    if mode == Mode::Invalid {
        ps.add(PanicReason::InvalidImmediateValue, "invalid-imm");
    }
    if is_cmp {
        if dst_reg < 16 {
            ps.add(PanicReason::ReservedRegisterNotWritable, "reserved-dst");
        }
    } else if !base.owned(d_addr, w) {
        ps.add(PanicReason::MemoryOwnership, "unowned-dst");
    }
    if let Some(p) = pu {
        if p.divzero {
            if !unsafemath {
                ps.add(PanicReason::ArithmeticError, "zero-divisor");
            } else if ps.n == 0 {
                ps.cond = "zero-divisor";
            }
        }
        if p.overflow {
            if !wrapping {
                ps.add(PanicReason::ArithmeticOverflow, "overflow");
            } else if ps.n == 0 {
                ps.cond = "overflow";
            }
        }
    }
    let must_panic = ps.n > 0;
    let cond = ps.cond;
    let np = ps.n;
    let panics = ps.r;

    let key = |what: &str| -> String {
        match sub_name(mode) {
            Some(s) => format!("C22:{}:{}:{}:{}", o.name, s, cond, what),
            None => format!("C22:{}:{}:{}", o.name, cond, what),
        }
    };
    let bad = |what_key: &str, detail: String| Verdict::Bad {
        key: key(what_key),
        what: format!("{}: {}", describe(cs, mode), detail),
    };

    // ---- memory comparison helper (expected image must already be final)
    let mem_diff = |sc: &Scratch| -> Option<String> {
        let m = vm.memory();
        let (s, h) = (m.stack_raw(), m.heap_raw());
        if s.len() != base.stack0.len() || h.len() != base.heap0.len() {
            return Some(format!("buffer sizes changed: stack {} heap {}", s.len(), h.len()))
        }
        let lo = base.win_lo as usize;
        if s[..lo] != base.stack0[..lo] {
            let i = (0..lo).find(|i| s[*i] != base.stack0[*i]).unwrap();
            return Some(format!("byte at address {i} (below the window) changed"))
        }
        if s[lo..] != sc.img[..swin] {
            let i = (0..swin).find(|i| s[lo + *i] != sc.img[*i]).unwrap();
            return Some(format!(
                "stack byte at $ssp{:+} is {:#04x}, expected {:#04x}",
                (lo + i) as i64 - base.ssp as i64,
                s[lo + i],
                sc.img[i]
            ))
        }
        if h[..] != sc.img[swin..] {
            let i = (0..h.len()).find(|i| h[*i] != sc.img[swin + *i]).unwrap();
            return Some(format!(
                "heap byte at $hp{:+} is {:#04x}, expected {:#04x}",
                (base.heap_base as i64 + i as i64) - base.hp as i64,
                h[i],
                sc.img[swin + i]
            ))
        }
        None
    };

    match &step {
        Step::HostPanic(m) => return bad("host-panic", format!("the interpreter unwound: {m}")),
        Step::Proceed | Step::Panic(_) => {}
        other => return bad("outcome", format!("unexpected step result {other:?}")),
    }

    if let Step::Panic(r) = step {
        if !must_panic {
            // tied don't-care: SHL with bits shifted out may count as overflow
            let open = pu.map(|p| p.of_open).unwrap_or(false);
            if open && !wrapping && r == PanicReason::ArithmeticOverflow {
                if let Some(d) = mem_diff(sc) {
                    return bad("memory", format!("panic {r:?} but memory changed: {d}"))
                }
                return Verdict::Good {
                    class: Class::DontCare,
                    nontrivial: false,
                }
            }
            return bad("outcome", format!("panicked with {r:?}, expected success"))
        }
        if !panics[..np].contains(&Some(r)) {
            return bad(
                "outcome",
                format!("panicked with {r:?}, expected one of {:?}", panics[..np].iter().flatten().collect::<Vec<_>>()),
            )
        }
        if let Some(d) = mem_diff(sc) {
            return bad("memory", format!("panic {r:?} but memory changed: {d}"))
        }
        let class = match r {
            PanicReason::InvalidImmediateValue => Class::PInvalidImm,
            PanicReason::ArithmeticOverflow => Class::POverflow,
            PanicReason::ArithmeticError => Class::PArith,
            PanicReason::MemoryOwnership => Class::POwnership,
            _ => Class::PReserved,
        };
        return Verdict::Good {
            class,
            nontrivial: false,
        }
    }

    // ---- Proceed
    if must_panic {
        return bad(
            "outcome",
            format!(
                "executed without panic, expected a panic with one of {:?}",
                panics[..np].iter().flatten().collect::<Vec<_>>()
            ),
        )
    }
    let p = pu.expect("valid mode has a reference result");
    let (of, err, pc) = (post[rid(RegId::OF)], post[rid(RegId::ERR)], post[rid(RegId::PC)]);
    // result
    if is_cmp {
        let want = p.value.to_u64().expect("compare result fits a word");
        if post[dst_reg] != want {
            return bad("result", format!("destination register r{dst_reg} = {}, expected {want}", post[dst_reg]))
        }
    } else {
        let want = p.value.to_be(w);
        let got = vm.memory().read(d_addr, w).map(|s| s.to_vec());
        if got.as_deref() != Ok(&want[..]) {
            return bad(
                "result",
                format!(
                    "destination memory = {}, expected {}",
                    got.map(|g| hex::encode(g)).unwrap_or_else(|e| format!("{e:?}")),
                    hex::encode(&want)
                ),
            )
        }
        let i = base.img_index(d_addr, w);
        sc.img[i..i + w].copy_from_slice(&want);
    }
    // $of
    let want_of = p.overflow as u64;
    let mut dontcare = false;
    if p.of_open {
        dontcare = true;
        if !(of == 0 || (of == 1 && wrapping)) {
            return bad("of", format!("$of = {of} after SHL with bits shifted out (0, or 1 with F_WRAPPING, acceptable)"))
        }
    } else if of != want_of {
        return bad("of", format!("$of = {of}, expected {want_of}"))
    }
    let want_err = p.divzero as u64;
    if err != want_err {
        return bad("err", format!("$err = {err}, expected {want_err}"))
    }
    if pc != pre[rid(RegId::PC)] + 4 {
        return bad("pc", format!("$pc = {pc}, expected {}", pre[rid(RegId::PC)] + 4))
    }
    for i in 0..64 {
        if i == rid(RegId::OF)
            || i == rid(RegId::ERR)
            || i == rid(RegId::PC)
            || i == rid(RegId::GGAS)
            || i == rid(RegId::CGAS)
            || (is_cmp && i == dst_reg)
        {
            continue
        }
        if post[i] != pre[i] {
            return bad("regs", format!("register {i} changed from {} to {}", pre[i], post[i]))
        }
    }
    if let Some(d) = mem_diff(sc) {
        return bad("memory", d)
    }
    let class = if dontcare {
        Class::DontCare
    } else if err == 1 {
        Class::OkErr
    } else if of == 1 {
        Class::OkOf
    } else {
        Class::Ok
    };
    Verdict::Good {
        class,
        nontrivial: !dontcare,
    }
}

/// Which (opcode kind, encoding, flag, outcome) combinations are written out as samples.
fn sample_wanted(kind: Kind, imm: u8, flag: u8, class: Class, ib: usize, ic: usize) -> bool {
    match kind {
        Kind::Cmp => imm == 0x26 && class == Class::Ok,
        Kind::Op => imm == 0x21 && flag == 2 && class == Class::OkOf && ib >= 4,
        Kind::Mul => imm == 0x30 && flag == 0 && class == Class::POverflow && ib >= 4,
        Kind::Div => imm == 0x20 && flag == 1 && class == Class::OkErr,
        Kind::MulDiv => flag == 2 && class == Class::OkOf && ib >= 4 && ic >= 1,
        Kind::AddMod => flag == 0 && class == Class::Ok && ib >= 4 && ic >= 4,
        Kind::MulMod => flag == 0 && class == Class::POwnership && ib >= 4 && ic >= 4,
    }
}

fn pure_for(cs: &CaseRef, mode: Mode) -> Option<Pure> {
    let o = &OPS[cs.op];
    let (a, b, c) = effective(cs, mode);
    pure(mode, o.kind, o.w, a, b, c)
}

fn case_json(cs: &CaseRef) -> Value {
    let opd = |o: &Opd| json!({"w": hex::encode(&o.w), "d": o.d});
    json!({
        "op": OPS[cs.op].name,
        "imm": cs.imm,
        "flag": cs.flag,
        "layout": cs.layout,
        "a": opd(cs.a),
        "b": opd(cs.b),
        "c": opd(cs.c),
    })
}

// ------------------------------------------------------------------ exploration

#[derive(Default)]
struct Acc {
    classes: Vec<[u64; NCLASS]>,
    fps: HashSet<u64>,
    viols: BTreeMap<String, (String, Value, u64)>,
    samples: Vec<(usize, usize, Value)>,
    cases: u64,
    skipped_items: u64,
}

fn explore(ctx: &Ctx) {
    ctx.rule(
        "full product opcode × operand index triple × imm06 (0..63; rd fixed for 4-register opcodes) × $flag (0..3) × layout; \
         every case = clone of one prepared VM + one injected raw instruction word, compared with a big-integer reference. \
         Non-trivial = the instruction executed without panic and the oracle pins every observed quantity; \
         distinct = distinct (opcode, decoded mode, effective operands, $flag) among those",
    );
    ctx.assume("the harness big-integer reference (vcore::oracle::Big, schoolbook) is correct");
    ctx.assume(
        "script context without call frames: owned memory = [$ssp,$sp) ∪ [$hp,VM_MAX_RAM); gas is ample (no OutOfGas)",
    );
    ctx.assume("wide-integer semantics as documented in fuel-asm (args/wideint.rs, instruction table) and the Fuel instruction-set specification");
    ctx.set(
        "dont_care",
        json!([
            "which PanicReason is reported when several panic conditions hold (any applicable one is accepted)",
            "register contents ($of, $err, $pc, …) after a panic",
            "$of of WDOP/WQOP SHL when non-zero bits are shifted out, and (tied to it) ArithmeticOverflow without F_WRAPPING in that case; result bytes are still checked",
            "WDOP/WQOP NOT and WDCM/WQCM LZC with an invalid indirect right-hand pointer (not in the space: every pointer used is readable)",
            "$cgas/$ggas (gas is C26's subject)"
        ]),
    );

    let base = Base::new();
    let n = ctx.pick(12usize, 20usize);
    let lays = layouts(ctx.thorough());
    let full_invalid = ctx.thorough();
    let lays_invalid = layouts(false);
    let alpha_d = alphabet(16, n);
    let alpha_q = alphabet(32, n);
    let n3 = (n * n * n) as u64;
    let total = OPS.len() as u64 * n3;

    ctx.set(
        "space",
        json!({
            "opcodes": OPS.iter().map(|o| o.name).collect::<Vec<_>>(),
            "operand_indices_per_position": n,
            "W_128": alpha_d.iter().map(|o| hex::encode(&o.w)).collect::<Vec<_>>(),
            "W_256": alpha_q.iter().map(|o| hex::encode(&o.w)).collect::<Vec<_>>(),
            "DIRECT": alpha_d.iter().map(|o| o.d.to_string()).collect::<Vec<_>>(),
            "imm06": "0..=63 for WxCM WxOP WxML WxDV; rd=r19 for WxMD WxAM WxMM",
            "flags": [0, 1, 2, 3],
            "layouts": lays,
            "prepared_vm": {"ssp": base.ssp, "sp": base.sp, "hp": base.hp, "grown_by": "CFEI 256 / ALOC 256"},
            "of_err_before": {"of": OF_BEFORE, "err": "1, or 0 when the reference expects $err = 1"},
        }),
    );

    let mut tot_classes = vec![[0u64; NCLASS]; OPS.len()];
    let mut tot_cases = 0u64;
    let mut skipped = 0u64;
    let mut sampled_ops: HashSet<(usize, usize)> = HashSet::new();

    space::par_chunks(
        total,
        16,
        || Acc {
            classes: vec![[0u64; NCLASS]; OPS.len()],
            ..Default::default()
        },
        |idx, acc| {
            if ctx.out_of_time() {
                acc.skipped_items += 1;
                return
            }
            let opi = (idx / n3) as usize;
            let t = idx % n3;
            let (ia, ib, ic) = (
                (t / (n * n) as u64) as usize,
                ((t / n as u64) % n as u64) as usize,
                (t % n as u64) as usize,
            );
            let o = &OPS[opi];
            let al = if o.w == 16 { &alpha_d } else { &alpha_q };
            let mut sc = Scratch {
                img: vec![0u8; base.img_len()],
            };
            let mut cache: Vec<(Mode, Option<Pure>)> = Vec::with_capacity(16);
            let imms: std::ops::Range<u8> = if has_imm(o.kind) { 0..64 } else { 0..1 };
            for imm in imms {
                let mode = decode(o.kind, imm);
                if mode == Mode::Invalid && !full_invalid && ic != 0 {
                    // quick tier: invalid encodings are run for every (ia, ib) but only ic = 0
                    continue
                }
                // invalid encodings: only the representative layouts (they are a prefix-free
                // subset of the full product, see `layouts`)
                let lays: &[Layout] = if mode == Mode::Invalid { &lays_invalid } else { &lays };
                for flag in 0..4u8 {
                    let mut fp_done = false;
                    for (li, lay) in lays.iter().enumerate() {
                        let cs = CaseRef {
                            op: opi,
                            imm,
                            flag,
                            layout: *lay,
                            a: &al[ia],
                            b: &al[ib],
                            c: &al[ic],
                        };
                        let pos = match cache.iter().position(|(m, _)| *m == mode) {
                            Some(p) => p,
                            None => {
                                cache.push((mode, pure_for(&cs, mode)));
                                cache.len() - 1
                            }
                        };
                        let v = check_with(&base, &cs, mode, cache[pos].1.as_ref(), &mut sc);
                        acc.cases += 1;
                        match v {
                            Verdict::Good {
                                class,
                                nontrivial,
                            } => {
                                acc.classes[opi][class as usize] += 1;
                                if nontrivial && !fp_done {
                                    fp_done = true;
                                    let (a, b, c) = effective(&cs, mode);
                                    let cc = if has_imm(o.kind) { None } else { Some(c) };
                                    acc.fps.insert(hash64(&(opi, mode, flag, a, b, cc)));
                                }
                                // a few written-out real cases (deterministic choice)
                                if acc.samples.len() < 4
                                    && o.w == 32
                                    && li >= 2
                                    && ia >= 4
                                    && ia != ib
                                    && sample_wanted(o.kind, imm, flag, class, ib, ic)
                                    && !acc.samples.iter().any(|(o2, c2, _)| *o2 == opi && *c2 == class as usize)
                                {
                                    let mut j = case_json(&cs);
                                    j["decoded"] = json!(format!("{mode:?}"));
                                    j["observed_and_expected"] = match cache[pos].1.as_ref() {
                                        Some(p) if (class as usize) < 3 => json!({
                                            "result": hex::encode(p.value.to_be(if o.kind == Kind::Cmp { 8 } else { o.w })),
                                            "of": p.overflow as u64,
                                            "err": p.divzero as u64,
                                            "class": CLASS_NAMES[class as usize],
                                        }),
                                        _ => json!({"class": CLASS_NAMES[class as usize], "memory": "unchanged"}),
                                    };
                                    acc.samples.push((opi, class as usize, j));
                                }
                            }
                            Verdict::Bad {
                                key,
                                what,
                            } => {
                                let e = acc.viols.entry(key).or_insert_with(|| (what, case_json(&cs), 0));
                                e.2 += 1;
                            }
                        }
                    }
                }
            }
        },
        |acc| {
            for (i, c) in acc.classes.iter().enumerate() {
                for k in 0..NCLASS {
                    tot_classes[i][k] += c[k];
                }
            }
            tot_cases += acc.cases;
            skipped += acc.skipped_items;
            ctx.fps_merge(acc.fps);
            for (key, (what, case, count)) in acc.viols {
                for _ in 0..count.min(10_000) {
                    ctx.violation(key.clone(), what.clone(), case.clone());
                }
            }
            for (opi, class, s) in acc.samples {
                if ctx.want_sample() && sampled_ops.insert((opi, class)) {
                    ctx.sample(s);
                }
            }
        },
    );

    ctx.evals(tot_cases);
    if skipped > 0 {
        ctx.cap(format!(
            "time budget reached: {skipped} of {total} (opcode, operand triple) items not run"
        ));
    }
    let mut per_op = serde_json::Map::new();
    for (i, o) in OPS.iter().enumerate() {
        let mut m = serde_json::Map::new();
        for k in 0..NCLASS {
            if tot_classes[i][k] > 0 {
                m.insert(CLASS_NAMES[k].into(), json!(tot_classes[i][k]));
                ctx.outcome(CLASS_NAMES[k], tot_classes[i][k]);
            }
        }
        per_op.insert(o.name.into(), Value::Object(m));
    }
    ctx.set("per_opcode_outcomes", Value::Object(per_op));
    ctx.set(
        "bounds",
        json!({
            "operand_triples_per_opcode": n3,
            "layouts_valid_encodings": lays.len(),
            "layouts_invalid_encodings": lays_invalid.len(),
            "invalid_encodings_operands": if full_invalid { "all (ia, ib, ic)" } else { "all (ia, ib), ic = 0" },
            "cases": tot_cases,
            "items_skipped": skipped
        }),
    );
}

// ------------------------------------------------------------------ replay

fn replay(case: &Value, ctx: &Ctx) {
    let base = Base::new();
    let name = case["op"].as_str().expect("op");
    let opi = OPS.iter().position(|o| o.name == name).expect("known opcode");
    let o = &OPS[opi];
    let rd = |v: &Value| -> Opd {
        let bytes = hex::decode(v["w"].as_str().expect("w")).expect("hex");
        assert_eq!(bytes.len(), o.w);
        opd(&Big::from_be(&bytes), v["d"].as_u64().expect("d"), o.w)
    };
    let (a, b, c) = (rd(&case["a"]), rd(&case["b"]), rd(&case["c"]));
    let layout: Layout = serde_json::from_value(case["layout"].clone()).expect("layout");
    let cs = CaseRef {
        op: opi,
        imm: case["imm"].as_u64().expect("imm") as u8,
        flag: case["flag"].as_u64().expect("flag") as u8,
        layout,
        a: &a,
        b: &b,
        c: &c,
    };
    let mode = decode(o.kind, cs.imm);
    let pu = pure_for(&cs, mode);
    let mut sc = Scratch {
        img: vec![0u8; base.img_len()],
    };
    ctx.evals(1);
    if let Verdict::Bad {
        key,
        what,
    } = check_with(&base, &cs, mode, pu.as_ref(), &mut sc)
    {
        ctx.violation(key, what, case_json(&cs));
    }
}

fn main() {
    run_check("C22", Level::Exploration, explore, replay)
}
