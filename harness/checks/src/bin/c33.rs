//! C33 — Contract storage instructions behave like a key-value map.
//!
//! Explicit-state model check (a `vcore::bfs::Model`). Every transition executes ONE real
//! instruction with `Interpreter::instruction` (vmkit::inject) on a real interpreter
//! that is paused INSIDE a contract's call frame, over a real `MemoryStorage`.
//!
//! Set-up (all through the public API): two contracts X and Y (code `ret $one`) are
//! deployed into a `MemoryStorage` and committed; one script transaction with contract
//! inputs/outputs for X and Y performs N_CALLS = 8 calls X,Y,X,Y,… ; the VM is stepped
//! until `$fp != 0` (inside X), 512 bytes of stack are reserved there (`cfei`) and the
//! four keys and two source patterns are written into that frame. Consensus parameters
//! = `standard()` with `max_storage_slot_length = 33` (so "accept 33, refuse 34" is
//! inside the scope) and the default (V7) gas costs (hot read 10, cold read 100).
//!
//! State  = (real VM, reference map `BTreeMap<(contract, key32), Vec<u8>>`, reference map
//!           as of the last commit, active contract). The VM of a state is re-derived by
//!           replaying the state's action path from the prepared base VM (deterministic;
//!           kept per worker thread while the state's successors are generated), so the
//!           frontier only stores the reference data.
//! Actions (alphabet, simplest first; k ranges over the 4 keys
//!          {K, K+1, 2^256−2, 2^256−1} with K = 0x11…11FF so that K+1 carries):
//!   SRW(k, word ∈ {0,3,4}), SWW(k), SRWQ(k, n ∈ {1,2}), SWWQ(k, n ∈ {1,2}),
//!   SCWQ(k, n ∈ {0,1,2,3}), SCLR(k, n ∈ {0,1,2,3}), SWRD/SWRI(k, len ∈ {0,1,32,33,34}),
//!   SRDD/SRDI(k, (off,len) ∈ READ_PAIRS), SUPD/SUPI(k, (off,len) ∈ UPD_PAIRS,
//!   off = u64::MAX = append), SPLD(k), Switch (RET from the active contract, run the
//!   script up to inside the next contract: X→Y→X…), EndTx(commit) (return, run the
//!   script to its end, `MemoryStorage::commit`, `init_script` of the same transaction
//!   again, enter X) and EndTx(revert) (RVRT inside the contract,
//!   `MemoryStorage::revert`, new transaction, enter X) — the last two mirror what
//!   `MemoryClient::transact` does around a transaction.
//! Oracle (independent key-value reference written from DESIGN.md Appendix E), after
//!   every action: status/result registers, `$err` (SRDD/SRDI/SPLD), the destination
//!   bytes (exactly `len` bytes written, guard bytes untouched) equal the reference;
//!   the complete persistent contract state of the storage (X and Y, all keys) equals
//!   the reference map; panics exactly when the reference says so (any applicable
//!   reason accepted); a twin VM whose slot cache was cleared just before the action
//!   gives the same step result, the same registers except `$ggas/$cgas`, the same
//!   memory and the same persistent state.
//!   The twin is taken per transition (clone, clear cache, same action). By induction
//!   this is the same as a second VM that runs alongside with its cache cleared before
//!   every action: as long as no disagreement was reported both have identical storage,
//!   registers (except gas) and memory, and a disagreement is reported at its first step.
//! After a panic the transaction is over (the real VM reverts it): no successor.
//! Merging key = 128-bit fingerprint of (reference map, committed reference map,
//!   actual slot-cache contents of the VM, active contract). Excluded on purpose:
//!   * gas registers — every transaction starts with 50,000,000 gas, one action costs
//!     < 2,000, depth ≤ 6, so no future depends on them (checked: no OutOfGas outcome);
//!   * `$pc` (injected instructions do not fetch), receipts, number of calls used (the
//!     script has 8 calls, at most depth+1 ≤ 7 are ever used);
//!   * argument registers, `$err` and the destination buffer are re-initialised by the
//!     harness before every action.
//! Bounds: quick = full alphabet (335 actions) to depth 3; thorough = reduced alphabet
//!   (`reduced_alphabet`, listed in the evidence) to depth 6, then the full alphabet to
//!   depth 5 (time-capped inside the last level if the budget runs out; reported).
//! Engine: `lean_bfs` below (same `Model` contract as vcore::bfs::bfs, which is used for
//!   replay via `bfs::replay_path`); see its comment for why.

use fuel_asm::{
    op,
    GTFArgs,
    Instruction,
    PanicReason,
    RegId,
};
use fuel_tx::{
    ConsensusParameters,
    Input,
    Output,
    Script,
    ScriptParameters,
    TxPointer,
    UtxoId,
};
use fuel_types::{
    Bytes32,
    ContractId,
};
use fuel_vm::{
    checked_transaction::Ready,
    storage::{
        InterpreterStorage,
        MemoryStorage,
    },
};
use serde::{
    Deserialize,
    Serialize,
};
use rayon::prelude::*;
use std::{
    cell::RefCell,
    collections::{
        BTreeMap,
        HashSet,
    },
    sync::{
        atomic::{
            AtomicU64,
            Ordering,
        },
        Mutex,
    },
};
use vcore::{
    bfs::{
        self,
        Model,
    },
    json,
    run::hash64,
    run_check,
    vmkit::*,
    Ctx,
    Level,
    Value,
};

// ------------------------------------------------------------------ constants

const MAXLEN: u64 = 33;
const N_CALLS: usize = 8;
const GAS: u64 = 50_000_000;
const FRAME: u32 = 512;
const OFF_KEYS: u64 = 0;
const OFF_SRC: u64 = 128; // 96 bytes 0x40+i  (SWWQ / SWRD / SWRI source)
const OFF_SRC2: u64 = 224; // 64 bytes 0xC0+i (SUPD / SUPI source)
const OFF_DST: u64 = 320; // 128 bytes, 0xEE before every action
const DST_LEN: usize = 128;
const SENT: u8 = 0xEE;
const SWW_WORD: u64 = 0x0102_0304_0506_0708;
const REG_SENT: u64 = 0xDEAD_BEEF_0000_0001;
const ERR_SENT: u64 = 7;

const R_KEY: u8 = 0x10;
const R_STATUS: u8 = 0x11;
const R_VAL: u8 = 0x12;
const R_N: u8 = 0x13;
const R_SRC: u8 = 0x14;
const R_DST: u8 = 0x15;
const R_OFF: u8 = 0x16;
const R_LEN: u8 = 0x17;

type Key32 = [u8; 32];
type RefMap = BTreeMap<(u8, Key32), Vec<u8>>;
type Cache = BTreeMap<(ContractId, Bytes32), Option<Vec<u8>>>;

fn keys() -> [Key32; 4] {
    let mut k0 = [0x11u8; 32];
    k0[31] = 0xFF;
    let mut k1 = [0x11u8; 32];
    k1[30] = 0x12;
    k1[31] = 0x00;
    let mut k2 = [0xFFu8; 32];
    k2[31] = 0xFE;
    let k3 = [0xFFu8; 32];
    [k0, k1, k2, k3]
}

fn cid(i: u8) -> ContractId {
    ContractId::from([if i == 0 { 0xA1 } else { 0xB2 }; 32])
}

fn src_bytes(n: usize) -> Vec<u8> {
    (0..n).map(|i| 0x40 + i as u8).collect()
}

fn src2_bytes(n: usize) -> Vec<u8> {
    (0..n).map(|i| 0xC0u8.wrapping_add(i as u8)).collect()
}

/// (offset, len) pairs for SRDD/SRDI. Offsets stay below 2^32: the VM refuses larger
/// offsets/lengths with `MemoryOverflow` before looking at the slot (not addressable in
/// VM memory), which Appendix E does not cover — outside the scope, see `dont_care`.
const READ_PAIRS: &[(u64, u8)] = &[
    (0, 0),
    (0, 1),
    (0, 32),
    (0, 33),
    (0, 34),
    (1, 0),
    (1, 32),
    (1, 33),
    (32, 1),
    (33, 0),
    (34, 0),
    (u32::MAX as u64, 1),
];

/// (offset, len) pairs for SUPD/SUPI; offset u64::MAX = append.
const UPD_PAIRS: &[(u64, u8)] = &[
    (0, 0),
    (0, 1),
    (0, 33),
    (0, 34),
    (1, 1),
    (1, 32),
    (1, 33),
    (2, 0),
    (32, 1),
    (32, 2),
    (33, 0),
    (33, 1),
    (34, 0),
    (u64::MAX, 0),
    (u64::MAX, 1),
    (u64::MAX, 33),
];

// ------------------------------------------------------------------ actions

#[derive(Debug, Clone, Copy, PartialEq, Eq, Hash, Serialize, Deserialize)]
enum Act {
    Srw { k: u8, w: u8 },
    Sww { k: u8 },
    Srwq { k: u8, n: u8 },
    Swwq { k: u8, n: u8 },
    Scwq { k: u8, n: u8 },
    Sclr { k: u8, n: u8 },
    Swrd { k: u8, len: u8 },
    Swri { k: u8, len: u8 },
    Srdd { k: u8, off: u64, len: u8 },
    Srdi { k: u8, off: u64, len: u8 },
    Supd { k: u8, off: u64, len: u8 },
    Supi { k: u8, off: u64, len: u8 },
    Spld { k: u8 },
    Switch,
    EndTx { commit: bool },
}

const KINDS: &[&str] = &[
    "SRW", "SWW", "SRWQ", "SWWQ", "SCWQ", "SCLR", "SWRD", "SWRI", "SRDD", "SRDI", "SUPD", "SUPI",
    "SPLD", "Switch", "EndTx",
];

impl Act {
    fn kind(&self) -> usize {
        match self {
            Act::Srw { .. } => 0,
            Act::Sww { .. } => 1,
            Act::Srwq { .. } => 2,
            Act::Swwq { .. } => 3,
            Act::Scwq { .. } => 4,
            Act::Sclr { .. } => 5,
            Act::Swrd { .. } => 6,
            Act::Swri { .. } => 7,
            Act::Srdd { .. } => 8,
            Act::Srdi { .. } => 9,
            Act::Supd { .. } => 10,
            Act::Supi { .. } => 11,
            Act::Spld { .. } => 12,
            Act::Switch => 13,
            Act::EndTx { .. } => 14,
        }
    }

    fn name(&self) -> &'static str {
        KINDS[self.kind()]
    }
}

fn full_alphabet() -> Vec<Act> {
    let mut v = Vec::new();
    let ks = [0u8, 1, 2, 3];
    for k in ks {
        v.push(Act::Sww { k });
    }
    for k in ks {
        for w in [0u8, 3, 4] {
            v.push(Act::Srw { k, w });
        }
    }
    for k in ks {
        v.push(Act::Spld { k });
    }
    for k in ks {
        for len in [0u8, 1, 32, 33, 34] {
            v.push(Act::Swrd { k, len });
        }
    }
    for k in ks {
        for &(off, len) in READ_PAIRS {
            v.push(Act::Srdd { k, off, len });
        }
    }
    for k in ks {
        for n in [0u8, 1, 2, 3] {
            v.push(Act::Sclr { k, n });
        }
    }
    for k in ks {
        for n in [0u8, 1, 2, 3] {
            v.push(Act::Scwq { k, n });
        }
    }
    for k in ks {
        for n in [1u8, 2] {
            v.push(Act::Swwq { k, n });
        }
    }
    for k in ks {
        for n in [1u8, 2] {
            v.push(Act::Srwq { k, n });
        }
    }
    for k in ks {
        for &(off, len) in UPD_PAIRS {
            v.push(Act::Supd { k, off, len });
        }
    }
    v.push(Act::Switch);
    v.push(Act::EndTx { commit: true });
    v.push(Act::EndTx { commit: false });
    for k in ks {
        for len in [0u8, 1, 32, 33, 34] {
            v.push(Act::Swri { k, len });
        }
    }
    for k in ks {
        for &(off, len) in READ_PAIRS {
            v.push(Act::Srdi { k, off, len });
        }
    }
    for k in ks {
        for &(off, len) in UPD_PAIRS {
            v.push(Act::Supi { k, off, len });
        }
    }
    v
}

/// Reduced alphabet for the depth-5 pass: keys {K, K+1, 2^256−1}, register forms
/// only, one parameter choice per behaviour class.
fn reduced_alphabet() -> Vec<Act> {
    let mut v = Vec::new();
    let ks = [0u8, 1, 3];
    for k in ks {
        v.push(Act::Sww { k });
        v.push(Act::Srw { k, w: 3 });
        v.push(Act::Spld { k });
        v.push(Act::Swrd { k, len: 0 });
        v.push(Act::Swrd { k, len: 33 });
        v.push(Act::Srdd { k, off: 0, len: 1 });
        v.push(Act::Srdd { k, off: 1, len: 32 });
        v.push(Act::Sclr { k, n: 1 });
        v.push(Act::Supd { k, off: u64::MAX, len: 1 });
        v.push(Act::Supd { k, off: 1, len: 32 });
    }
    for k in [0u8, 3] {
        v.push(Act::Sclr { k, n: 2 });
        v.push(Act::Scwq { k, n: 2 });
        v.push(Act::Swwq { k, n: 2 });
        v.push(Act::Srwq { k, n: 2 });
    }
    v.push(Act::Scwq { k: 1, n: 1 });
    v.push(Act::Srwq { k: 1, n: 1 });
    v.push(Act::Switch);
    v.push(Act::EndTx { commit: true });
    v.push(Act::EndTx { commit: false });
    v
}

// ------------------------------------------------------------------ reference (oracle)

/// k + i in 256-bit big-endian arithmetic, None on overflow.
fn key_add(k: &Key32, i: u64) -> Option<Key32> {
    let mut out = *k;
    let add = i.to_be_bytes();
    let mut carry = 0u16;
    for pos in 0..32 {
        let idx = 31 - pos;
        let a = if pos < 8 { add[7 - pos] as u16 } else { 0 };
        let s = out[idx] as u16 + a + carry;
        out[idx] = (s & 0xFF) as u8;
        carry = s >> 8;
    }
    if carry != 0 {
        None
    } else {
        Some(out)
    }
}

#[derive(Debug, Default)]
struct ExpOk {
    status: Option<u64>,
    value: Option<u64>,
    err: Option<u64>,
    /// expected prefix of the destination buffer; everything after it keeps the guard byte
    dst: Vec<u8>,
}

#[derive(Debug)]
enum Exp {
    Ok(ExpOk),
    Panic(Vec<PanicReason>),
}

/// The plain key-value reference (DESIGN.md Appendix E). Mutates `m` only when the
/// instruction is expected to succeed.
fn reference(m: &mut RefMap, c: u8, a: &Act) -> Exp {
    let ks = keys();
    let range = |k: &Key32, n: u8| -> Result<Vec<Key32>, ()> {
        let mut v = Vec::new();
        for i in 0..n as u64 {
            match key_add(k, i) {
                Some(kk) => v.push(kk),
                None => return Err(()),
            }
        }
        Ok(v)
    };
    match *a {
        Act::Sww { k } => {
            let key = ks[k as usize];
            let was_unset = !m.contains_key(&(c, key));
            let mut v = vec![0u8; 32];
            v[..8].copy_from_slice(&SWW_WORD.to_be_bytes());
            m.insert((c, key), v);
            Exp::Ok(ExpOk {
                status: Some(was_unset as u64),
                ..Default::default()
            })
        }
        Act::Srw { k, w } => {
            let key = ks[k as usize];
            match m.get(&(c, key)) {
                None => Exp::Ok(ExpOk {
                    status: Some(0),
                    value: Some(0),
                    ..Default::default()
                }),
                Some(v) => {
                    let s = w as usize * 8;
                    if v.len() < s + 8 {
                        Exp::Panic(vec![PanicReason::StorageOutOfBounds])
                    } else {
                        let mut b = [0u8; 8];
                        b.copy_from_slice(&v[s..s + 8]);
                        Exp::Ok(ExpOk {
                            status: Some(1),
                            value: Some(u64::from_be_bytes(b)),
                            ..Default::default()
                        })
                    }
                }
            }
        }
        Act::Swwq { k, n } => {
            let Ok(r) = range(&ks[k as usize], n) else {
                return Exp::Panic(vec![PanicReason::TooManySlots])
            };
            let src = src_bytes(32 * n as usize);
            let mut unset = 0u64;
            for (i, kk) in r.iter().enumerate() {
                if !m.contains_key(&(c, *kk)) {
                    unset += 1;
                }
                m.insert((c, *kk), src[32 * i..32 * i + 32].to_vec());
            }
            Exp::Ok(ExpOk {
                status: Some(unset),
                ..Default::default()
            })
        }
        Act::Srwq { k, n } => {
            let mut reasons = Vec::new();
            let mut in_range = Vec::new();
            for i in 0..n as u64 {
                match key_add(&ks[k as usize], i) {
                    Some(kk) => in_range.push(kk),
                    None => {
                        reasons.push(PanicReason::TooManySlots);
                        break
                    }
                }
            }
            if in_range
                .iter()
                .any(|kk| m.get(&(c, *kk)).map(|v| v.len() != 32).unwrap_or(false))
            {
                reasons.push(PanicReason::StorageOutOfBounds);
            }
            if !reasons.is_empty() {
                return Exp::Panic(reasons)
            }
            let mut all = true;
            let mut dst = Vec::new();
            for kk in &in_range {
                match m.get(&(c, *kk)) {
                    Some(v) => dst.extend_from_slice(v),
                    None => {
                        all = false;
                        dst.extend_from_slice(&[0u8; 32]);
                    }
                }
            }
            Exp::Ok(ExpOk {
                status: Some(all as u64),
                dst,
                ..Default::default()
            })
        }
        Act::Scwq { k, n } | Act::Sclr { k, n } => {
            let Ok(r) = range(&ks[k as usize], n) else {
                return Exp::Panic(vec![PanicReason::TooManySlots])
            };
            let all = r.iter().all(|kk| m.contains_key(&(c, *kk)));
            for kk in &r {
                m.remove(&(c, *kk));
            }
            Exp::Ok(ExpOk {
                status: if matches!(a, Act::Scwq { .. }) {
                    Some(all as u64)
                } else {
                    None
                },
                ..Default::default()
            })
        }
        Act::Swrd { k, len } | Act::Swri { k, len } => {
            if len as u64 > MAXLEN {
                return Exp::Panic(vec![PanicReason::StorageOutOfBounds])
            }
            m.insert((c, ks[k as usize]), src_bytes(len as usize));
            Exp::Ok(ExpOk::default())
        }
        Act::Srdd { k, off, len } | Act::Srdi { k, off, len } => match m.get(&(c, ks[k as usize])) {
            None => Exp::Ok(ExpOk {
                err: Some(1),
                ..Default::default()
            }),
            Some(v) => {
                if off as u128 + len as u128 > v.len() as u128 {
                    Exp::Panic(vec![PanicReason::StorageOutOfBounds])
                } else {
                    let o = off as usize;
                    Exp::Ok(ExpOk {
                        err: Some(0),
                        dst: v[o..o + len as usize].to_vec(),
                        ..Default::default()
                    })
                }
            }
        },
        Act::Supd { k, off, len } | Act::Supi { k, off, len } => {
            let key = ks[k as usize];
            let mut v = m.get(&(c, key)).cloned().unwrap_or_default();
            let o = if off == u64::MAX { v.len() as u128 } else { off as u128 };
            if o > v.len() as u128 || o + len as u128 > MAXLEN as u128 {
                return Exp::Panic(vec![PanicReason::StorageOutOfBounds])
            }
            let o = o as usize;
            let end = o + len as usize;
            if end > v.len() {
                v.resize(end, 0);
            }
            v[o..end].copy_from_slice(&src2_bytes(len as usize));
            m.insert((c, key), v);
            Exp::Ok(ExpOk::default())
        }
        Act::Spld { k } => match m.get(&(c, ks[k as usize])) {
            Some(v) => Exp::Ok(ExpOk {
                value: Some(v.len() as u64),
                err: Some(0),
                ..Default::default()
            }),
            None => Exp::Ok(ExpOk {
                value: Some(0),
                err: Some(1),
                ..Default::default()
            }),
        },
        Act::Switch | Act::EndTx { .. } => Exp::Ok(ExpOk::default()),
    }
}

// ------------------------------------------------------------------ driving the real VM

struct Obs {
    step: Step,
    regs: [u64; REGS],
    dst: Vec<u8>,
    /// the harness-side procedure (switch / end of transaction) could not be completed
    driver: Option<String>,
}

fn params() -> ConsensusParameters {
    let mut p = ConsensusParameters::standard();
    p.set_script_params(ScriptParameters::DEFAULT.with_max_storage_slot_length(MAXLEN));
    p
}

fn build_ready(p: &ConsensusParameters) -> Ready<Script> {
    let mut script: Vec<Instruction> = vec![op::gtf_args(0x10, RegId::ZERO, GTFArgs::ScriptData)];
    let mut data = Vec::new();
    for i in 0..N_CALLS {
        script.push(op::addi(0x11, 0x10, (i * 48) as u16));
        script.push(op::call(0x11, RegId::ZERO, 0x11, RegId::CGAS));
        data.extend_from_slice(cid((i % 2) as u8).as_ref());
        data.extend_from_slice(&0u64.to_be_bytes());
        data.extend_from_slice(&0u64.to_be_bytes());
    }
    script.push(op::ret(RegId::ONE));
    let bytes: Vec<u8> = script.into_iter().collect();
    ready_script(bytes, data, GAS, p, |b| {
        // the fee input is input 0
        for i in 0..2u8 {
            b.add_input(Input::contract(
                UtxoId::new([0x30 + i; 32].into(), 0),
                Bytes32::zeroed(),
                Bytes32::zeroed(),
                TxPointer::default(),
                cid(i),
            ));
            b.add_output(Output::contract(1 + i as u16, Bytes32::zeroed(), Bytes32::zeroed()));
        }
    })
}

/// Run the script until the VM is inside the next contract, reserve the frame and
/// write keys and source patterns into it.
fn enter(vm: &mut Vm) -> Result<(), String> {
    let mut n = 0;
    while reg(vm, RegId::FP) == 0 {
        let s = step(vm);
        if s != Step::Proceed {
            return Err(format!("script step before call: {s:?}"))
        }
        n += 1;
        if n > 8 {
            return Err("no contract entered within 8 script steps".into())
        }
    }
    let s = inject(vm, op::cfei(FRAME));
    if s != Step::Proceed {
        return Err(format!("cfei in contract: {s:?}"))
    }
    let base = reg(vm, RegId::SSP);
    let mem = vm.memory_mut();
    for (i, k) in keys().iter().enumerate() {
        mem.write_noownerchecks(base + OFF_KEYS + 32 * i as u64, 32usize)
            .map_err(|e| format!("{e:?}"))?
            .copy_from_slice(k);
    }
    mem.write_noownerchecks(base + OFF_SRC, 96usize)
        .map_err(|e| format!("{e:?}"))?
        .copy_from_slice(&src_bytes(96));
    mem.write_noownerchecks(base + OFF_SRC2, 64usize)
        .map_err(|e| format!("{e:?}"))?
        .copy_from_slice(&src2_bytes(64));
    Ok(())
}

/// Contract id in the current call frame (`$fp` points at it).
fn frame_contract(vm: &Vm) -> Option<ContractId> {
    let fp = reg(vm, RegId::FP);
    if fp == 0 {
        return None
    }
    vm.memory().read_bytes::<_, 32>(fp).ok().map(ContractId::from)
}

struct C33 {
    id: u64,
    base: Vm,
    ready: Ready<Script>,
    alphabet: Vec<Act>,
    stats: Vec<Mutex<BTreeMap<(u8, String), u64>>>,
}

impl C33 {
    fn new(id: u64, alphabet: Vec<Act>) -> Self {
        let p = params();
        let mut storage = MemoryStorage::default();
        for i in 0..2u8 {
            let code: Vec<u8> = [op::ret(RegId::ONE)].into_iter().collect();
            storage
                .deploy_contract_with_id(&[], &code, &cid(i))
                .expect("deploy");
        }
        storage.commit();
        let ready = build_ready(&p);
        let mut base = vm_over(ready.clone(), storage, &p);
        enter(&mut base).expect("enter X");
        assert_eq!(frame_contract(&base), Some(cid(0)));
        C33 {
            id,
            base,
            ready,
            alphabet,
            stats: (0..64).map(|_| Mutex::new(BTreeMap::new())).collect(),
        }
    }

    fn count(&self, kind: usize, label: String) {
        let shard = rayon::current_thread_index().unwrap_or(63) % 64;
        *self.stats[shard]
            .lock()
            .unwrap()
            .entry((kind as u8, label))
            .or_insert(0) += 1;
    }

    fn flush_stats(&self, ctx: &Ctx) {
        let mut all: BTreeMap<String, u64> = BTreeMap::new();
        for s in &self.stats {
            for ((k, l), n) in s.lock().unwrap().iter() {
                *all.entry(format!("{}:{}", KINDS[*k as usize], l)).or_insert(0) += n;
            }
        }
        ctx.outcomes_merge(&all);
    }

    /// Execute one action on `vm` (the SAME function is used for the primary VM, the
    /// cold twin and for re-deriving a state's VM from its path).
    fn apply(&self, vm: &mut Vm, a: &Act) -> Obs {
        let base = reg(vm, RegId::SSP);
        let obs = |vm: &Vm, step: Step, driver: Option<String>| -> Obs {
            let b = reg(vm, RegId::SSP);
            Obs {
                step,
                regs: regs(vm),
                dst: vm
                    .memory()
                    .read(b + OFF_DST, DST_LEN)
                    .map(|s| s.to_vec())
                    .unwrap_or_default(),
                driver,
            }
        };
        match *a {
            Act::Switch => {
                let s = inject(vm, op::ret(RegId::ONE));
                if !matches!(s, Step::Return(_)) {
                    return obs(vm, s, Some("RET from contract did not return".into()))
                }
                match enter(vm) {
                    Ok(()) => obs(vm, Step::Proceed, None),
                    Err(e) => obs(vm, Step::Proceed, Some(e)),
                }
            }
            Act::EndTx { commit } => {
                if commit {
                    let s = inject(vm, op::ret(RegId::ONE));
                    if !matches!(s, Step::Return(_)) {
                        return obs(vm, s, Some("RET from contract did not return".into()))
                    }
                    // same loop as Interpreter::run_program
                    let mut n = 0;
                    loop {
                        let in_call = reg(vm, RegId::FP) != 0;
                        let s = step(vm);
                        n += 1;
                        match s {
                            Step::Proceed => {}
                            Step::Return(_) | Step::ReturnData(_) if in_call => {}
                            Step::Return(_) => break,
                            other => return obs(vm, other, Some("script did not finish with RET".into())),
                        }
                        if n > 200 {
                            return obs(vm, Step::Proceed, Some("script did not finish in 200 steps".into()))
                        }
                    }
                    vm.as_mut().commit();
                } else {
                    let s = inject(vm, op::rvrt(RegId::ONE));
                    if !matches!(s, Step::Revert(_)) {
                        return obs(vm, s, Some("RVRT did not revert".into()))
                    }
                    vm.as_mut().revert();
                }
                if let Err(e) = vm.init_script(self.ready.clone()) {
                    return obs(vm, Step::Proceed, Some(format!("init_script: {e:?}")))
                }
                match enter(vm) {
                    Ok(()) => obs(vm, Step::Proceed, None),
                    Err(e) => obs(vm, Step::Proceed, Some(e)),
                }
            }
            _ => {
                if let Ok(d) = vm.memory_mut().write_noownerchecks(base + OFF_DST, DST_LEN) {
                    d.fill(SENT);
                }
                let set = |vm: &mut Vm, r: u8, v: u64| set_reg(vm, r as usize, v);
                set(vm, R_STATUS, REG_SENT);
                set(vm, R_VAL, REG_SENT);
                set(vm, R_SRC, base + OFF_SRC);
                set(vm, R_DST, base + OFF_DST);
                set_reg(vm, RegId::ERR.to_u8() as usize, ERR_SENT);
                let key_ptr = |k: u8| base + OFF_KEYS + 32 * k as u64;
                let ins: Instruction = match *a {
                    Act::Srw { k, w } => {
                        set(vm, R_KEY, key_ptr(k));
                        op::srw(R_VAL, R_STATUS, R_KEY, w)
                    }
                    Act::Sww { k } => {
                        set(vm, R_KEY, key_ptr(k));
                        set(vm, R_VAL, SWW_WORD);
                        op::sww(R_KEY, R_STATUS, R_VAL)
                    }
                    Act::Srwq { k, n } => {
                        set(vm, R_KEY, key_ptr(k));
                        set(vm, R_N, n as u64);
                        op::srwq(R_DST, R_STATUS, R_KEY, R_N)
                    }
                    Act::Swwq { k, n } => {
                        set(vm, R_KEY, key_ptr(k));
                        set(vm, R_N, n as u64);
                        op::swwq(R_KEY, R_STATUS, R_SRC, R_N)
                    }
                    Act::Scwq { k, n } => {
                        set(vm, R_KEY, key_ptr(k));
                        set(vm, R_N, n as u64);
                        op::scwq(R_KEY, R_STATUS, R_N)
                    }
                    Act::Sclr { k, n } => {
                        set(vm, R_KEY, key_ptr(k));
                        set(vm, R_N, n as u64);
                        op::sclr(R_KEY, R_N)
                    }
                    Act::Swrd { k, len } => {
                        set(vm, R_KEY, key_ptr(k));
                        set(vm, R_LEN, len as u64);
                        op::swrd(R_KEY, R_SRC, R_LEN)
                    }
                    Act::Swri { k, len } => {
                        set(vm, R_KEY, key_ptr(k));
                        op::swri(R_KEY, R_SRC, len as u16)
                    }
                    Act::Srdd { k, off, len } => {
                        set(vm, R_KEY, key_ptr(k));
                        set(vm, R_OFF, off);
                        set(vm, R_LEN, len as u64);
                        op::srdd(R_DST, R_KEY, R_OFF, R_LEN)
                    }
                    Act::Srdi { k, off, len } => {
                        set(vm, R_KEY, key_ptr(k));
                        set(vm, R_OFF, off);
                        op::srdi(R_DST, R_KEY, R_OFF, len)
                    }
                    Act::Supd { k, off, len } => {
                        set(vm, R_KEY, key_ptr(k));
                        set(vm, R_SRC, base + OFF_SRC2);
                        set(vm, R_OFF, off);
                        set(vm, R_LEN, len as u64);
                        op::supd(R_KEY, R_SRC, R_OFF, R_LEN)
                    }
                    Act::Supi { k, off, len } => {
                        set(vm, R_KEY, key_ptr(k));
                        set(vm, R_SRC, base + OFF_SRC2);
                        set(vm, R_OFF, off);
                        op::supi(R_KEY, R_SRC, R_OFF, len)
                    }
                    Act::Spld { k } => {
                        set(vm, R_KEY, key_ptr(k));
                        op::spld(R_VAL, R_KEY)
                    }
                    Act::Switch | Act::EndTx { .. } => unreachable!(),
                };
                let s = inject(vm, ins);
                obs(vm, s, None)
            }
        }
    }

    /// The VM of the state reached by `path` (thread-local memo of the last one).
    fn vm_for(&self, path: &[Act]) -> Vm {
        thread_local! {
            static MEMO: RefCell<Option<(u64, Vec<Act>, Vm)>> = const { RefCell::new(None) };
        }
        MEMO.with(|m| {
            let mut m = m.borrow_mut();
            if let Some((id, p, vm)) = m.as_ref() {
                if *id == self.id && p.as_slice() == path {
                    return vm.clone()
                }
            }
            let mut vm = self.base.clone();
            for a in path {
                let _ = self.apply(&mut vm, a);
            }
            *m = Some((self.id, path.to_vec(), vm.clone()));
            vm
        })
    }
}

/// Persistent contract state of the real storage as a reference-shaped map
/// (contract index 0 = X, 1 = Y, 255 = any other contract id).
fn persistent(vm: &Vm) -> RefMap {
    vm.as_ref()
        .all_contract_state()
        .map(|(k, v)| {
            let c = if *k.contract_id() == cid(0) {
                0
            } else if *k.contract_id() == cid(1) {
                1
            } else {
                255
            };
            ((c, **k.state_key()), v.as_ref().to_vec())
        })
        .collect()
}

fn show_map(m: &RefMap) -> Value {
    let ks = keys();
    Value::Array(
        m.iter()
            .map(|((c, k), v)| {
                let kname = match ks.iter().position(|x| x == k) {
                    Some(0) => "K".to_string(),
                    Some(1) => "K+1".to_string(),
                    Some(2) => "2^256-2".to_string(),
                    Some(3) => "2^256-1".to_string(),
                    _ => hex::encode(k),
                };
                json!({"contract": if *c == 0 { "X" } else if *c == 1 { "Y" } else { "?" }, "key": kname, "len": v.len(), "value": hex::encode(v)})
            })
            .collect(),
    )
}

fn map_diff(exp: &RefMap, got: &RefMap) -> String {
    let mut out = Vec::new();
    for (k, v) in exp {
        match got.get(k) {
            None => out.push(format!("missing ({},{}..) expected len {}", k.0, hex::encode(&k.1[28..]), v.len())),
            Some(g) if g != v => out.push(format!(
                "({},..{}) expected {} got {}",
                k.0,
                hex::encode(&k.1[28..]),
                hex::encode(v),
                hex::encode(g)
            )),
            _ => {}
        }
    }
    for (k, g) in got {
        if !exp.contains_key(k) {
            out.push(format!("extra ({},..{}) = {}", k.0, hex::encode(&k.1[28..]), hex::encode(g)));
        }
    }
    out.join("; ")
}

// ------------------------------------------------------------------ the model

#[derive(Clone)]
struct St {
    refm: RefMap,
    committed: RefMap,
    active: u8,
    cache: Cache,
}

/// Violations found while a frontier state is expanded in parallel are buffered per
/// parent and reported afterwards in frontier order, so that the recorded case of a
/// key is always the first one in (depth, frontier, alphabet) order = the simplest.
type Sink = BTreeMap<String, (String, Value, u64)>;
thread_local! {
    static SINK: RefCell<Option<Sink>> = const { RefCell::new(None) };
}

fn report_sink(ctx: &Ctx, sink: Sink) {
    for (key, (what, case, n)) in sink {
        ctx.violation(key.clone(), what, case);
        for _ in 1..n {
            ctx.violation(key.clone(), "", Value::Null);
        }
    }
}

impl C33 {
    fn viol(&self, ctx: &Ctx, a: &Act, class: &str, path: &[Act], what: String) {
        // A disagreement between the cached and the cache-cleared run is one class,
        // whatever instruction exposes it (the instruction at fault is an earlier one).
        let key = if class == "cache-changes-result" {
            "C33:cache-changes-result".to_string()
        } else {
            format!("C33:{}:{}", a.name(), class)
        };
        SINK.with(|s| {
            let mut s = s.borrow_mut();
            if let Some(sink) = s.as_mut() {
                if let Some(e) = sink.get_mut(&key) {
                    e.2 += 1;
                    return
                }
            }
            let mut p = path.to_vec();
            p.push(*a);
            let what = format!("after {path:?}, action {a:?}: {what}");
            let case = json!({"actions": p});
            match s.as_mut() {
                Some(sink) => {
                    sink.insert(key, (what, case, 1));
                }
                None => ctx.violation(key, what, case),
            }
        });
    }
}

impl Model for C33 {
    type State = St;
    type Action = Act;
    type Key = (u64, u64);

    fn init(&self) -> St {
        St {
            refm: RefMap::new(),
            committed: RefMap::new(),
            active: 0,
            cache: self.base.bench_storage_slot_cache().clone(),
        }
    }

    fn actions(&self, _s: &St) -> Vec<Act> {
        self.alphabet.clone()
    }

    fn step(&self, s: &St, a: &Act, path: &[Act], ctx: &Ctx) -> Option<St> {
        self.step_inner(s, a, path, ctx, true)
    }

    fn key(&self, s: &St) -> (u64, u64) {
        let t = (&s.refm, &s.committed, &s.cache, s.active);
        (hash64(&(0x51u8, &t)), hash64(&(0xA7u8, &t, 0x1234_5678u32)))
    }

    fn check(&self, s: &St, path: &[Act], ctx: &Ctx) {
        ctx.evals(1);
        if !s.refm.is_empty() || !s.cache.is_empty() {
            ctx.fp(self.key(s).0);
        }
        let interesting = path.len() >= 3
            && !s.refm.is_empty()
            && path.iter().any(|a| matches!(a, Act::Switch | Act::EndTx { .. }))
            && path
                .iter()
                .filter(|a| !matches!(a, Act::Switch | Act::EndTx { .. }))
                .count()
                >= 2;
        if interesting && ctx.sample_count() < 4 {
            ctx.sample(json!({
                "actions": path,
                "active_contract": if s.active == 0 { "X" } else { "Y" },
                "reference_map_and_storage": show_map(&s.refm),
                "slot_cache_entries": s.cache.len(),
            }));
        }
    }
}

impl C33 {
    /// One transition with all its oracles. `count` = add to the outcome histogram
    /// (false when the engine re-derives an already counted successor).
    fn step_inner(&self, s: &St, a: &Act, path: &[Act], ctx: &Ctx, count: bool) -> Option<St> {
        let parent = self.vm_for(path);
        let mut hot = parent.clone();
        let mut cold = parent;
        cold.bench_storage_slot_cache_mut().clear();
        let oh = self.apply(&mut hot, a);
        let oc = self.apply(&mut cold, a);

        // --- reference
        let mut refm = s.refm.clone();
        let mut committed = s.committed.clone();
        let mut active = s.active;
        let exp = reference(&mut refm, s.active, a);
        match a {
            Act::Switch => active ^= 1,
            Act::EndTx { commit: true } => {
                committed = refm.clone();
                active = 0;
            }
            Act::EndTx { commit: false } => {
                refm = committed.clone();
                active = 0;
            }
            _ => {}
        }

        if let Some(d) = &oh.driver {
            self.viol(ctx, a, "driver-step-failed", path, format!("{d}; step {:?}", oh.step));
            return None
        }

        // --- cache twin: identical except gas
        let gg = RegId::GGAS.to_u8() as usize;
        let cg = RegId::CGAS.to_u8() as usize;
        let mut twin_bad = Vec::new();
        if oh.step != oc.step {
            twin_bad.push(format!("step {:?} vs cold {:?}", oh.step, oc.step));
        }
        if oc.driver.is_some() {
            twin_bad.push(format!("cold driver {:?}", oc.driver));
        }
        for i in 0..REGS {
            if i != gg && i != cg && oh.regs[i] != oc.regs[i] {
                twin_bad.push(format!("r{i:#x} {:#x} vs cold {:#x}", oh.regs[i], oc.regs[i]));
            }
        }
        if hot.memory() != cold.memory() {
            twin_bad.push("memory differs".into());
        }
        let pers = persistent(&hot);
        if pers != persistent(&cold) {
            twin_bad.push(format!("persistent state differs: {}", map_diff(&pers, &persistent(&cold))));
        }
        if !twin_bad.is_empty() {
            self.viol(ctx, a, "cache-changes-result", path, twin_bad.join(", "));
            return None
        }
        let gas_differs = oh.regs[gg] != oc.regs[gg];

        // --- against the reference
        match (&exp, &oh.step) {
            (Exp::Panic(reasons), Step::Panic(r)) if reasons.contains(r) => {
                if count {
                    self.count(a.kind(), format!("panic:{r:?}"));
                }
                return None
            }
            (Exp::Panic(reasons), other) => {
                self.viol(
                    ctx,
                    a,
                    "expected-panic",
                    path,
                    format!("reference: panic with one of {reasons:?}; observed {other:?}"),
                );
                return None
            }
            (Exp::Ok(_), Step::Proceed) => {}
            (Exp::Ok(_), other) => {
                let class = match other {
                    Step::Panic(r) => format!("unexpected-panic:{r:?}"),
                    o => format!("unexpected:{}", o.label()),
                };
                self.viol(ctx, a, &class, path, format!("reference: succeeds; observed {other:?}"));
                return None
            }
        }
        let Exp::Ok(e) = exp else { unreachable!() };
        let is_ins = !matches!(a, Act::Switch | Act::EndTx { .. });
        let mut bad = false;
        if is_ins {
            if let Some(x) = e.status {
                let got = oh.regs[R_STATUS as usize];
                if got != x {
                    self.viol(ctx, a, "status-register", path, format!("status/flag register expected {x}, observed {got:#x}"));
                    bad = true;
                }
            }
            if let Some(x) = e.value {
                let got = oh.regs[R_VAL as usize];
                if got != x {
                    self.viol(ctx, a, "result-register", path, format!("result register expected {x:#x}, observed {got:#x}"));
                    bad = true;
                }
            }
            if let Some(x) = e.err {
                let got = oh.regs[RegId::ERR.to_u8() as usize];
                if got != x {
                    self.viol(ctx, a, "err-register", path, format!("$err expected {x}, observed {got}"));
                    bad = true;
                }
            }
            let mut want = vec![SENT; DST_LEN];
            want[..e.dst.len()].copy_from_slice(&e.dst);
            if oh.dst != want {
                self.viol(
                    ctx,
                    a,
                    "destination-bytes",
                    path,
                    format!(
                        "destination buffer expected {} (then guard bytes), observed {}",
                        hex::encode(&e.dst),
                        hex::encode(&oh.dst[..(e.dst.len() + 8).min(DST_LEN)])
                    ),
                );
                bad = true;
            }
        } else if frame_contract(&hot) != Some(cid(active)) {
            self.viol(ctx, a, "driver-step-failed", path, format!("not inside contract {active} after the action"));
            bad = true;
        }
        if pers != refm {
            self.viol(
                ctx,
                a,
                "persistent-state",
                path,
                format!("storage differs from reference map: {}", map_diff(&refm, &pers)),
            );
            bad = true;
        }
        if bad {
            return None
        }
        let label = if !is_ins {
            "ok".to_string()
        } else {
            match (e.err, e.status) {
                (Some(1), _) => "ok:unset($err=1)".to_string(),
                (_, Some(f)) => format!("ok:flag={f}"),
                _ => "ok".to_string(),
            }
        };
        if count {
            self.count(a.kind(), label);
            if gas_differs {
                self.count(a.kind(), "twin-gas-differs".into());
            }
        }
        Some(St {
            refm,
            committed,
            active,
            cache: hot.bench_storage_slot_cache().clone(),
        })
    }

}

// ------------------------------------------------------------------ driver

fn describe(al: &[Act]) -> Value {
    let mut per: BTreeMap<&'static str, u64> = BTreeMap::new();
    for a in al {
        *per.entry(a.name()).or_insert(0) += 1;
    }
    json!({"size": al.len(), "per_instruction": per})
}

fn explore(ctx: &Ctx) {
    ctx.rule(
        "explicit-state BFS; every transition = one real storage instruction injected into a VM paused inside \
         contract X or Y (plus Switch / EndTx driver actions), executed on the VM and on a cache-cleared twin and \
         compared with the key-value reference; a state is non-trivial when the reference map or the slot cache \
         is non-empty; distinct = distinct (reference map, committed map, cache contents, active contract)",
    );
    ctx.assume("merging key is a 128-bit fingerprint (two keyed SipHash values) of (reference map, committed map, slot-cache contents, active contract)");
    ctx.assume("every transaction starts with 50,000,000 gas; an action costs < 2,000, so gas never influences a future within the bound (no OutOfGas outcome observed)");
    ctx.assume("the state's VM is re-derived by deterministic replay of its action path from the prepared base VM");
    ctx.assume("after a VM panic the transaction is over (reverted by the VM's caller); panicking transitions have no successor");
    ctx.set(
        "dont_care",
        json!([
            "which panic reason is reported when several apply (SRWQ over the 2^256 boundary with a non-32-byte slot: StorageOutOfBounds or TooManySlots)",
            "register/memory/storage contents after a panicking instruction",
            "gas registers ($ggas, $cgas) in the hot/cold twin comparison",
            "registers other than the instruction's result/status registers and $err (only compared between the twins)",
            "read/update offsets and lengths >= 2^32 other than the append marker u64::MAX (refused with MemoryOverflow before the slot is looked at; not in the alphabet)"
        ]),
    );
    ctx.set("keys", json!(["K=0x11..11FF", "K+1=0x11..1200", "2^256-2", "2^256-1"]));
    ctx.set("max_storage_slot_length", json!(MAXLEN));
    ctx.set("read_offset_len_pairs", json!(READ_PAIRS));
    ctx.set("update_offset_len_pairs", json!(UPD_PAIRS));

    let full = full_alphabet();
    ctx.set("alphabet_full", describe(&full));
    if ctx.quick() {
        let m = C33::new(1, full);
        let st = lean_bfs(&m, 3, ctx);
        m.flush_stats(ctx);
        ctx.set("pass_full", stats_json(3, &st));
        // plus the reduced alphabet two levels deeper
        let red = reduced_alphabet();
        ctx.set("alphabet_reduced", json!({"describe": describe(&red), "actions": red}));
        let m2 = C33::new(2, red);
        let st2 = lean_bfs(&m2, 6, ctx);
        m2.flush_stats(ctx);
        ctx.set("pass_reduced", stats_json(6, &st2));
    } else {
        // first the reduced alphabet (complete to depth 6), then the full one to depth 5
        // (the last level stops at the time budget and then reports a cap)
        let red = reduced_alphabet();
        ctx.set("alphabet_reduced", json!({"describe": describe(&red), "actions": red}));
        let m2 = C33::new(2, red);
        let st2 = lean_bfs(&m2, 6, ctx);
        m2.flush_stats(ctx);
        ctx.set("pass_reduced", stats_json(6, &st2));
        let m = C33::new(1, full);
        let st = lean_bfs(&m, 5, ctx);
        m.flush_stats(ctx);
        ctx.set("pass_full", stats_json(5, &st));
    }
}

fn stats_json(target: usize, st: &bfs::BfsStats) -> Value {
    json!({"depth_target": target, "depth_completed": st.completed_depth, "states": st.states,
           "transitions_executed": st.transitions, "states_per_depth": st.per_depth, "capped": st.capped})
}

/// Level-synchronous BFS with the same contract as `vcore::bfs::bfs` (same `Model`
/// methods, deterministic choice of the representative = first (parent, action) in
/// frontier order), but memory-lean: a level first computes only the successor KEYS of
/// all transitions (every transition runs all oracles there), de-duplicates them in
/// order, and then re-derives the successor state for the first arrival of every new
/// key only. `vcore::bfs::bfs` materialises every successor (state + path) of a level
/// before merging, which is ~60 M states at depth 5 here. A level in progress stops
/// expanding further parents when the time budget is over (reported as a cap;
/// `completed_depth` then names the last complete level). `transitions` counts every
/// executed transition, including the panicking ones (they have no successor).
fn lean_bfs(m: &C33, max_depth: usize, ctx: &Ctx) -> bfs::BfsStats {
    let mut stats = bfs::BfsStats::default();
    let mut seen: HashSet<(u64, u64)> = HashSet::new();
    let s0 = m.init();
    seen.insert(m.key(&s0));
    m.check(&s0, &[], ctx);
    let mut frontier: Vec<(St, Vec<Act>)> = vec![(s0, vec![])];
    stats.states = 1;
    stats.per_depth.push(1);
    for depth in 1..=max_depth {
        if frontier.is_empty() {
            stats.completed_depth = max_depth;
            break
        }
        if ctx.out_of_time() {
            stats.capped = true;
            ctx.cap(format!(
                "alphabet of {} actions: stopped before depth {depth}: states={} time={:.0}s",
                m.alphabet.len(),
                stats.states,
                ctx.elapsed()
            ));
            break
        }
        let skipped = AtomicU64::new(0);
        let expanded: Vec<(Vec<Option<(u64, u64)>>, Sink)> = frontier
            .par_iter()
            .map(|(s, path)| {
                if ctx.out_of_time() {
                    skipped.fetch_add(1, Ordering::Relaxed);
                    return (Vec::new(), Sink::new())
                }
                SINK.with(|k| *k.borrow_mut() = Some(Sink::new()));
                let ks = m
                    .alphabet
                    .iter()
                    .map(|a| m.step_inner(s, a, path, ctx, true).map(|n| m.key(&n)))
                    .collect();
                let sink = SINK.with(|k| k.borrow_mut().take()).unwrap_or_default();
                (ks, sink)
            })
            .collect();
        let mut keys = Vec::with_capacity(expanded.len());
        for (ks, sink) in expanded {
            report_sink(ctx, sink);
            keys.push(ks);
        }
        let mut winners: Vec<(usize, usize)> = Vec::new();
        for (i, ks) in keys.iter().enumerate() {
            stats.transitions += ks.len() as u64;
            for (j, k) in ks.iter().enumerate() {
                if let Some(k) = k {
                    if seen.insert(*k) {
                        winners.push((i, j));
                    }
                }
            }
        }
        drop(keys);
        let next: Vec<(St, Vec<Act>)> = winners
            .par_iter()
            .filter_map(|&(i, j)| {
                let (s, path) = &frontier[i];
                let a = m.alphabet[j];
                let n = m.step_inner(s, &a, path, ctx, false)?;
                let mut p = path.clone();
                p.push(a);
                Some((n, p))
            })
            .collect();
        assert_eq!(next.len(), winners.len(), "transition function is not deterministic");
        next.par_iter().for_each(|(s, p)| m.check(s, p, ctx));
        stats.states += next.len() as u64;
        stats.per_depth.push(next.len() as u64);
        let skipped = skipped.load(Ordering::Relaxed);
        if skipped > 0 {
            stats.capped = true;
            ctx.cap(format!(
                "alphabet of {} actions: time budget reached inside depth {depth}: {skipped} of {} frontier states not expanded",
                m.alphabet.len(),
                frontier.len()
            ));
            break
        }
        stats.completed_depth = depth;
        frontier = next;
    }
    ctx.add_states(stats.states);
    ctx.add_transitions(stats.transitions);
    stats
}

fn replay(case: &Value, ctx: &Ctx) {
    let acts: Vec<Act> = serde_json::from_value(case["actions"].clone()).expect("actions");
    let m = C33::new(3, vec![]);
    bfs::replay_path(&m, &acts, ctx);
}

fn main() {
    run_check("C33", Level::ModelChecking, explore, replay)
}
