//! C06 — Serde formats round-trip protocol types and consensus parameters.
//!
//! Space (bounded exhaustive enumeration, no sampling; generators in `../txcorpus.rs`),
//! every value × the three formats {serde_json (text), postcard, bincode}:
//!  A. every leaf protocol type as the FULL product of its fields' classes (7 input kinds
//!     incl. the empty-predicate / empty-data variants, 5 output kinds, 13 receipt kinds,
//!     StorageSlot, UtxoId, TxPointer, Witness, both UpgradePurpose variants, Mint);
//!     byte-vector lengths L = 0..=9 (thorough: Lbig = L ∪ {15,16,17,255,256,257});
//!  B. Policies: all 64 masks × all combinations of in-domain value classes (10,000) —
//!     16 masks use the legacy 4-value layout, 48 (every mask with Expiration or Owner)
//!     the compact layout;
//!  C. transactions: the star sub-product of TX(2) (5.8 k: every kind, each dimension over
//!     its full domain at two base points, all input-kind × output-kind pairs, Mint);
//!     thorough: additionally the full product kind(6) × policies(128) × input lists(57) ×
//!     output lists(31) × {no witnesses, two witnesses} × {empty body, rich body};
//!  D. consensus parameters: base values built with the public constructors
//!     ConsensusParameters {V1,V2} × ScriptParameters {V1,V2} × GasCostsValues {V1..V7}
//!     × {unit, free} plus the latest default table (57 bases); every base is serialized
//!     to a `serde_json::Value`, and EVERY leaf of that tree — every number (domain
//!     {0,1,u8::MAX,u16::MAX,u32::MAX,u64::MAX}), every 32-byte id string ({00..,
//!     pattern, ff..}) and every DependentCost node ({LightOperation, HeavyOperation}) —
//!     is overwritten one at a time (star) and in pairs (all leaf pairs × numeric values
//!     {0,1,u32::MAX,u64::MAX}²; quick: 2 bases; thorough: cp/script {V1/V1, V2/V2} × every
//!     gas version (unit) + the default table = 15 bases, with the six-value domain) and
//!     deserialized into the typed value under test. The same star (+ pairs) over the
//!     standalone types GasCostsValues V1..V7, GasCosts, Tx-, Predicate-, Script- (V1,V2),
//!     Contract-, FeeParameters and DependentCost;
//!  E. for every ConsensusParameters value p of D:
//!     `Transaction::upgrade_consensus_parameters(&p, …)` (empty and rich tx shell).
//!
//! Oracle (straight from the statement):
//!  1. per format f: ser_f(x) is Ok, de_f(ser_f(x)) is Ok and == x (the type's own `Eq`),
//!     and ser_f(de_f(ser_f(x))) == ser_f(x) (byte reproducibility);
//!  2. D: a value obtained by overwriting a JSON leaf with 0 or 1 must deserialize (every
//!     unsigned field holds 0 and 1; larger values may be outside a narrower field's
//!     range — recorded, never a violation), and the typed value re-serializes to exactly
//!     the edited JSON tree (the edit is really carried by the value: no vacuity);
//!  3. E: the upgrade tx's witness at `witness_index` == postcard(p) (serialized by the
//!     harness), its checksum == SHA-256 of that witness (sha2 crate);
//!     `UpgradeMetadata::compute` returns Ok with parameters == p and the same checksum,
//!     and postcard(returned parameters) == the witness bytes.
//!
//! Keys: `C06:<Type[::Variant]>:<format>:<class>`, class ∈ {panic, ser-error, de-error,
//! value, bytes, leaf-rejected, leaf-not-preserved}; `C06:Upgrade:<class>` for E. A failing
//! transaction / ConsensusParameters value whose Policies / GasCostsValues component fails
//! alone in the same format is reported under the component's key, and any failure while a
//! three-byte `Bytes` probe fails alone in that format under `C06:Bytes:…` (one defect ⇒ few keys).

#[path = "../txcorpus.rs"]
mod txcorpus;

use fuel_tx::{
    consensus_parameters::{
        gas::{
            GasCostsValuesV1,
            GasCostsValuesV2,
            GasCostsValuesV3,
            GasCostsValuesV4,
            GasCostsValuesV5,
            GasCostsValuesV6,
            GasCostsValuesV7,
        },
        ConsensusParametersV1,
        ConsensusParametersV2,
        ScriptParametersV1,
        ScriptParametersV2,
    },
    field,
    policies::Policies,
    ConsensusParameters,
    ContractParameters,
    DependentCost,
    FeeParameters,
    GasCosts,
    GasCostsValues,
    PredicateParameters,
    ScriptParameters,
    Transaction,
    TxParameters,
    UpgradeMetadata,
    UpgradePurpose,
    Witness,
};
use serde::{
    de::DeserializeOwned,
    Serialize,
};
use std::collections::{
    BTreeMap,
    HashSet,
};
use txcorpus::{
    CorpusLevel,
    Leaf,
    LeafValue,
    Lens,
};
use vcore::{
    guard,
    json,
    oracle::sha256,
    run::hash64,
    run_check,
    space,
    Ctx,
    Level,
    Value,
};

// ------------------------------------------------------------------ accumulator

#[derive(Default)]
struct Acc {
    evals: u64,
    fps: HashSet<u64>,
    outcomes: BTreeMap<String, u64>,
    /// first violation per key (in enumeration order) + number of occurrences
    viols: BTreeMap<String, (String, Value, u64)>,
}

impl Acc {
    fn outcome(&mut self, label: &str) {
        *self.outcomes.entry(label.to_string()).or_insert(0) += 1;
    }

    fn viol(&mut self, key: String, what: String, case: &dyn Fn() -> Value) {
        match self.viols.get_mut(&key) {
            Some(e) => e.2 += 1,
            None => {
                self.viols.insert(key, (what, case(), 1));
            }
        }
    }

    /// Merge into the context (called sequentially in chunk order => deterministic).
    fn flush(self, ctx: &Ctx) {
        ctx.evals(self.evals);
        ctx.fps_merge(self.fps);
        ctx.outcomes_merge(&self.outcomes);
        for (key, (what, case, n)) in self.viols {
            ctx.violation(key.clone(), what, case);
            for _ in 1..n {
                ctx.violation(key.clone(), "", Value::Null);
            }
        }
    }
}

fn short<T: std::fmt::Debug>(t: &T) -> String {
    let s = format!("{t:?}");
    if s.len() > 400 {
        let mut n = 400;
        while !s.is_char_boundary(n) {
            n -= 1;
        }
        format!("{}…", &s[..n])
    } else {
        s
    }
}

fn hex_head(b: &[u8]) -> String {
    let n = b.len().min(64);
    format!("{}{}", hex::encode(&b[..n]), if b.len() > n { "…" } else { "" })
}

// ------------------------------------------------------------------ formats

#[derive(Clone, Copy, Debug, PartialEq, Eq)]
enum Fmt {
    Json,
    Postcard,
    Bincode,
}

const FORMATS: [Fmt; 3] = [Fmt::Json, Fmt::Postcard, Fmt::Bincode];

impl Fmt {
    fn name(self) -> &'static str {
        match self {
            Fmt::Json => "json",
            Fmt::Postcard => "postcard",
            Fmt::Bincode => "bincode",
        }
    }

    fn ser<T: Serialize>(self, v: &T) -> Result<Vec<u8>, String> {
        match self {
            Fmt::Json => serde_json::to_vec(v).map_err(|e| e.to_string()),
            Fmt::Postcard => postcard::to_stdvec(v).map_err(|e| e.to_string()),
            Fmt::Bincode => bincode::serialize(v).map_err(|e| e.to_string()),
        }
    }

    fn de<T: DeserializeOwned>(self, b: &[u8]) -> Result<T, String> {
        match self {
            Fmt::Json => serde_json::from_slice(b).map_err(|e| e.to_string()),
            Fmt::Postcard => postcard::from_bytes(b).map_err(|e| e.to_string()),
            Fmt::Bincode => bincode::deserialize(b).map_err(|e| e.to_string()),
        }
    }

    fn show(self, b: &[u8]) -> String {
        match self {
            Fmt::Json => {
                let s = String::from_utf8_lossy(b);
                if s.len() > 300 {
                    format!("{}…", s.chars().take(300).collect::<String>())
                } else {
                    s.to_string()
                }
            }
            _ => hex_head(b),
        }
    }
}

// ------------------------------------------------------------------ the oracle

/// One failed oracle clause.
struct Fail {
    fmt: Fmt,
    class: &'static str,
    what: String,
}

/// Oracle clause 1 for one value in one format. Ok = the serialized bytes.
fn rt_one<T>(v: &T, f: Fmt) -> Result<Vec<u8>, Fail>
where
    T: Serialize + DeserializeOwned + PartialEq + std::fmt::Debug,
{
    let fail = |class: &'static str, what: String| Fail { fmt: f, class, what };
    let s1 = match guard::catch_any(|| f.ser(v)) {
        Err(m) => return Err(fail("panic", format!("{} serialization of {} panicked: {m}", f.name(), short(v)))),
        Ok(Err(e)) => return Err(fail("ser-error", format!("{} serialization of {} failed: {e}", f.name(), short(v)))),
        Ok(Ok(b)) => b,
    };
    let v2: T = match guard::catch_any(|| f.de::<T>(&s1)) {
        Err(m) => {
            return Err(fail(
                "panic",
                format!("{} deserialization of the serialized {} panicked: {m}", f.name(), short(v)),
            ))
        }
        Ok(Err(e)) => {
            return Err(fail(
                "de-error",
                format!("{} deserialization of its own output failed: {e}; value {}; serialized {}", f.name(), short(v), f.show(&s1)),
            ))
        }
        Ok(Ok(x)) => x,
    };
    if &v2 != v {
        return Err(fail(
            "value",
            format!("{} round trip changed the value: {} became {} (serialized {})", f.name(), short(v), short(&v2), f.show(&s1)),
        ))
    }
    match guard::catch_any(|| f.ser(&v2)) {
        Ok(Ok(s2)) if s2 == s1 => Ok(s1),
        Ok(Ok(s2)) => Err(fail(
            "bytes",
            format!(
                "{} re-serialization is not byte-for-byte reproducible for {}: {} then {}",
                f.name(),
                short(v),
                f.show(&s1),
                f.show(&s2)
            ),
        )),
        Ok(Err(e)) => Err(fail("ser-error", format!("{} re-serialization failed: {e}", f.name()))),
        Err(m) => Err(fail("panic", format!("{} re-serialization panicked: {m}", f.name()))),
    }
}

/// All three formats. Returns the failures (empty = holds) and the postcard bytes.
fn rt_all<T>(v: &T, acc: &mut Acc) -> (Vec<Fail>, Option<Vec<u8>>)
where
    T: Serialize + DeserializeOwned + PartialEq + std::fmt::Debug,
{
    let mut fails = Vec::new();
    let mut pc = None;
    for f in FORMATS {
        acc.evals += 1;
        match rt_one(v, f) {
            Ok(b) => {
                acc.outcome(match f {
                    Fmt::Json => "roundtrip_ok_json",
                    Fmt::Postcard => "roundtrip_ok_postcard",
                    Fmt::Bincode => "roundtrip_ok_bincode",
                });
                if f == Fmt::Postcard {
                    pc = Some(b);
                }
            }
            Err(e) => {
                acc.outcome("roundtrip_failed");
                fails.push(e);
            }
        }
    }
    (fails, pc)
}

/// Round-trip `v` in all formats and report failures under `C06:<name>:<fmt>:<class>`;
/// `component(fmt)` may redirect a failure to a failing component's name.
fn rt_report<T>(
    v: &T,
    name: &str,
    fp: Option<u64>,
    component: &dyn Fn(Fmt) -> Option<String>,
    case: &dyn Fn() -> Value,
    acc: &mut Acc,
) -> Option<Vec<u8>>
where
    T: Serialize + DeserializeOwned + PartialEq + std::fmt::Debug,
{
    let (fails, pc) = rt_all(v, acc);
    let ok = fails.is_empty();
    for e in fails {
        let owner = component(e.fmt).or_else(|| shared_component(e.fmt)).unwrap_or_else(|| name.to_string());
        acc.viol(format!("C06:{owner}:{}:{}", e.fmt.name(), e.class), e.what, case);
    }
    if ok {
        if let Some(b) = &pc {
            acc.fps.insert(fp.unwrap_or_else(|| hash64(&(name, b))));
        }
        pc
    } else {
        None
    }
}

/// A building block shared by almost every type (the byte-string wrapper): if a tiny
/// probe value of it fails alone in `f`, the failure is reported under its name.
fn shared_component(f: Fmt) -> Option<String> {
    let probe = fuel_types::bytes::Bytes::new(vec![0x87, 0x01, 0xfe]);
    rt_one(&probe, f).err().map(|_| "Bytes".to_string())
}

fn no_component(_: Fmt) -> Option<String> {
    None
}

// ------------------------------------------------------------------ A. leaves

fn check_leaf(leaf: Leaf, lens: Lens, idx: u64, acc: &mut Acc) -> Option<Vec<u8>> {
    let name = leaf.name();
    let case = || json!({"space": "leaf", "leaf": leaf.name(), "lens": lens.name(), "idx": idx});
    match txcorpus::leaf_at(leaf, lens, false, idx) {
        LeafValue::Input(v) => rt_report(&v, &name, None, &no_component, &case, acc),
        LeafValue::Output(v) => rt_report(&v, &name, None, &no_component, &case, acc),
        LeafValue::Receipt(v) => rt_report(&v, &name, None, &no_component, &case, acc),
        LeafValue::StorageSlot(v) => rt_report(&v, &name, None, &no_component, &case, acc),
        LeafValue::UtxoId(v) => rt_report(&v, &name, None, &no_component, &case, acc),
        LeafValue::TxPointer(v) => rt_report(&v, &name, None, &no_component, &case, acc),
        LeafValue::Witness(v) => rt_report(&v, &name, None, &no_component, &case, acc),
        LeafValue::UpgradePurpose(v) => rt_report(&v, &name, None, &no_component, &case, acc),
        LeafValue::Mint(v) => {
            let tx: Transaction = v.into();
            rt_report(&tx, &name, None, &no_component, &case, acc)
        }
    }
}

// ------------------------------------------------------------------ B. policies

/// Layout named by the statement: sets with the newer Expiration / Owner entries use the
/// compact layout, all others the legacy four-value layout.
fn policies_layout(p: &Policies) -> &'static str {
    if p.bits() & !0b1111 == 0 {
        "legacy-layout"
    } else {
        "compact-layout"
    }
}

fn policies_name(p: &Policies) -> String {
    format!("Policies[{}]", policies_layout(p))
}

fn check_policies(idx: u64, p: &Policies, acc: &mut Acc) -> Option<Vec<u8>> {
    let case = || json!({"space": "policies", "idx": idx});
    acc.outcome(if policies_layout(p) == "legacy-layout" { "policies_legacy_layout" } else { "policies_compact_layout" });
    rt_report(p, &policies_name(p), None, &no_component, &case, acc)
}

// ------------------------------------------------------------------ C. transactions

fn tx_policies(tx: &Transaction) -> Option<Policies> {
    use field::Policies as _;
    match tx {
        Transaction::Script(t) => Some(*t.policies()),
        Transaction::Create(t) => Some(*t.policies()),
        Transaction::Upgrade(t) => Some(*t.policies()),
        Transaction::Upload(t) => Some(*t.policies()),
        Transaction::Blob(t) => Some(*t.policies()),
        Transaction::Mint(_) => None,
    }
}

fn check_tx_value(tx: &Transaction, name: &str, fp: Option<u64>, case: &dyn Fn() -> Value, acc: &mut Acc) -> Option<Vec<u8>> {
    let component = |f: Fmt| {
        let p = tx_policies(tx)?;
        rt_one(&p, f).err().map(|_| policies_name(&p))
    };
    rt_report(tx, name, fp, &component, case, acc)
}

fn check_tx_star(idx: u64, acc: &mut Acc) -> Option<Vec<u8>> {
    let case = || json!({"space": "tx", "idx": idx});
    let point = txcorpus::tx_point(CorpusLevel::Star, idx);
    let tx = point.build();
    let name = format!("Transaction::{}", point.kind_name());
    check_tx_value(&tx, &name, None, &case, acc)
}

/// Thorough sub-product: kind fastest, then body point, witness point, outputs, inputs, policies.
const SUB_W: [u64; 2] = [0, 1 + 10 + 3 * 10 + 8];

fn tx_sub_count() -> u64 {
    6 * 2 * 2 * txcorpus::N_OUTPUT_LISTS * txcorpus::N_INPUT_LISTS * txcorpus::N_POLICIES
}

fn tx_sub_at(idx: u64) -> (usize, [u64; 5]) {
    let mut r = idx;
    let kind = (r % 6) as usize;
    r /= 6;
    let b = txcorpus::body_full(kind)[(r % 2) as usize];
    r /= 2;
    let w = SUB_W[(r % 2) as usize];
    r /= 2;
    let o = r % txcorpus::N_OUTPUT_LISTS;
    r /= txcorpus::N_OUTPUT_LISTS;
    let i = r % txcorpus::N_INPUT_LISTS;
    r /= txcorpus::N_INPUT_LISTS;
    (kind, [r, i, o, w, b])
}

fn check_tx_sub(idx: u64, acc: &mut Acc) -> Option<Vec<u8>> {
    let case = || json!({"space": "tx_sub", "idx": idx});
    let (kind, ix) = tx_sub_at(idx);
    let tx = txcorpus::tx_build(kind, ix);
    let name = format!("Transaction::{}", txcorpus::TX_KINDS[kind]);
    let fp = hash64(&("txsub", kind, ((ix[0] / 2) as u32).count_ones(), ix[1], ix[2], ix[3], ix[4]));
    check_tx_value(&tx, &name, Some(fp), &case, acc)
}

// ------------------------------------------------------------------ D. JSON-tree leaf edits

#[derive(Clone, Copy, Debug, PartialEq, Eq)]
enum LeafKind {
    Num,
    Id,
    Dep,
}

#[derive(Clone, Debug)]
struct JLeaf {
    ptr: String,
    kind: LeafKind,
}

#[derive(Clone, Debug)]
struct Edit {
    ptr: String,
    kind: LeafKind,
    /// Num: the number; Id: the hex string; Dep: the variant name
    set: Value,
}

const DEP_VARIANTS: [&str; 2] = ["LightOperation", "HeavyOperation"];
const DEP_UNIT_FIELD: [&str; 2] = ["units_per_gas", "gas_per_unit"];

fn is_hex64(s: &str) -> bool {
    s.len() == 64 && s.bytes().all(|b| b.is_ascii_hexdigit())
}

fn walk(v: &Value, ptr: &mut String, out: &mut Vec<JLeaf>) {
    match v {
        Value::Number(_) => out.push(JLeaf { ptr: ptr.clone(), kind: LeafKind::Num }),
        Value::String(s) if is_hex64(s) => out.push(JLeaf { ptr: ptr.clone(), kind: LeafKind::Id }),
        Value::Object(m) => {
            if m.len() == 1 && DEP_VARIANTS.contains(&m.keys().next().map(|k| k.as_str()).unwrap_or("")) {
                out.push(JLeaf { ptr: ptr.clone(), kind: LeafKind::Dep });
            }
            for (k, c) in m {
                let len = ptr.len();
                ptr.push('/');
                ptr.push_str(&k.replace('~', "~0").replace('/', "~1"));
                walk(c, ptr, out);
                ptr.truncate(len);
            }
        }
        Value::Array(a) => {
            for (i, c) in a.iter().enumerate() {
                let len = ptr.len();
                ptr.push('/');
                ptr.push_str(&i.to_string());
                walk(c, ptr, out);
                ptr.truncate(len);
            }
        }
        _ => {}
    }
}

fn leaves_of(v: &Value) -> Vec<JLeaf> {
    let mut out = Vec::new();
    walk(v, &mut String::new(), &mut out);
    out
}

const NUM6: [u64; 6] = [0, 1, u8::MAX as u64, u16::MAX as u64, u32::MAX as u64, u64::MAX];
const NUM4: [u64; 4] = [0, 1, u32::MAX as u64, u64::MAX];

fn domain(kind: LeafKind, nums: &[u64]) -> Vec<Value> {
    match kind {
        LeafKind::Num => nums.iter().map(|n| json!(n)).collect(),
        LeafKind::Id => vec![
            json!("00".repeat(32)),
            json!(hex::encode(txcorpus::id32(1, 0x5A))),
            json!("ff".repeat(32)),
        ],
        LeafKind::Dep => DEP_VARIANTS.iter().map(|s| json!(s)).collect(),
    }
}

/// Apply edits to a copy of `j0`: scalar leaves first, variant flips last (a flip renames
/// the path of the numbers below it).
fn apply(j0: &Value, edits: &[Edit]) -> Value {
    let mut j = j0.clone();
    for e in edits.iter().filter(|e| e.kind != LeafKind::Dep) {
        *j.pointer_mut(&e.ptr).expect("edit path exists") = e.set.clone();
    }
    for e in edits.iter().filter(|e| e.kind == LeafKind::Dep) {
        let node = j.pointer_mut(&e.ptr).expect("edit path exists");
        let obj = node.as_object().expect("dependent cost node");
        let (old_variant, inner) = obj.iter().next().expect("one variant");
        let old = DEP_VARIANTS.iter().position(|v| v == old_variant).expect("known variant");
        let new = DEP_VARIANTS.iter().position(|v| Some(*v) == e.set.as_str()).expect("known variant");
        let base = inner["base"].clone();
        let unit = inner[DEP_UNIT_FIELD[old]].clone();
        *node = json!({ DEP_VARIANTS[new]: { "base": base, DEP_UNIT_FIELD[new]: unit } });
    }
    j
}

fn edits_json(edits: &[Edit]) -> Value {
    Value::Array(
        edits
            .iter()
            .map(|e| {
                json!({"ptr": e.ptr, "kind": match e.kind { LeafKind::Num => "num", LeafKind::Id => "id", LeafKind::Dep => "dep" },
                       "set": match (&e.kind, &e.set) { (LeafKind::Num, v) => json!(v.as_u64().unwrap().to_string()), (_, v) => v.clone() }})
            })
            .collect(),
    )
}

fn edits_from_json(v: &Value) -> Vec<Edit> {
    v.as_array()
        .expect("edits")
        .iter()
        .map(|e| {
            let kind = match e["kind"].as_str() {
                Some("num") => LeafKind::Num,
                Some("id") => LeafKind::Id,
                _ => LeafKind::Dep,
            };
            let set = match kind {
                LeafKind::Num => json!(e["set"].as_str().expect("num as string").parse::<u64>().expect("u64")),
                _ => e["set"].clone(),
            };
            Edit { ptr: e["ptr"].as_str().expect("ptr").to_string(), kind, set }
        })
        .collect()
}

/// The typed parameter families explored through JSON-tree edits.
trait ParamType: Serialize + DeserializeOwned + PartialEq + std::fmt::Debug + Sized + Sync {
    const TYPE: &'static str;
    /// Base value by name (built with the subject's public constructors only).
    fn base(name: &str) -> Option<Self>;
    /// `Type::Variant` for keys.
    fn variant_name(&self) -> String;
    /// Name of a component that alone fails the round trip in `f`, if any.
    fn failing_component(&self, _f: Fmt) -> Option<String> {
        None
    }
    /// Extra oracle clauses (E).
    fn extra(&self, _full: bool, _case: &dyn Fn() -> Value, _acc: &mut Acc) {}
}

/// Variant name from the externally tagged JSON form (`{"V2": {...}}`).
fn json_variant<T: Serialize>(v: &T) -> String {
    match serde_json::to_value(v) {
        Ok(Value::Object(m)) if m.len() == 1 => m.keys().next().cloned().unwrap_or_default(),
        _ => String::new(),
    }
}

macro_rules! gas_table {
    ($($n:literal => $t:ident),*) => {
        const GAS_VERSIONS: &[usize] = &[$($n),*];
        fn gas_values(ver: usize, flavor: &str) -> Option<GasCostsValues> {
            match (ver, flavor) {
                $( ($n, "unit") => Some($t::unit().into()), ($n, "free") => Some($t::free().into()), )*
                (0, "default") => Some(GasCostsValues::default()),
                _ => None,
            }
        }
    };
}
gas_table!(1 => GasCostsValuesV1, 2 => GasCostsValuesV2, 3 => GasCostsValuesV3, 4 => GasCostsValuesV4,
           5 => GasCostsValuesV5, 6 => GasCostsValuesV6, 7 => GasCostsValuesV7);

/// "V3:unit" / "default"
fn gas_by_name(name: &str) -> Option<GasCostsValues> {
    if name == "default" {
        return gas_values(0, "default")
    }
    let (v, flavor) = name.split_once(':')?;
    gas_values(v.strip_prefix('V')?.parse().ok()?, flavor)
}

fn gas_base_names() -> Vec<String> {
    let mut v: Vec<String> = GAS_VERSIONS.iter().map(|n| format!("V{n}:unit")).collect();
    v.extend(GAS_VERSIONS.iter().map(|n| format!("V{n}:free")));
    v.push("default".to_string());
    v
}

impl ParamType for GasCostsValues {
    const TYPE: &'static str = "GasCostsValues";

    fn base(name: &str) -> Option<Self> {
        gas_by_name(name)
    }

    fn variant_name(&self) -> String {
        format!("GasCostsValues::{}", json_variant(self))
    }
}

impl ParamType for GasCosts {
    const TYPE: &'static str = "GasCosts";

    fn base(name: &str) -> Option<Self> {
        gas_by_name(name).map(GasCosts::new)
    }

    fn variant_name(&self) -> String {
        format!("GasCosts::{}", json_variant(self))
    }
}

impl ParamType for DependentCost {
    const TYPE: &'static str = "DependentCost";

    fn base(name: &str) -> Option<Self> {
        match name {
            "light" => Some(DependentCost::LightOperation { base: 7, units_per_gas: 9 }),
            "heavy" => Some(DependentCost::HeavyOperation { base: 7, gas_per_unit: 9 }),
            _ => None,
        }
    }

    fn variant_name(&self) -> String {
        format!("DependentCost::{}", json_variant(self))
    }
}

macro_rules! simple_param {
    ($t:ident, $($name:literal => $e:expr),*) => {
        impl ParamType for $t {
            const TYPE: &'static str = stringify!($t);

            fn base(name: &str) -> Option<Self> {
                match name { $( $name => Some($e), )* _ => None }
            }

            fn variant_name(&self) -> String {
                format!("{}::{}", stringify!($t), json_variant(self))
            }
        }
    };
}
simple_param!(TxParameters, "default" => TxParameters::DEFAULT);
simple_param!(PredicateParameters, "default" => PredicateParameters::DEFAULT);
simple_param!(ContractParameters, "default" => ContractParameters::DEFAULT);
simple_param!(FeeParameters, "default" => FeeParameters::DEFAULT);
simple_param!(ScriptParameters, "V1" => ScriptParameters::V1(ScriptParametersV1::DEFAULT), "V2" => ScriptParameters::V2(ScriptParametersV2::DEFAULT));

/// "cp=V2,script=V1,gas=V3:unit"
fn cp_base_name(cp: usize, script: usize, gas: &str) -> String {
    format!("cp=V{cp},script=V{script},gas={gas}")
}

impl ParamType for ConsensusParameters {
    const TYPE: &'static str = "ConsensusParameters";

    fn base(name: &str) -> Option<Self> {
        let mut parts = name.split(',');
        let cp = parts.next()?.strip_prefix("cp=V")?.parse::<usize>().ok()?;
        let script = parts.next()?.strip_prefix("script=V")?.parse::<usize>().ok()?;
        let gas = gas_by_name(parts.next()?.strip_prefix("gas=")?)?;
        let chain = fuel_types::ChainId::new(0x0102_0304_0506_0708);
        let mut p: ConsensusParameters = match cp {
            1 => ConsensusParametersV1::standard_with_id(chain).into(),
            2 => ConsensusParametersV2::standard_with_id(chain).into(),
            _ => return None,
        };
        p.set_script_params(match script {
            1 => ScriptParameters::V1(ScriptParametersV1::DEFAULT),
            2 => ScriptParameters::V2(ScriptParametersV2::DEFAULT),
            _ => return None,
        });
        p.set_gas_costs(GasCosts::new(gas));
        p.set_base_asset_id(txcorpus::id32(1, 0x11).into());
        p.set_privileged_address(txcorpus::id32(1, 0x22).into());
        Some(p)
    }

    fn variant_name(&self) -> String {
        format!("ConsensusParameters::{}", json_variant(self))
    }

    fn failing_component(&self, f: Fmt) -> Option<String> {
        let gas: &GasCostsValues = self.gas_costs();
        rt_one(gas, f).err().map(|_| gas.variant_name())
    }

    fn extra(&self, full: bool, case: &dyn Fn() -> Value, acc: &mut Acc) {
        upgrade_case(self, full, case, acc)
    }
}

fn cp_base_names() -> Vec<String> {
    let mut v = Vec::new();
    for flavor in ["unit", "free"] {
        for gas in GAS_VERSIONS {
            for cp in [1, 2] {
                for script in [1, 2] {
                    v.push(cp_base_name(cp, script, &format!("V{gas}:{flavor}")));
                }
            }
        }
    }
    v.push(cp_base_name(2, 2, "default"));
    v
}

/// One case of space D: base ⊕ edits.
fn params_case<T: ParamType>(base_name: &str, j0: &Value, edits: &[Edit], full: bool, fp: Option<u64>, acc: &mut Acc) -> Option<T> {
    let case = || json!({"space": "params", "type": T::TYPE, "base": base_name, "edits": edits_json(edits), "full": full});
    let j = apply(j0, edits);
    let x: T = match guard::catch_any(|| <T as serde::Deserialize>::deserialize(&j)) {
        Ok(Ok(x)) => x,
        Ok(Err(e)) => {
            acc.evals += 1;
            let small = edits.iter().all(|e| e.kind != LeafKind::Num || e.set.as_u64().map(|n| n <= 1).unwrap_or(false));
            if small {
                acc.outcome("params_edit_rejected");
                acc.viol(
                    format!("C06:{}:json:leaf-rejected", T::TYPE),
                    format!("{} base {base_name} with {} does not deserialize: {e}", T::TYPE, edits_json(edits)),
                    &case,
                );
            } else {
                acc.outcome("info_params_edit_outside_field_range");
            }
            return None
        }
        Err(m) => {
            acc.evals += 1;
            acc.viol(
                format!("C06:{}:json:panic", T::TYPE),
                format!("deserializing {} base {base_name} with {} panicked: {m}", T::TYPE, edits_json(edits)),
                &case,
            );
            return None
        }
    };
    let name = x.variant_name();
    // the edit must really be carried by the typed value
    match guard::catch_any(|| serde_json::to_value(&x)) {
        Ok(Ok(back)) if back == j => {}
        Ok(other) => {
            let component = x.failing_component(Fmt::Json).unwrap_or_else(|| name.clone());
            acc.viol(
                format!("C06:{component}:json:leaf-not-preserved"),
                format!(
                    "{} base {base_name} with {}: the deserialized value re-serializes to a different JSON tree ({})",
                    T::TYPE,
                    edits_json(edits),
                    match &other {
                        Ok(b) => first_json_difference(&j, b),
                        Err(e) => e.to_string(),
                    }
                ),
                &case,
            );
        }
        Err(m) => acc.viol(format!("C06:{name}:json:panic"), format!("to_value panicked: {m}"), &case),
    }
    let component = |f: Fmt| x.failing_component(f);
    rt_report(&x, &name, fp, &component, &case, acc);
    x.extra(full, &case, acc);
    Some(x)
}

fn first_json_difference(a: &Value, b: &Value) -> String {
    let la = leaves_of(a);
    for l in &la {
        if a.pointer(&l.ptr) != b.pointer(&l.ptr) && l.kind != LeafKind::Dep {
            return format!("at {}: expected {:?}, got {:?}", l.ptr, a.pointer(&l.ptr), b.pointer(&l.ptr))
        }
    }
    for l in leaves_of(b) {
        if a.pointer(&l.ptr).is_none() {
            return format!("extra leaf {}", l.ptr)
        }
    }
    "structure differs".to_string()
}

struct ParamBase {
    name: String,
    j0: Value,
    leaves: Vec<JLeaf>,
}

fn param_base<T: ParamType>(name: &str, acc: &mut Acc) -> Option<ParamBase> {
    let v = T::base(name).unwrap_or_else(|| panic!("unknown base {name} of {}", T::TYPE));
    // the constructor-built value itself, unedited
    params_plain::<T>(name, &v, acc);
    let j0 = serde_json::to_value(&v).ok()?;
    let leaves = leaves_of(&j0);
    Some(ParamBase { name: name.to_string(), j0, leaves })
}

/// The base value exactly as the subject's constructor built it (no JSON involved in
/// producing the value under test).
fn params_plain<T: ParamType>(base_name: &str, v: &T, acc: &mut Acc) {
    let case = || json!({"space": "params", "type": T::TYPE, "base": base_name, "edits": [], "full": true, "plain": true});
    let name = v.variant_name();
    let component = |f: Fmt| v.failing_component(f);
    rt_report(v, &name, None, &component, &case, acc);
    v.extra(true, &case, acc);
}

/// Star: every leaf through its whole domain, one at a time.
fn params_star<T: ParamType>(ctx: &Ctx, b: &ParamBase) -> u64 {
    let mut cases = Vec::new();
    for l in &b.leaves {
        for v in domain(l.kind, &NUM6) {
            cases.push(Edit { ptr: l.ptr.clone(), kind: l.kind, set: v });
        }
    }
    let n = cases.len() as u64;
    space::par_chunks(
        n,
        64,
        Acc::default,
        |i, acc| {
            params_case::<T>(&b.name, &b.j0, std::slice::from_ref(&cases[i as usize]), true, None, acc);
        },
        |acc| acc.flush(ctx),
    );
    n
}

/// Pairs: every unordered leaf pair × the product of the two domains.
fn params_pairs<T: ParamType>(ctx: &Ctx, b: &ParamBase, nums: &[u64]) -> u64 {
    let n = b.leaves.len() as u64;
    let pairs: Vec<(usize, usize)> = (0..n as usize).flat_map(|i| (i + 1..n as usize).map(move |j| (i, j))).collect();
    let doms: Vec<Vec<Value>> = b.leaves.iter().map(|l| domain(l.kind, nums)).collect();
    let total: u64 = pairs.iter().map(|(i, j)| (doms[*i].len() * doms[*j].len()) as u64).sum();
    let mut done = 0u64;
    let seg = 4096usize;
    for chunk in pairs.chunks(seg) {
        if ctx.out_of_time() {
            ctx.cap(format!("pair edits of {} base {} cut short by the time budget after {done} of {total} cases", T::TYPE, b.name));
            return done
        }
        space::par_chunks(
            chunk.len() as u64,
            16,
            Acc::default,
            |k, acc| {
                let (i, j) = chunk[k as usize];
                let (li, lj) = (&b.leaves[i], &b.leaves[j]);
                // a variant flip combined with a number below the same node is the pair
                // (flip, number) — both edits stay meaningful, `apply` orders them
                let fp = hash64(&(T::TYPE, &b.name, i, j));
                for vi in &doms[i] {
                    for vj in &doms[j] {
                        let edits = [
                            Edit { ptr: li.ptr.clone(), kind: li.kind, set: vi.clone() },
                            Edit { ptr: lj.ptr.clone(), kind: lj.kind, set: vj.clone() },
                        ];
                        params_case::<T>(&b.name, &b.j0, &edits, false, Some(fp), acc);
                    }
                }
            },
            |acc| acc.flush(ctx),
        );
        done += chunk.iter().map(|(i, j)| (doms[*i].len() * doms[*j].len()) as u64).sum::<u64>();
    }
    done
}

// ------------------------------------------------------------------ E. upgrade payload

fn upgrade_shells() -> Vec<(Policies, Vec<fuel_tx::Input>, Vec<fuel_tx::Output>, Vec<Witness>)> {
    vec![
        (Policies::new(), vec![], vec![], vec![]),
        (
            txcorpus::policies_tx_at(63 * 2),
            vec![txcorpus::base_input(0, 0), txcorpus::base_input(4, 1)],
            vec![txcorpus::base_output(0, 0), txcorpus::base_output(2, 1)],
            txcorpus::witness_list(txcorpus::seq2_index(10, &[3, 8])),
        ),
    ]
}

fn upgrade_case(p: &ConsensusParameters, full: bool, case: &dyn Fn() -> Value, acc: &mut Acc) {
    use field::{
        UpgradePurpose as _,
        Witnesses as _,
    };
    let expect = match postcard::to_stdvec(p) {
        Ok(b) => b,
        Err(_) => return, // reported by the round-trip clause
    };
    let expect_sum: [u8; 32] = sha256(&[&expect]);
    let shells = upgrade_shells();
    let shells = if full { &shells[..] } else { &shells[..1] };
    for (si, (pol, ins, outs, wits)) in shells.iter().enumerate() {
        acc.evals += 1;
        let n_before = wits.len();
        let built = guard::catch_any(|| {
            Transaction::upgrade_consensus_parameters(p, *pol, ins.clone(), outs.clone(), wits.clone())
        });
        let tx = match built {
            Ok(Ok(tx)) => tx,
            Ok(Err(e)) => {
                acc.viol("C06:Upgrade:construct".into(), format!("upgrade_consensus_parameters failed: {e:?} for {}", short(p)), case);
                continue
            }
            Err(m) => {
                acc.viol("C06:Upgrade:panic".into(), format!("upgrade_consensus_parameters panicked: {m}"), case);
                continue
            }
        };
        let mut ok = true;
        match tx.upgrade_purpose() {
            UpgradePurpose::ConsensusParameters { witness_index, checksum } => {
                let w = tx.witnesses().get(*witness_index as usize);
                if *witness_index as usize != n_before || w.map(|w| w.as_vec().as_slice()) != Some(&expect[..]) {
                    ok = false;
                    acc.viol(
                        "C06:Upgrade:witness".into(),
                        format!(
                            "shell {si}: witness #{witness_index} of the upgrade transaction is {} but postcard(parameters) is {}",
                            w.map(|w| hex_head(w.as_vec())).unwrap_or_else(|| "missing".into()),
                            hex_head(&expect)
                        ),
                        case,
                    );
                }
                if checksum.as_ref() != &expect_sum[..] {
                    ok = false;
                    acc.viol(
                        "C06:Upgrade:checksum".into(),
                        format!("shell {si}: committed checksum {checksum:x} != sha256(postcard(parameters)) {}", hex::encode(expect_sum)),
                        case,
                    );
                }
            }
            other => {
                ok = false;
                acc.viol("C06:Upgrade:witness".into(), format!("unexpected purpose {other:?}"), case);
            }
        }
        match guard::catch_any(|| UpgradeMetadata::compute(&tx)) {
            Ok(Ok(UpgradeMetadata::ConsensusParameters {
                consensus_parameters,
                calculated_checksum,
            })) => {
                if &*consensus_parameters != p {
                    ok = false;
                    acc.viol(
                        "C06:Upgrade:metadata-value".into(),
                        format!("shell {si}: parameters decoded from the upgrade payload differ from the committed ones: {}", short(&consensus_parameters)),
                        case,
                    );
                }
                if calculated_checksum.as_ref() != &expect_sum[..] {
                    ok = false;
                    acc.viol(
                        "C06:Upgrade:metadata-checksum".into(),
                        format!("shell {si}: calculated checksum {calculated_checksum:x} != sha256 of the payload {}", hex::encode(expect_sum)),
                        case,
                    );
                }
                match postcard::to_stdvec(&*consensus_parameters) {
                    Ok(b) if b == expect => {}
                    other => {
                        ok = false;
                        acc.viol(
                            "C06:Upgrade:reserialize".into(),
                            format!(
                                "shell {si}: the decoded payload re-serializes to {} instead of the payload {}",
                                other.map(|b| hex_head(&b)).unwrap_or_else(|e| e.to_string()),
                                hex_head(&expect)
                            ),
                            case,
                        );
                    }
                }
            }
            Ok(other) => {
                ok = false;
                acc.viol(
                    "C06:Upgrade:metadata-error".into(),
                    format!("shell {si}: UpgradeMetadata::compute on the freshly built upgrade gave {}", short(&other)),
                    case,
                );
            }
            Err(m) => {
                ok = false;
                acc.viol("C06:Upgrade:panic".into(), format!("UpgradeMetadata::compute panicked: {m}"), case);
            }
        }
        if ok {
            acc.outcome("upgrade_payload_reproducible");
        } else {
            acc.outcome("upgrade_payload_failed");
        }
        if full {
            // the upgrade transaction carrying the payload is itself a transaction value
            let t: Transaction = tx.into();
            check_tx_value(&t, "Transaction::Upgrade(ConsensusParameters)", Some(hash64(&("upg", si, &expect))), case, acc);
        }
    }
}

// ------------------------------------------------------------------ driver

fn explore_params<T: ParamType>(ctx: &Ctx, bases: &[String], pair_bases: &[String], nums: &[u64], report: &mut serde_json::Map<String, Value>) {
    let mut star = 0u64;
    let mut pairs = 0u64;
    let mut leaf_counts = BTreeMap::new();
    let mut built = Vec::new();
    // stars of every base first, the (much larger) pair spaces afterwards
    for name in bases {
        let mut acc = Acc::default();
        let b = param_base::<T>(name, &mut acc);
        acc.flush(ctx);
        let Some(b) = b else { continue };
        leaf_counts.insert(
            name.clone(),
            json!({"numbers": b.leaves.iter().filter(|l| l.kind == LeafKind::Num).count(),
                   "ids": b.leaves.iter().filter(|l| l.kind == LeafKind::Id).count(),
                   "dependent_cost_nodes": b.leaves.iter().filter(|l| l.kind == LeafKind::Dep).count()}),
        );
        star += params_star::<T>(ctx, &b);
        if pair_bases.contains(name) {
            built.push(b);
        }
    }
    for b in &built {
        pairs += params_pairs::<T>(ctx, b, nums);
    }
    report.insert(
        T::TYPE.to_string(),
        json!({"bases": bases.len(), "pair_bases": pair_bases, "star_cases": star, "pair_cases": pairs,
               "pair_numeric_domain": nums.iter().map(|n| n.to_string()).collect::<Vec<_>>(), "json_leaves_per_base": leaf_counts}),
    );
}

/// Versions the deserializer knows, discovered through the `serde(default)` on the
/// versioned tables: `{"Vn": {}}` deserializes for every existing n.
fn discover_gas_versions() -> Vec<usize> {
    (1..=64)
        .take_while(|n| serde_json::from_value::<GasCostsValues>(json!({ format!("V{n}"): {} })).is_ok())
        .collect()
}

fn explore(ctx: &Ctx) {
    ctx.rule(
        "mixed-radix enumeration of every value of each leaf type, all 10,000 in-domain policy sets, the transaction \
         corpus TX(2) (star; thorough: + the 5.4 M policies×inputs×outputs sub-product), and consensus-parameter \
         values reached by overwriting every JSON leaf of every constructor-built base (star, and all leaf pairs); \
         each value is taken through serde_json, postcard and bincode (one evaluation per value and format). A case is \
         non-trivial when all three formats serialized, deserialized to an equal value and re-serialized to the same \
         bytes; distinct = distinct (type, postcard encoding) — for pair edits distinct (base, leaf pair), for the \
         thorough tx sub-product distinct (kind, #policies, input list, output list, witness point, body point)",
    );
    ctx.assume("values are built through public constructors; parameter values additionally through serde_json::from_value of an edited JSON tree, and the typed value must re-serialize to exactly that tree");
    ctx.assume("equality is the type's own Eq (ignores tx metadata, receipt payload `data`, panic contract id); byte reproducibility covers the ignored serialized fields");
    ctx.set(
        "dont_care",
        json!([
            "the concrete byte layout of any format (only round trip and reproducibility are demanded)",
            "JSON leaf values above a narrower field's range (u16/u32 fields): deserialization may reject them — info_params_edit_outside_field_range",
            "Policies with maturity/expiration > u32::MAX (not representable through canonical decoding; serde accepts any word) are not enumerated",
            "whether UpgradeMetadata::compute rejects a wrong checksum (C19/C35 territory)",
            "postcard/bincode trailing bytes",
        ]),
    );
    let lens = ctx.pick(Lens::L, Lens::Lbig);
    ctx.set("formats", json!(["json", "postcard", "bincode"]));
    ctx.set(
        "classes",
        json!({"lengths": lens.values(), "words": ["0", "1", "pattern(pos)", "u64::MAX"], "ids": ["00..", "pattern(pos)", "ff.."],
               "json_number_leaf_star": NUM6.iter().map(|n| n.to_string()).collect::<Vec<_>>(),
               "json_id_leaf": ["00..", "pattern", "ff.."], "dependent_cost_node": DEP_VARIANTS}),
    );

    // ---- A. leaf types
    let mut leaf_counts = serde_json::Map::new();
    for leaf in Leaf::all() {
        let n = txcorpus::leaf_count(leaf, lens, false);
        leaf_counts.insert(leaf.name(), json!(n));
        space::par_chunks(
            n,
            4096,
            Acc::default,
            |i, acc| {
                check_leaf(leaf, lens, i, acc);
            },
            |acc| acc.flush(ctx),
        );
    }
    ctx.set("leaf_counts", Value::Object(leaf_counts));
    {
        let leaf = Leaf::Input(6);
        let idx = txcorpus::leaf_count(leaf, lens, false) - 1;
        let mut acc = Acc::default();
        if check_leaf(leaf, lens, idx, &mut acc).is_some() {
            if let LeafValue::Input(v) = txcorpus::leaf_at(leaf, lens, false, idx) {
                ctx.sample(json!({"leaf": leaf.name(), "idx": idx, "value": short(&v),
                    "json": Fmt::Json.show(&Fmt::Json.ser(&v).unwrap_or_default()),
                    "postcard_len": Fmt::Postcard.ser(&v).map(|b| b.len()).unwrap_or(0),
                    "bincode_len": Fmt::Bincode.ser(&v).map(|b| b.len()).unwrap_or(0), "verdict": "round-trips in all three formats"}));
            }
        }
        let leaf = Leaf::Receipt(3);
        let idx = txcorpus::leaf_count(leaf, lens, false) - 2;
        let mut acc = Acc::default();
        if check_leaf(leaf, lens, idx, &mut acc).is_some() {
            if let LeafValue::Receipt(v) = txcorpus::leaf_at(leaf, lens, false, idx) {
                ctx.sample(json!({"leaf": leaf.name(), "idx": idx, "value": short(&v),
                    "json": Fmt::Json.show(&Fmt::Json.ser(&v).unwrap_or_default()), "verdict": "round-trips in all three formats"}));
            }
        }
    }

    // ---- B. policies
    let all = txcorpus::policies_all();
    space::par_chunks(
        all.len() as u64,
        256,
        Acc::default,
        |i, acc| {
            check_policies(i, &all[i as usize], acc);
        },
        |acc| acc.flush(ctx),
    );
    ctx.set(
        "policies",
        json!({"in_domain": all.len(), "masks": 64,
               "legacy_layout_masks": (0u32..64).filter(|m| m & !0b1111 == 0).count(),
               "compact_layout_masks": (0u32..64).filter(|m| m & !0b1111 != 0).count()}),
    );
    {
        let p = &all[all.len() - 1];
        ctx.sample(json!({"policies_idx": all.len() - 1, "value": short(p), "layout": policies_layout(p),
            "json": Fmt::Json.show(&Fmt::Json.ser(p).unwrap_or_default()),
            "postcard": hex_head(&Fmt::Postcard.ser(p).unwrap_or_default()),
            "bincode": hex_head(&Fmt::Bincode.ser(p).unwrap_or_default()), "verdict": "round-trips in all three formats"}));
        // mask = Owner only: the newest entry alone
        let owner_only = all.iter().position(|p| p.bits() == 0b100000 && p.get(fuel_tx::policies::PolicyType::Owner) == Some(1)).unwrap_or(0);
        let p = &all[owner_only];
        ctx.sample(json!({"policies_idx": owner_only, "value": short(p), "layout": policies_layout(p),
            "json": Fmt::Json.show(&Fmt::Json.ser(p).unwrap_or_default()),
            "postcard": hex_head(&Fmt::Postcard.ser(p).unwrap_or_default()), "verdict": "round-trips in all three formats"}));
    }

    // ---- C. transactions
    let star_n = txcorpus::tx_count(CorpusLevel::Star);
    space::par_chunks(
        star_n,
        32,
        Acc::default,
        |i, acc| {
            check_tx_star(i, acc);
        },
        |acc| acc.flush(ctx),
    );
    ctx.set(
        "tx_star",
        json!({"count": star_n, "kinds": txcorpus::TX_KINDS, "plus": "Mint", "dims": txcorpus::DIM_NAMES,
               "dim_sizes_per_kind": (0..6).map(txcorpus::tx_dims).collect::<Vec<_>>()}),
    );
    {
        let rich = (0..star_n)
            .find(|i| {
                txcorpus::tx_point(CorpusLevel::Star, *i)
                    == txcorpus::TxPoint::Chargeable { kind: 0, ix: txcorpus::base_points(0)[1] }
            })
            .unwrap_or(0);
        let mut acc = Acc::default();
        if let Some(pc) = check_tx_star(rich, &mut acc) {
            let tx = txcorpus::tx_at(CorpusLevel::Star, rich);
            ctx.sample(json!({"tx": txcorpus::tx_point(CorpusLevel::Star, rich).describe(), "idx": rich,
                "json_len": Fmt::Json.ser(&tx).map(|b| b.len()).unwrap_or(0), "postcard_len": pc.len(),
                "bincode_len": Fmt::Bincode.ser(&tx).map(|b| b.len()).unwrap_or(0),
                "postcard_head": hex_head(&pc), "verdict": "round-trips in all three formats"}));
        }
    }

    // ---- thorough: tx sub-product
    if ctx.thorough() {
        let total = tx_sub_count();
        let seg: u64 = 1 << 18;
        let mut done = 0u64;
        while done < total {
            if ctx.out_of_time() {
                ctx.cap(format!("tx sub-product cut short by the time budget after {done} of {total} transactions"));
                break
            }
            let n = seg.min(total - done);
            let base = done;
            space::par_chunks(
                n,
                2048,
                Acc::default,
                |i, acc| {
                    check_tx_sub(base + i, acc);
                },
                |acc| acc.flush(ctx),
            );
            done += n;
        }
        ctx.set("tx_sub_product", json!({"count": total, "completed": done, "witness_points": SUB_W, "body_points": 2}));
    }

    // ---- D + E. consensus parameters
    let discovered = discover_gas_versions();
    ctx.set(
        "gas_cost_versions",
        json!({"explicit_constructors": GAS_VERSIONS, "discovered_through_deserializer": discovered}),
    );
    if discovered.len() != GAS_VERSIONS.len() {
        ctx.cap(format!(
            "the deserializer knows GasCostsValues versions {discovered:?} but the harness builds bases only for {GAS_VERSIONS:?}: \
             add the new version to gas_table! in c06.rs"
        ));
    }
    let mut report = serde_json::Map::new();
    let latest = *GAS_VERSIONS.last().unwrap();
    let cp_all = cp_base_names();
    let cp_pairs: Vec<String> = if ctx.quick() {
        vec![cp_base_name(1, 1, "V1:unit"), cp_base_name(2, 2, "default")]
    } else {
        let mut v: Vec<String> = Vec::new();
        for gas in GAS_VERSIONS {
            v.push(cp_base_name(1, 1, &format!("V{gas}:unit")));
            v.push(cp_base_name(2, 2, &format!("V{gas}:unit")));
        }
        v.push(cp_base_name(2, 2, "default"));
        v
    };
    let nums: &[u64] = if ctx.quick() { &NUM4 } else { &NUM6 };
    explore_params::<DependentCost>(ctx, &["light".into(), "heavy".into()], &["light".into(), "heavy".into()], &NUM6, &mut report);
    let one = vec!["default".to_string()];
    explore_params::<TxParameters>(ctx, &one, &one, &NUM6, &mut report);
    explore_params::<PredicateParameters>(ctx, &one, &one, &NUM6, &mut report);
    explore_params::<ContractParameters>(ctx, &one, &one, &NUM6, &mut report);
    explore_params::<FeeParameters>(ctx, &one, &one, &NUM6, &mut report);
    let sv = vec!["V1".to_string(), "V2".to_string()];
    explore_params::<ScriptParameters>(ctx, &sv, &sv, &NUM6, &mut report);
    let gas_all = gas_base_names();
    let gas_pairs: Vec<String> = if ctx.quick() {
        vec![]
    } else {
        gas_all.iter().filter(|n| n.ends_with(":unit") || *n == "default").cloned().collect()
    };
    explore_params::<GasCostsValues>(ctx, &gas_all, &gas_pairs, nums, &mut report);
    explore_params::<GasCosts>(ctx, &[format!("V{latest}:unit"), "default".into()], &[], nums, &mut report);
    explore_params::<ConsensusParameters>(ctx, &cp_all, &cp_pairs, nums, &mut report);
    ctx.set("parameter_spaces", Value::Object(report));
    {
        // sample: one single-leaf edit with the upgrade payload written out
        let base = cp_base_name(2, 2, "default");
        let mut acc = Acc::default();
        if let Some(b) = param_base::<ConsensusParameters>(&base, &mut acc) {
            if let Some(l) = b.leaves.iter().find(|l| l.ptr.ends_with("/block_transaction_size_limit")) {
                let e = Edit { ptr: l.ptr.clone(), kind: l.kind, set: json!(u64::MAX) };
                if let Some(p) = params_case::<ConsensusParameters>(&base, &b.j0, std::slice::from_ref(&e), true, None, &mut acc) {
                    let pc = postcard::to_stdvec(&p).unwrap_or_default();
                    ctx.sample(json!({"type": "ConsensusParameters", "base": base, "edit": edits_json(&[e]),
                        "postcard_len": pc.len(), "json_len": Fmt::Json.ser(&p).map(|b| b.len()).unwrap_or(0),
                        "bincode_len": Fmt::Bincode.ser(&p).map(|b| b.len()).unwrap_or(0),
                        "upgrade_checksum_sha256_of_postcard": hex::encode(sha256(&[&pc])),
                        "verdict": if acc.viols.is_empty() { "round-trips; upgrade payload reproducible" } else { "failed" }}));
                }
            }
        }
    }

}

fn replay_params<T: ParamType>(case: &Value, acc: &mut Acc) {
    let base = case["base"].as_str().expect("base");
    let v = T::base(base).expect("known base");
    if case["plain"].as_bool().unwrap_or(false) {
        params_plain::<T>(base, &v, acc);
        return
    }
    let j0 = serde_json::to_value(&v).expect("base serializes");
    let edits = edits_from_json(&case["edits"]);
    params_case::<T>(base, &j0, &edits, case["full"].as_bool().unwrap_or(true), None, acc);
}

fn replay(case: &Value, ctx: &Ctx) {
    let mut acc = Acc::default();
    match case["space"].as_str() {
        Some("leaf") => {
            let leaf = Leaf::from_name(case["leaf"].as_str().expect("leaf")).expect("known leaf");
            let lens = Lens::from_name(case["lens"].as_str().unwrap_or("L"));
            check_leaf(leaf, lens, case["idx"].as_u64().expect("idx"), &mut acc);
        }
        Some("policies") => {
            let idx = case["idx"].as_u64().expect("idx");
            check_policies(idx, &txcorpus::policies_all()[idx as usize], &mut acc);
        }
        Some("tx") => {
            check_tx_star(case["idx"].as_u64().expect("idx"), &mut acc);
        }
        Some("tx_sub") => {
            check_tx_sub(case["idx"].as_u64().expect("idx"), &mut acc);
        }
        Some("params") => match case["type"].as_str().expect("type") {
            "ConsensusParameters" => replay_params::<ConsensusParameters>(case, &mut acc),
            "GasCostsValues" => replay_params::<GasCostsValues>(case, &mut acc),
            "GasCosts" => replay_params::<GasCosts>(case, &mut acc),
            "DependentCost" => replay_params::<DependentCost>(case, &mut acc),
            "TxParameters" => replay_params::<TxParameters>(case, &mut acc),
            "PredicateParameters" => replay_params::<PredicateParameters>(case, &mut acc),
            "ContractParameters" => replay_params::<ContractParameters>(case, &mut acc),
            "FeeParameters" => replay_params::<FeeParameters>(case, &mut acc),
            "ScriptParameters" => replay_params::<ScriptParameters>(case, &mut acc),
            other => panic!("unknown parameter type {other}"),
        },
        other => panic!("unknown space {other:?}"),
    }
    acc.flush(ctx);
}

fn main() {
    run_check("C06", Level::Exploration, explore, replay)
}
