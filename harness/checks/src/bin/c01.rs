//! C01 — Canonical encoding round-trips and reports its own size.
//!
//! Space (bounded exhaustive enumeration, no sampling; generators in `../txcorpus.rs`):
//!  * every leaf protocol type as the FULL product of its fields' classes
//!    (words {0,1,pattern,MAX}, ids {00..,pattern,ff..}, byte vectors of every length in
//!    L = 0..=9 — thorough: Lbig = L ∪ {15,16,17,255,256,257}): 7 input kinds, 5 output
//!    kinds, 13 receipt kinds, StorageSlot, UtxoId, TxPointer, Witness, both
//!    UpgradePurpose variants, Mint;
//!  * Policies: all 64 masks × all combinations of in-domain value classes (10,000);
//!  * length boundary: a Witness (thorough: also a CoinPredicate predicate_data and a
//!    Script script_data) of exactly VEC_DECODE_LIMIT-1 and VEC_DECODE_LIMIT bytes (the
//!    longest vector the decoder accepts must also be encodable; exact-buffer decode
//!    only, run one at a time); VEC_DECODE_LIMIT+1 is recorded only;
//!  * transactions: quick = star sub-product of TX(2) (each dimension over its full
//!    domain at two base points, all input-kind × output-kind pairs, every kind) with and
//!    without precomputed metadata; thorough = the full product 6 kinds ×
//!    policies(128) × input lists(57) × output lists(31) × witness lists(111) × 2 body
//!    points (301 M transactions; the body dimension is exhausted by the star level).
//!
//! Oracle (per value v of type T), straight from the statement:
//!  1. `v.to_bytes()` does not panic; its length == `v.size()` == size_static+size_dynamic,
//!     is a multiple of 8, and equals the length written down independently from the
//!     tx-format tables (`txcorpus::spec_len_*`);
//!  2. `T::decode` on (encoding ++ 16 sentinel bytes) returns Ok, consumes exactly the
//!     encoding, and the value equals v; `T::from_bytes(encoding)` agrees.
//!     Equality ignores exactly the exempt fields: receipt payload `data` and panic
//!     `contract_id` (the type's own `Eq` ignores them), transaction metadata (ditto),
//!     and the panic *reason* (masked here: `PanicInstruction`'s `Eq` compares it).
//!
//! Keys: `C01:<Type::Variant>:<class>` with class in {panic, size, alignment, spec-length,
//! decode-error, consumed, value}. Inputs in the wire-format ambiguity class of
//! DESIGN.md §7 F2 (predicate variant with empty predicate / message-data variant with
//! empty data) get ONE round-trip key per (variant, empty field):
//! `C01:Input::CoinPredicate:predicate.len=0` etc.; their size/alignment checks keep
//! the ordinary keys, so only the known ambiguity is absorbed by a known-finding entry.

#[path = "../txcorpus.rs"]
mod txcorpus;

use fuel_tx::{
    policies::Policies,
    Cacheable,
    FormatValidityChecks,
    Receipt,
    Transaction,
};
use fuel_types::{
    canonical::{
        Deserialize,
        Serialize,
        VEC_DECODE_LIMIT,
    },
    ChainId,
};
use std::collections::{
    BTreeMap,
    HashSet,
};
use txcorpus::{
    CorpusLevel,
    Leaf,
    LeafValue,
    Lens,
};
use vcore::{
    guard,
    json,
    run::hash64,
    run_check,
    space,
    Ctx,
    Level,
    Value,
};

// ------------------------------------------------------------------ accumulator

#[derive(Default)]
struct Acc {
    evals: u64,
    fps: HashSet<u64>,
    outcomes: BTreeMap<String, u64>,
    /// first violation per key (in enumeration order) + number of occurrences
    viols: BTreeMap<String, (String, Value, u64)>,
    /// ~100 MiB values: decode the exact buffer once (no sentinel copy, no second decode)
    lean: bool,
}

impl Acc {
    fn outcome(&mut self, label: &str) {
        *self.outcomes.entry(label.to_string()).or_insert(0) += 1;
    }

    fn viol(&mut self, key: String, what: &dyn Fn() -> String, case: &dyn Fn() -> Value) {
        match self.viols.get_mut(&key) {
            Some(e) => e.2 += 1,
            None => {
                self.viols.insert(key, (what(), case(), 1));
            }
        }
    }

    /// Merge into the context (called sequentially in chunk order => deterministic).
    fn flush(self, ctx: &Ctx) {
        ctx.evals(self.evals);
        ctx.fps_merge(self.fps);
        ctx.outcomes_merge(&self.outcomes);
        for (key, (what, case, n)) in self.viols {
            ctx.violation(key.clone(), what, case);
            for _ in 1..n {
                ctx.violation(key.clone(), "", Value::Null);
            }
        }
    }
}

// ------------------------------------------------------------------ the oracle

fn short<T: std::fmt::Debug>(t: &T) -> String {
    let s = format!("{t:?}");
    if s.len() > 400 {
        format!("{}…", &s[..400])
    } else {
        s
    }
}

const SENTINEL: [u8; 16] = [0xA5; 16];

/// Check one value. `name` = `Type::Variant`; `f2` = ambiguity class if the value is in one.
#[allow(clippy::too_many_arguments)]
fn check_value<T>(
    v: &T,
    name: &str,
    spec_len: usize,
    eqv: &dyn Fn(&T, &T) -> bool,
    f2: Option<&str>,
    fp: Option<u64>,
    case: &dyn Fn() -> Value,
    acc: &mut Acc,
) -> Option<Vec<u8>>
where
    T: Serialize + Deserialize + std::fmt::Debug,
{
    acc.evals += 1;
    let key = |class: &str| format!("C01:{name}:{class}");

    // 1. encode + reported sizes
    let enc = guard::catch_any(|| (v.to_bytes(), v.size(), v.size_static(), v.size_dynamic()));
    let (bytes, size, ss, sd) = match enc {
        Ok(x) => x,
        Err(m) => {
            acc.outcome("encode_panicked");
            acc.viol(key("panic"), &|| format!("encoding {} panicked: {m}", short(v)), case);
            return None
        }
    };
    let mut ok = true;
    if bytes.len() != size || size != ss.saturating_add(sd) {
        ok = false;
        acc.viol(
            key("size"),
            &|| format!(
                "encoded {} bytes but size()={size} (size_static={ss}, size_dynamic={sd}) for {}",
                bytes.len(),
                short(v)
            ),
            case,
        );
    }
    if bytes.len() % 8 != 0 {
        ok = false;
        acc.viol(key("alignment"), &|| format!("encoded length {} is not word aligned for {}", bytes.len(), short(v)), case);
    }
    if bytes.len() != spec_len {
        ok = false;
        acc.viol(
            key("spec-length"),
            &|| format!("encoded {} bytes, the format tables give {spec_len} for {}", bytes.len(), short(v)),
            case,
        );
    }

    // 2. decode (with trailing sentinel, so over- and under-consumption are both visible)
    let rt_key = |class: &str| match f2 {
        Some(c) => key(c),
        None => key(class),
    };
    let ext_owned: Vec<u8>;
    let ext: &[u8] = if acc.lean {
        &bytes
    } else {
        let mut e = bytes.clone();
        e.extend_from_slice(&SENTINEL);
        ext_owned = e;
        &ext_owned
    };
    let dec = guard::catch_any(|| {
        let mut buf = &ext[..];
        let r = T::decode(&mut buf);
        (r, buf.len())
    });
    match dec {
        Err(m) => {
            ok = false;
            acc.viol(key("panic"), &|| format!("decoding the encoding of {} panicked: {m}", short(v)), case);
        }
        Ok((Err(e), _)) => {
            ok = false;
            acc.viol(
                rt_key("decode-error"),
                &|| format!("decoding the encoding of {} failed: {e:?}", short(v)),
                case,
            );
        }
        Ok((Ok(v2), rest)) => {
            let consumed = ext.len() - rest;
            if consumed != bytes.len() {
                ok = false;
                acc.viol(
                    rt_key("consumed"),
                    &|| format!(
                        "decoder consumed {consumed} of the {} encoded bytes of {} and returned {}",
                        bytes.len(),
                        short(v),
                        short(&v2)
                    ),
                    case,
                );
            } else if !eqv(v, &v2) {
                ok = false;
                acc.viol(
                    rt_key("value"),
                    &|| format!("decoded value {} differs from the original {}", short(&v2), short(v)),
                    case,
                );
            }
        }
    }
    // 3. exact buffer through the convenience entry point
    if ok && !acc.lean {
        match guard::catch_any(|| T::from_bytes(&bytes)) {
            Ok(Ok(v3)) if eqv(v, &v3) => {}
            Ok(other) => {
                ok = false;
                acc.viol(
                    rt_key("value"),
                    &|| format!("from_bytes(exact encoding) gave {} for {}", short(&other), short(v)),
                    case,
                );
            }
            Err(m) => {
                ok = false;
                acc.viol(key("panic"), &|| format!("from_bytes panicked: {m}"), case);
            }
        }
    }
    if ok {
        acc.outcome("roundtrip_ok");
        acc.fps.insert(fp.unwrap_or_else(|| hash64(&(name, &bytes))));
        Some(bytes)
    } else {
        acc.outcome(if f2.is_some() { "failed_known_ambiguity_class" } else { "failed" });
        None
    }
}

/// Receipt equality with the panic reason masked (everything else via the type's `Eq`,
/// which already ignores `data` and the panic `contract_id`).
fn receipt_eq(a: &Receipt, b: &Receipt) -> bool {
    match (a, b) {
        (
            Receipt::Panic {
                id: i1,
                reason: r1,
                pc: p1,
                is: s1,
                ..
            },
            Receipt::Panic {
                id: i2,
                reason: r2,
                pc: p2,
                is: s2,
                ..
            },
        ) => i1 == i2 && r1.instruction() == r2.instruction() && p1 == p2 && s1 == s2,
        _ => a == b,
    }
}

fn plain_eq<T: PartialEq>(a: &T, b: &T) -> bool {
    a == b
}

fn check_leaf(leaf: Leaf, lens: Lens, idx: u64, acc: &mut Acc) -> Option<Vec<u8>> {
    let name = leaf.name();
    let case = || json!({"space": "leaf", "leaf": leaf.name(), "lens": lens.name(), "idx": idx});
    match txcorpus::leaf_at(leaf, lens, false, idx) {
        LeafValue::Input(v) => {
            let f2 = txcorpus::f2_class(&v);
            if f2.is_some() {
                acc.outcome("input_in_ambiguity_class");
            }
            check_value(&v, &name, txcorpus::spec_len_input(&v), &plain_eq, f2, None, &case, acc)
        }
        LeafValue::Output(v) => {
            check_value(&v, &name, txcorpus::spec_len_output(&v), &plain_eq, None, None, &case, acc)
        }
        LeafValue::Receipt(v) => {
            let r = check_value(&v, &name, txcorpus::spec_len_receipt(&v), &receipt_eq, None, None, &case, acc);
            if let Some(bytes) = &r {
                observe_exempt(&bytes[..], acc);
            }
            r
        }
        LeafValue::StorageSlot(v) => {
            check_value(&v, &name, txcorpus::SPEC_LEN_STORAGE_SLOT, &plain_eq, None, None, &case, acc)
        }
        LeafValue::UtxoId(v) => check_value(&v, &name, txcorpus::SPEC_LEN_UTXO_ID, &plain_eq, None, None, &case, acc),
        LeafValue::TxPointer(v) => {
            check_value(&v, &name, txcorpus::SPEC_LEN_TX_POINTER, &plain_eq, None, None, &case, acc)
        }
        LeafValue::Witness(v) => {
            check_value(&v, &name, txcorpus::spec_len_witness(&v), &plain_eq, None, None, &case, acc)
        }
        LeafValue::UpgradePurpose(v) => {
            check_value(&v, &name, txcorpus::spec_len_upgrade_purpose(&v), &plain_eq, None, None, &case, acc)
        }
        LeafValue::Mint(v) => {
            let tx: Transaction = v.into();
            check_value(&tx, &name, txcorpus::SPEC_LEN_MINT, &plain_eq, None, None, &case, acc)
        }
    }
}

/// Information only: do the exempt receipt fields decode to their defaults?
fn observe_exempt(bytes: &[u8], acc: &mut Acc) {
    if let Ok(Ok(r)) = guard::catch_any(|| Receipt::from_bytes(bytes)) {
        let default = match &r {
            Receipt::ReturnData { data, .. } | Receipt::LogData { data, .. } | Receipt::MessageOut { data, .. } => {
                Some(data.is_none())
            }
            Receipt::Panic {
                reason, contract_id, ..
            } => Some(contract_id.is_none() && *reason.reason() == fuel_tx::PanicReason::from(0u8)),
            _ => None,
        };
        match default {
            Some(true) => acc.outcome("info_exempt_fields_decoded_as_default"),
            Some(false) => acc.outcome("info_exempt_fields_decoded_as_non_default"),
            None => {}
        }
    }
}

/// Boundary family: byte vectors of length VEC_DECODE_LIMIT-1 and VEC_DECODE_LIMIT (the
/// largest the decoder accepts) must encode and round-trip like any other value; length
/// VEC_DECODE_LIMIT+1 is outside the wire domain and only recorded. ~100 MiB per value:
/// called sequentially, a handful of cases.
const BOUNDARY_FAMILIES: [&str; 3] =
    ["Witness", "Input::CoinPredicate.predicate_data", "Transaction::Script.script_data"];

fn boundary_len_name(n: usize) -> String {
    match n as i128 - VEC_DECODE_LIMIT as i128 {
        0 => "VEC_DECODE_LIMIT".to_string(),
        d if d < 0 => format!("VEC_DECODE_LIMIT{d}"),
        d => format!("VEC_DECODE_LIMIT+{d}"),
    }
}

fn check_boundary(family: &str, n: usize, acc: &mut Acc) {
    let case = || json!({"space": "boundary", "family": family, "idx": n});
    let ty = family.split('.').next().unwrap_or(family);
    let name = format!("{ty}:len={}", boundary_len_name(n));
    let fp = Some(hash64(&("boundary", family, n)));
    let payload = vec![0xABu8; n];
    let in_domain = n <= VEC_DECODE_LIMIT;
    acc.lean = true;
    // information only for lengths outside the wire domain: who refuses?
    fn info<T: Serialize + Deserialize>(v: &T, label: &str, acc: &mut Acc) {
        acc.evals += 1;
        let enc = guard::catch_any(|| {
            let mut buf = Vec::new();
            v.encode(&mut buf).map(|_| buf)
        });
        let what = match enc {
            Err(_) => "encode_panicked".to_string(),
            Ok(Err(e)) => format!("encode_refused({e:?})"),
            Ok(Ok(buf)) => match guard::catch_any(|| T::from_bytes(&buf)) {
                Err(_) => "encoded_then_decode_panicked".to_string(),
                Ok(Err(e)) => format!("encoded_then_decode_refused({e:?})"),
                Ok(Ok(_)) => "encoded_and_decoded".to_string(),
            },
        };
        acc.outcome(&format!("info_{label}:{what}"));
    }
    match family {
        "Witness" => {
            let v = fuel_tx::Witness::from(payload);
            if in_domain {
                check_value(&v, &name, txcorpus::spec_len_witness(&v), &plain_eq, None, fp, &case, acc);
            } else {
                info(&v, &name, acc);
            }
        }
        "Input::CoinPredicate.predicate_data" => {
            // non-empty predicate: outside the F2 ambiguity class
            let v = fuel_tx::Input::coin_predicate(
                Default::default(),
                Default::default(),
                1,
                Default::default(),
                Default::default(),
                2,
                vec![0x24],
                payload,
            );
            if in_domain {
                check_value(&v, &name, txcorpus::spec_len_input(&v), &plain_eq, None, fp, &case, acc);
            } else {
                info(&v, &name, acc);
            }
        }
        "Transaction::Script.script_data" => {
            let v: Transaction =
                Transaction::script(3, vec![0x24], payload, Policies::new(), vec![], vec![], vec![]).into();
            if in_domain {
                check_value(&v, &name, txcorpus::spec_len_tx(&v), &plain_eq, None, fp, &case, acc);
            } else {
                info(&v, &name, acc);
            }
        }
        other => panic!("unknown boundary family {other}"),
    }
    acc.lean = false;
}

fn check_policies(set: &str, idx: u64, p: &Policies, acc: &mut Acc) {
    let case = || json!({"space": "policies", "set": set, "idx": idx});
    if set == "out_of_domain" {
        // don't-care: values outside the wire domain. Recorded, never a violation.
        acc.evals += 1;
        let r = guard::catch_any(|| Policies::from_bytes(&p.to_bytes()));
        acc.outcome(match r {
            Ok(Err(_)) => "info_policies_out_of_domain_rejected_by_decoder",
            Ok(Ok(_)) => "info_policies_out_of_domain_accepted_by_decoder",
            Err(_) => "info_policies_out_of_domain_panicked",
        });
        return
    }
    check_value(p, "Policies", txcorpus::spec_len_policies(p), &plain_eq, None, None, &case, acc);
}

fn tx_shape_fp(point: &txcorpus::TxPoint, len: usize) -> u64 {
    match point {
        txcorpus::TxPoint::Chargeable { kind, ix } => {
            hash64(&("tx", *kind, ((ix[0] / 2) as u32).count_ones(), ix[1], ix[2], len))
        }
        txcorpus::TxPoint::Mint { idx } => hash64(&("mint", *idx)),
    }
}

fn check_tx(level: CorpusLevel, idx: u64, precomputed: bool, acc: &mut Acc) -> Option<Vec<u8>> {
    let case = || json!({"space": "tx", "level": level.name(), "idx": idx, "precomputed": precomputed});
    let point = txcorpus::tx_point(level, idx);
    let mut tx = point.build();
    let name = format!("Transaction::{}", point.kind_name());
    if precomputed {
        // cached metadata is exempt from equality; it must not change the encoding either
        match guard::catch_any(|| tx.precompute(&ChainId::new(7))) {
            Ok(Ok(())) => acc.outcome("precompute_ok"),
            Ok(Err(_)) => {
                acc.outcome("precompute_refused");
                return None
            }
            Err(_) => {
                acc.outcome("precompute_panicked_(not_this_property)");
                return None
            }
        }
    }
    let spec = txcorpus::spec_len_tx(&tx);
    let fp = match level {
        CorpusLevel::Star => None,
        CorpusLevel::Full => Some(tx_shape_fp(&point, spec)),
    };
    check_value(&tx, &name, spec, &plain_eq, None, fp, &case, acc)
}

// ------------------------------------------------------------------ driver

fn hex_head(b: &[u8]) -> String {
    let n = b.len().min(96);
    format!("{}{}", hex::encode(&b[..n]), if b.len() > n { "…" } else { "" })
}

fn sample_leaf(ctx: &Ctx, leaf: Leaf, lens: Lens, idx: u64) {
    let mut acc = Acc::default();
    if let Some(bytes) = check_leaf(leaf, lens, idx, &mut acc) {
        ctx.sample(json!({
            "leaf": leaf.name(), "lens": lens.name(), "idx": idx,
            "value": short(&txcorpus::leaf_at(leaf, lens, false, idx)),
            "encoded_len": bytes.len(), "encoded_head": hex_head(&bytes), "verdict": "round-trips",
        }));
    }
}

fn explore(ctx: &Ctx) {
    ctx.rule(
        "mixed-radix enumeration of every value of each leaf type over its field classes, all 10,000 in-domain \
         policy sets, and the transaction corpus TX(2) (star sub-product in quick, full product in thorough); a case \
         is non-trivial when the value encoded without panic, the decoder returned Ok, consumed exactly the encoding \
         and the value compared equal; distinct = distinct encodings (leaves, policies, star corpus) or distinct \
         (kind, #policies, input list, output list, encoded length) shapes (full product)",
    );
    ctx.assume("hand-written format-table lengths (txcorpus::spec_len_*) are a correct reading of the tx-format specification");
    ctx.assume("values are built through the public constructors only; TxPointer.tx_index is u16 (u32-tx-pointer feature off, as compiled)");
    ctx.set(
        "dont_care",
        json!([
            "whether exempt fields (receipt data, panic reason, panic contract id, metadata) decode to defaults — recorded as info_* outcomes",
            "Policies with maturity/expiration > u32::MAX (outside the wire domain; decoder rejects them) — recorded as info_* outcomes",
            "split of size() into size_static()/size_dynamic() beyond their sum",
            "validity of the enumerated transactions (C01 quantifies over all values)",
            "byte vectors longer than VEC_DECODE_LIMIT (outside the wire domain; who refuses them is recorded as info_* outcomes)",
        ]),
    );
    let lens = ctx.pick(Lens::L, Lens::Lbig);
    ctx.set(
        "classes",
        json!({"lengths": lens.values(), "words": ["0", "1", "pattern(pos)", "u64::MAX"], "ids": ["00..", "pattern(pos)", "ff.."],
               "nested_utxo_id_and_tx_pointer": ["all zero", "pattern", "all max"]}),
    );

    // ---- A. leaf types
    let mut leaf_counts = serde_json::Map::new();
    for leaf in Leaf::all() {
        let n = txcorpus::leaf_count(leaf, lens, false);
        leaf_counts.insert(leaf.name(), json!(n));
        space::par_chunks(
            n,
            8192,
            Acc::default,
            |i, acc| {
                check_leaf(leaf, lens, i, acc);
            },
            |acc| acc.flush(ctx),
        );
    }
    ctx.set("leaf_counts", Value::Object(leaf_counts));
    sample_leaf(ctx, Leaf::Input(6), lens, txcorpus::leaf_count(Leaf::Input(6), lens, false) - 1);
    sample_leaf(ctx, Leaf::Input(1), lens, txcorpus::leaf_count(Leaf::Input(1), lens, false) / 2 + 12_345);
    sample_leaf(ctx, Leaf::Receipt(3), lens, txcorpus::leaf_count(Leaf::Receipt(3), lens, false) - 2);
    sample_leaf(ctx, Leaf::Receipt(9), lens, 5);

    // ---- B. policies
    let all = txcorpus::policies_all();
    let ood = txcorpus::policies_out_of_domain();
    {
        let mut acc = Acc::default();
        for (i, p) in all.iter().enumerate() {
            check_policies("all", i as u64, p, &mut acc);
        }
        for (i, p) in ood.iter().enumerate() {
            check_policies("out_of_domain", i as u64, p, &mut acc);
        }
        acc.flush(ctx);
    }
    ctx.set("policies", json!({"in_domain": all.len(), "masks": 64, "out_of_domain_info": ood.len()}));
    ctx.sample(json!({"policies_idx": all.len() - 1, "value": short(&all[all.len() - 1]),
                      "encoded": hex_head(&all[all.len() - 1].to_bytes()), "verdict": "round-trips"}));

    // ---- B2. length boundary of byte vectors (sequential: ~100 MiB per value)
    {
        let mut acc = Acc::default();
        let lens = [VEC_DECODE_LIMIT - 1, VEC_DECODE_LIMIT, VEC_DECODE_LIMIT + 1];
        // touching fresh 100 MiB buffers dominates: quick = Witness only, thorough = all
        let families = &BOUNDARY_FAMILIES[..ctx.pick(1, BOUNDARY_FAMILIES.len())];
        for family in families {
            for n in lens {
                check_boundary(family, n, &mut acc);
            }
        }
        acc.flush(ctx);
        ctx.set(
            "length_boundary",
            json!({"families": families, "lengths": lens.iter().map(|n| boundary_len_name(*n)).collect::<Vec<_>>(),
                   "VEC_DECODE_LIMIT": VEC_DECODE_LIMIT,
                   "oracle": "full C01 oracle for lengths <= VEC_DECODE_LIMIT; VEC_DECODE_LIMIT+1 recorded as info_* outcome only"}),
        );
    }

    // ---- C. transactions
    let star_n = txcorpus::tx_count(CorpusLevel::Star);
    for precomputed in [false, true] {
        space::par_chunks(
            star_n,
            64,
            Acc::default,
            |i, acc| {
                check_tx(CorpusLevel::Star, i, precomputed, acc);
            },
            |acc| acc.flush(ctx),
        );
    }
    // information: how many star transactions are format-valid (none is claimed to be)
    let mut valid: BTreeMap<String, u64> = BTreeMap::new();
    for i in 0..star_n {
        let tx = txcorpus::tx_at(CorpusLevel::Star, i);
        let ok = guard::catch_any(|| tx.check_without_signatures(0u32.into(), &fuel_tx::ConsensusParameters::standard()));
        if matches!(ok, Ok(Ok(()))) {
            *valid.entry(txcorpus::tx_point(CorpusLevel::Star, i).kind_name().to_string()).or_insert(0) += 1;
        }
    }
    ctx.set(
        "tx_star",
        json!({"count": star_n, "kinds": txcorpus::TX_KINDS, "plus": "Mint", "dims": txcorpus::DIM_NAMES,
               "dim_sizes_per_kind": (0..6).map(txcorpus::tx_dims).collect::<Vec<_>>(),
               "also_with_precomputed_metadata": true,
               "info_pass_check_without_signatures_per_kind": valid}),
    );
    {
        let rich = (0..star_n)
            .find(|i| {
                txcorpus::tx_point(CorpusLevel::Star, *i)
                    == txcorpus::TxPoint::Chargeable {
                        kind: 0,
                        ix: txcorpus::base_points(0)[1],
                    }
            })
            .unwrap_or(0);
        let mut acc = Acc::default();
        if let Some(bytes) = check_tx(CorpusLevel::Star, rich, false, &mut acc) {
            ctx.sample(json!({"tx": txcorpus::tx_point(CorpusLevel::Star, rich).describe(), "level": "Star", "idx": rich,
                              "encoded_len": bytes.len(), "encoded_head": hex_head(&bytes), "verdict": "round-trips"}));
        }
    }

    if ctx.thorough() {
        let full_n = txcorpus::tx_count(CorpusLevel::Full);
        let seg: u64 = 1 << 24;
        let mut done = 0u64;
        while done < full_n {
            if ctx.out_of_time() {
                ctx.cap(format!("full TX(2) product cut short by the time budget after {done} of {full_n} transactions"));
                break
            }
            let n = seg.min(full_n - done);
            let base = done;
            space::par_chunks(
                n,
                1 << 16,
                Acc::default,
                |i, acc| {
                    check_tx(CorpusLevel::Full, base + i, false, acc);
                },
                |acc| acc.flush(ctx),
            );
            done += n;
        }
        ctx.set(
            "tx_full",
            json!({"count": full_n, "completed": done,
                   "body_points_per_kind": (0..6).map(|k| txcorpus::body_full(k).len()).collect::<Vec<_>>()}),
        );
        let mid = full_n / 3;
        let mut acc = Acc::default();
        if let Some(bytes) = check_tx(CorpusLevel::Full, mid, false, &mut acc) {
            ctx.sample(json!({"tx": txcorpus::tx_point(CorpusLevel::Full, mid).describe(), "level": "Full", "idx": mid,
                              "encoded_len": bytes.len(), "encoded_head": hex_head(&bytes), "verdict": "round-trips"}));
        }
    }
}

fn replay(case: &Value, ctx: &Ctx) {
    let mut acc = Acc::default();
    let idx = case["idx"].as_u64().expect("idx");
    match case["space"].as_str() {
        Some("leaf") => {
            let leaf = Leaf::from_name(case["leaf"].as_str().expect("leaf")).expect("known leaf");
            let lens = Lens::from_name(case["lens"].as_str().unwrap_or("L"));
            check_leaf(leaf, lens, idx, &mut acc);
        }
        Some("boundary") => {
            check_boundary(case["family"].as_str().expect("family"), idx as usize, &mut acc);
        }
        Some("policies") => {
            let set = case["set"].as_str().expect("set");
            let v = if set == "all" { txcorpus::policies_all() } else { txcorpus::policies_out_of_domain() };
            check_policies(set, idx, &v[idx as usize], &mut acc);
        }
        Some("tx") => {
            let level = CorpusLevel::from_name(case["level"].as_str().unwrap_or("Star"));
            check_tx(level, idx, case["precomputed"].as_bool().unwrap_or(false), &mut acc);
        }
        other => panic!("unknown space {other:?}"),
    }
    acc.flush(ctx);
}

fn main() {
    run_check("C01", Level::Exploration, explore, replay)
}
