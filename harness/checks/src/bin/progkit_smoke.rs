#[path = "../progkit.rs"]
mod progkit;
use fuel_asm::{op, RegId};
use progkit::*;
use vcore::vmkit;
fn main() {
    vcore::guard::install_quiet_hook();
    let w = World::new(WorldCfg::default());
    let body = vec![
        op::call(r::CALL_A, RegId::ZERO, r::ASSET_BASE, RegId::CGAS),
        op::movi(0x10, 10),
        op::tr(r::CALL_A, 0x10, r::ASSET_X),
        op::movi(0x11, 4), // output index of first variable output? contract,contract,change,change,var,var
        op::tro(r::RECIPIENT, 0x11, 0x10, r::ASSET_X),
        op::call(r::CALL_C, RegId::ZERO, r::ASSET_BASE, RegId::CGAS),
        op::ret(RegId::ONE),
    ];
    let o = w.transact(w.script_bytes(&body), 1_000_000);
    println!("state={:?}", o.state);
    for r in &o.receipts { println!("  {:?}", r); }
    println!("outputs={:?}", o.tx.as_ref().map(|t| fuel_tx::field::Outputs::outputs(t).to_vec()));
    let mut vm = w.vm_after_prelude(&body, 1_000_000);
    let mut n = 0;
    loop { let s = vmkit::step(&mut vm); n += 1; println!("step {n}: {:?} pc={} fp={}", s.label(), vmkit::reg(&vm, RegId::PC), vmkit::reg(&vm, RegId::FP)); if s != vmkit::Step::Proceed { break } }
    let t = std::time::Instant::now();
    for _ in 0..100_000 { let _ = w.transact(w.script_bytes(&body), 1_000_000); }
    println!("100k transact: {:?}", t.elapsed());
}
