//! C13 — Sparse Merkle state persists completely in its node storage.
//!
//! Explicit-state BFS over the real `fuel_merkle::sparse::MerkleTree` on the harness-owned
//! node storage (`vcore::nodestore::Shared<Table>`), plus an exhaustive single-node fault
//! enumeration on the shallow states.
//!
//! Space. Actions `Insert(k, v)`, `Delete(k)` (same clustered, UNHASHED key alphabet and
//!   values {"", "a", "b"} as C12, see smtmodel.rs) and `Reload` = replace the live tree by
//!   `MerkleTree::load(handle on the same storage, current root)`. BFS places the reload
//!   at every point of every history; every later operation runs on the reloaded tree.
//!   State key = (reference map, SHA-256 of sorted node storage, root, lineage bit "this
//!   tree object descends from a load") — the lineage bit keeps reloaded trees apart from
//!   never-reloaded ones, so operations after a reload are really explored. Trees are not
//!   `Clone`: states are histories, rebuilt by replay.
//! Bound. quick: depth 4 over 8 keys (33 actions), faults on all states of depth ≤ 2;
//!   thorough: depth 5 over 10 keys (38 actions), faults on all states of depth ≤ 2 and
//!   then (second pass, time-capped) on the depth-3 states holding 3 keys, all with value
//!   "a" (all 120 key triples; the shape of the tree depends on the keys only).
//! Oracle (from the property statement; reference root = vcore::oracle::smt_root):
//!   on every distinct state
//!   (a) a tree that went through reloads has the same root and the same proofs (all
//!       query keys = alphabet ∪ 2 absent neighbours) as the ORIGINAL = the same history
//!       replayed without the reloads; both equal the reference root;
//!   (b) `load(deep copy of storage, root)` succeeds, has the same root and proofs, and
//!       after every single further action has the reference root of the updated map
//!       (quick: the further actions on states of depth ≤ 3; deeper reload-then-operate
//!       sequences come from the BFS itself);
//!   (c) `load(storage, empty root)` is an empty tree (zero root, placeholder exclusion
//!       proofs with empty proof set, behaves like a fresh tree on insert);
//!   (d) `load(storage, r)` for roots r absent from storage (two constants on every state;
//!       on the states of (b) also the roots of all one-action successor maps) returns Err;
//!   (e) the nodes returned by `in_memory::nodes_from_set(reference map)` loaded at the
//!       returned root give the same proofs as the original and, after every single
//!       further action, the reference root (the further actions are skipped when the
//!       returned node set is identical to the live storage: same root + same storage =
//!       the tree state already exercised in (b); counted in the histogram);
//!   (f) fault enumeration: for EACH single stored node hidden (`Shared::hide`): load,
//!       every proof, every alphabet action (+ the proof of the action's key afterwards)
//!       must return Err or exactly what the unfaulted original returns — never another
//!       root or proof. If the hidden node is not a node of the compact tree of the
//!       reference map (storage garbage), load/proofs/actions must succeed.
//!   Panics under a missing node are counted, not flagged (the statement says "fails").

#[path = "../smtmodel.rs"]
mod smtmodel;

use fuel_merkle::sparse::in_memory;
use rayon::prelude::*;
use smtmodel::*;
use std::{
    collections::BTreeMap,
    sync::Mutex,
};
use vcore::{
    bfs::{
        self,
        Model,
    },
    guard,
    json,
    oracle::{
        self,
        H256,
        ZERO,
    },
    run_check,
    Ctx,
    Level,
    Value,
};

struct M {
    nkeys: usize,
    /// fault enumeration on states with history length <= this (inside `check`)
    fault_depth: usize,
    /// histories of exactly this length are collected for a later fault pass
    collect_depth: usize,
    /// (b)/(e) "every further action on the loaded tree" on states up to this depth
    further_depth: usize,
    collected: Mutex<Vec<Vec<Act>>>,
    reload_samples: std::sync::atomic::AtomicU64,
    fault_samples: std::sync::atomic::AtomicU64,
}

#[derive(Clone)]
struct St {
    hist: Vec<Act>,
    refc: Vec<(u8, u8)>,
    digest: H256,
    root: H256,
    reloaded: bool,
}

fn hx(h: &H256) -> String {
    hex::encode(h)
}

fn kind(a: &Act) -> &'static str {
    match a {
        Act::Ins(..) => "insert",
        Act::Del(..) => "delete",
        Act::Reload => "reload",
    }
}

fn strip(hist: &[Act]) -> Vec<Act> {
    hist.iter().filter(|a| **a != Act::Reload).cloned().collect()
}

impl M {
    fn new(nkeys: usize, fault_depth: usize, collect_depth: usize, further_depth: usize) -> M {
        M {
            nkeys,
            further_depth,
            fault_depth,
            collect_depth,
            collected: Mutex::new(Vec::new()),
            reload_samples: Default::default(),
            fault_samples: Default::default(),
        }
    }

    fn queries(&self) -> Vec<H256> {
        let mut q = all_keys()[..self.nkeys].to_vec();
        q.extend(absent_neighbours());
        q
    }

    fn viol(&self, ctx: &Ctx, hist: &[Act], faults: bool, key: String, expected: String, observed: String) {
        ctx.violation(
            key,
            format!("after {:?}: expected {expected}, observed {observed}", hist_names(hist)),
            json!({"nkeys": self.nkeys, "actions": hist, "faults": faults, "readable": hist_names(hist)}),
        );
    }

    fn state_of(&self, l: &Live, hist: Vec<Act>) -> St {
        St {
            hist,
            refc: ref_compact(&l.refm),
            digest: store_digest(&l.store),
            root: l.root(),
            reloaded: l.reloaded,
        }
    }

    /// Proofs of all query keys from a tree on intact storage; any failure is a violation.
    fn proofs_intact(&self, ctx: &Ctx, hist: &[Act], tree: &Tree, what: &str) -> Option<Vec<P>> {
        let mut out = Vec::new();
        for q in self.queries() {
            match gen_proof(tree, &q) {
                Ok(p) => out.push(p),
                Err(e) => {
                    self.viol(ctx, hist, false, format!("C13:{what}:generate_proof-failed"), "Ok(proof)".into(), format!("{} -> {e:?}", kname(&q)));
                    return None
                }
            }
        }
        Some(out)
    }

    /// (b)/(e): a tree loaded from `nodes` at `root` must, after every single action,
    /// have the reference root of the updated map.
    fn further_ops(&self, ctx: &Ctx, hist: &[Act], succ_roots: &[H256], nodes: &BTreeMap<H256, fuel_merkle::sparse::Primitive>, root: &H256, what: &str) {
        for (a, er) in alphabet(self.nkeys).into_iter().zip(succ_roots.iter().copied()) {
            let store = Store::from_map(nodes.clone());
            let mut t = match load_tree(store, root) {
                Ok(t) => t,
                Err(e) => {
                    self.viol(ctx, hist, false, format!("C13:{what}:load-failed"), "Ok(tree)".into(), format!("{e:?}"));
                    return
                }
            };
            match tree_op(&mut t, &a) {
                Ok(()) if t.root() == er => {}
                Ok(()) => self.viol(ctx, hist, false, format!("C13:{what}+op:root:{}", kind(&a)), format!("{} after {}", hx(&er), act_name(&a)), hx(&t.root())),
                Err(e) => self.viol(ctx, hist, false, format!("C13:{what}+op:failed:{}", kind(&a)), format!("Ok after {}", act_name(&a)), format!("{e:?}")),
            }
        }
        ctx.outcome(&format!("{what}+op:checked"), alphabet(self.nkeys).len() as u64);
    }

    fn state_checks(&self, s_hist: &[Act], ctx: &Ctx, with_faults: bool) {
        let hist = s_hist;
        let l = match replay_hist(hist, false) {
            Ok(l) => l,
            Err(_) => return, // reported by `step` with the same history
        };
        let root = l.root();
        let eroot = ref_root(&l.refm);
        let qs = self.queries();
        let has_reload = hist.contains(&Act::Reload);
        let tag = if has_reload { "after-reload" } else { "live" };
        if root != eroot {
            self.viol(ctx, hist, false, format!("C13:root-vs-reference:{tag}"), hx(&eroot), hx(&root));
        }
        let Some(live_proofs) = self.proofs_intact(ctx, hist, &l.tree, tag) else { return };
        // reference roots of all one-action successor maps
        let want_further = !l.reloaded && hist.len() <= self.further_depth;
        let succ_roots: Vec<H256> = if want_further {
            alphabet(self.nkeys)
                .iter()
                .map(|a| {
                    let mut after = l.refm.clone();
                    apply_ref(&mut after, a);
                    ref_root(&after)
                })
                .collect()
        } else {
            vec![]
        };

        // (a) against the original (no reloads)
        if has_reload {
            match replay_hist(&strip(hist), false) {
                Ok(orig) => {
                    if orig.root() != root {
                        self.viol(ctx, hist, false, "C13:root-vs-original".into(), hx(&orig.root()), hx(&root));
                    }
                    if let Some(op) = self.proofs_intact(ctx, hist, &orig.tree, "original") {
                        for (i, q) in qs.iter().enumerate() {
                            if op[i] != live_proofs[i] {
                                self.viol(ctx, hist, false, "C13:proof-vs-original".into(), format!("{} for {}", op[i].brief(), kname(q)), live_proofs[i].brief());
                            }
                        }
                    }
                    ctx.outcome("reloaded-state:compared-with-original", 1);
                }
                Err(_) => {} // the stripped history fails on its own: reported on its own state
            }
        }

        // (b) load now, from a deep copy
        let snap = l.store.snapshot();
        match load_tree(Store::from_map(snap.clone()), &root) {
            Ok(t) => {
                if t.root() != root {
                    self.viol(ctx, hist, false, "C13:load:root".into(), hx(&root), hx(&t.root()));
                }
                if let Some(lp) = self.proofs_intact(ctx, hist, &t, "load") {
                    for (i, q) in qs.iter().enumerate() {
                        if lp[i] != live_proofs[i] {
                            self.viol(ctx, hist, false, "C13:load:proof".into(), format!("{} for {}", live_proofs[i].brief(), kname(q)), lp[i].brief());
                        }
                    }
                }
                ctx.outcome("load(current root):ok", 1);
            }
            Err(e) => self.viol(ctx, hist, false, "C13:load:failed".into(), "Ok(tree)".into(), format!("{e:?}")),
        }

        if want_further {
            self.further_ops(ctx, hist, &succ_roots, &snap, &root, "load");
        }

        // (c) empty root
        match load_tree(Store::from_map(snap.clone()), &ZERO) {
            Ok(mut t) => {
                let mut ok = t.root() == ZERO;
                for q in qs.iter() {
                    ok &= gen_proof(&t, q) == Ok(P::Excl(vec![], None));
                }
                let k0 = all_keys()[0];
                ok &= tree_op(&mut t, &Act::Ins(0, 1)).is_ok() && t.root() == oracle::smt_leaf(&k0, b"a");
                if !ok {
                    self.viol(ctx, hist, false, "C13:load-empty-root:not-empty".into(), "empty tree".into(), format!("root {}", hx(&t.root())));
                }
                ctx.outcome("load(empty root):checked", 1);
            }
            Err(e) => self.viol(ctx, hist, false, "C13:load-empty-root:failed".into(), "Ok(empty tree)".into(), format!("{e:?}")),
        }

        // (d) roots that are not in storage
        let mut cands: Vec<H256> = vec![[0x11; 32], [0xff; 32]];
        cands.extend(succ_roots.iter().copied());
        cands.sort();
        cands.dedup();
        let probe_store = Store::from_map(snap.clone());
        for r in cands {
            if r == ZERO || snap.contains_key(&r) {
                continue
            }
            match load_tree(probe_store.clone(), &r) {
                Err(OpFail::Err(_)) => ctx.outcome("load(unknown root):err", 1),
                Err(OpFail::Panic(p)) => self.viol(ctx, hist, false, "C13:load-unknown-root:panic".into(), "Err".into(), p),
                Ok(t) => self.viol(ctx, hist, false, "C13:load-unknown-root:ok".into(), "Err".into(), format!("Ok(tree with root {})", hx(&t.root()))),
            }
        }

        // (e) nodes_from_set
        if !l.reloaded {
            let set: Vec<(H256, Vec<u8>)> = l.refm.iter().map(|(k, v)| (*k, v.clone())).collect();
            match guard::catch_any(|| in_memory::MerkleTree::nodes_from_set(set.iter().map(|(k, v)| (mk(k), v.clone())))) {
                Ok((r, nodes)) => {
                    let nodes: BTreeMap<H256, _> = nodes.into_iter().collect();
                    if r != eroot {
                        self.viol(ctx, hist, false, "C13:nodes_from_set:root".into(), hx(&eroot), hx(&r));
                    } else {
                        match load_tree(Store::from_map(nodes.clone()), &r) {
                            Ok(t) => {
                                if let Some(np) = self.proofs_intact(ctx, hist, &t, "nodes_from_set") {
                                    for (i, q) in qs.iter().enumerate() {
                                        if np[i] != live_proofs[i] {
                                            self.viol(ctx, hist, false, "C13:nodes_from_set:proof".into(), format!("{} for {}", live_proofs[i].brief(), kname(q)), np[i].brief());
                                        }
                                    }
                                }
                                if nodes == snap {
                                    // identical storage and root => identical tree state as in (b)
                                    ctx.outcome("nodes_from_set:storage-identical-to-live-storage", 1);
                                } else if want_further {
                                    self.further_ops(ctx, hist, &succ_roots, &nodes, &r, "nodes_from_set");
                                }
                            }
                            Err(e) => self.viol(ctx, hist, false, "C13:nodes_from_set:load-failed".into(), "Ok(tree)".into(), format!("{e:?}")),
                        }
                    }
                }
                Err(p) => self.viol(ctx, hist, false, "C13:nodes_from_set:panic".into(), "nodes".into(), p),
            }
        }

        ctx.evals(1);
        ctx.outcome(&format!("state:{tag}:keys={}", l.refm.len()), 1);
        if !l.refm.is_empty() {
            ctx.fp_of(&(&ref_compact(&l.refm), l.reloaded));
        }
        if has_reload && hist.len() >= 4 && hist.last() != Some(&Act::Reload) && l.refm.len() >= 2 && self.reload_samples.fetch_add(1, std::sync::atomic::Ordering::Relaxed) < 3 {
            ctx.sample(json!({
                "actions": hist_names(hist),
                "root": hx(&root),
                "reference_root": hx(&eroot),
                "stored_nodes": snap.len(),
                "proofs_compared_with_original": live_proofs.iter().zip(qs.iter()).map(|(p, q)| format!("{}: {}", kname(q), p.brief())).collect::<Vec<_>>(),
            }));
        }

        if with_faults && !l.reloaded {
            self.faults(ctx, hist, &l, &live_proofs);
        }
    }

    /// (f) every single stored node hidden.
    fn faults(&self, ctx: &Ctx, hist: &[Act], l: &Live, live_proofs: &[P]) {
        let snap = l.store.snapshot();
        let needed = ref_nodes(&l.refm);
        let root = l.root();
        let qs = self.queries();
        let keys = all_keys();
        let acts = alphabet(self.nkeys);
        // what the unfaulted original returns after each action: root and the proof of the action's key
        let mut expect: Vec<Option<(H256, P)>> = Vec::new();
        for a in &acts {
            let mut h = hist.to_vec();
            h.push(a.clone());
            let e = replay_hist(&h, false).ok().and_then(|o| {
                let k = match a {
                    Act::Ins(k, _) | Act::Del(k) => keys[*k as usize],
                    Act::Reload => unreachable!(),
                };
                let r = o.root();
                if r != ref_root(&o.refm) {
                    return None // reported elsewhere (root-vs-reference on the successor)
                }
                gen_proof(&o.tree, &k).ok().map(|p| (r, p))
            });
            expect.push(e);
        }
        let mut oc: BTreeMap<String, u64> = BTreeMap::new();
        let mut bump = |k: &str| *oc.entry(k.to_string()).or_insert(0) += 1;
        let mut n_exp = 0u64;
        for nk in snap.keys() {
            let garbage = !needed.contains(nk);
            bump(if garbage { "fault:hidden-node-is-garbage" } else { "fault:hidden-node-is-tree-node" });
            let faulty = || {
                let st = Store::from_map(snap.clone());
                st.hide(Some(*nk));
                st
            };
            let node_desc = || format!("node {} hidden ({})", hx(nk), if garbage { "garbage" } else { "tree node" });
            n_exp += 1;
            match load_tree(faulty(), &root) {
                Err(OpFail::Err(e)) => {
                    bump("fault:load:err");
                    if garbage {
                        self.viol(ctx, hist, true, "C13:fault:unneeded-node:load-failed".into(), "Ok".into(), format!("{}: {e}", node_desc()));
                    }
                    continue
                }
                Err(OpFail::Panic(_)) => {
                    bump("fault:load:panic");
                    continue
                }
                Ok(t) => {
                    bump("fault:load:ok");
                    if t.root() != root {
                        self.viol(ctx, hist, true, "C13:fault:load:root".into(), hx(&root), format!("{}: {}", node_desc(), hx(&t.root())));
                    }
                    for (q, lp) in qs.iter().zip(live_proofs.iter()) {
                        n_exp += 1;
                        match gen_proof(&t, q) {
                            Ok(p) if p == *lp => bump("fault:proof:ok-same-as-original"),
                            Ok(p) => self.viol(ctx, hist, true, "C13:fault:proof".into(), format!("Err or {} for {}", lp.brief(), kname(q)), format!("{}: {}", node_desc(), p.brief())),
                            Err(OpFail::Err(e)) => {
                                bump("fault:proof:err");
                                if garbage {
                                    self.viol(ctx, hist, true, "C13:fault:unneeded-node:proof-failed".into(), "Ok".into(), format!("{}: {e}", node_desc()));
                                }
                            }
                            Err(OpFail::Panic(_)) => bump("fault:proof:panic"),
                        }
                    }
                }
            }
            for (a, exp) in acts.iter().zip(expect.iter()) {
                let Some((er, ep)) = exp else { continue };
                let Ok(mut t) = load_tree(faulty(), &root) else { continue };
                n_exp += 1;
                match tree_op(&mut t, a) {
                    Ok(()) => {
                        if t.root() != *er {
                            self.viol(ctx, hist, true, format!("C13:fault:root:{}", kind(a)), format!("Err or {} after {}", hx(er), act_name(a)), format!("{}: {}", node_desc(), hx(&t.root())));
                            continue
                        }
                        bump(&format!("fault:{}:ok-reference-root", kind(a)));
                        let k = match a {
                            Act::Ins(k, _) | Act::Del(k) => keys[*k as usize],
                            Act::Reload => unreachable!(),
                        };
                        match gen_proof(&t, &k) {
                            Ok(p) if p == *ep => bump("fault:proof-after-op:ok-same-as-original"),
                            Ok(p) => self.viol(ctx, hist, true, "C13:fault:proof-after-op".into(), format!("Err or {} for {} after {}", ep.brief(), kname(&k), act_name(a)), format!("{}: {}", node_desc(), p.brief())),
                            Err(OpFail::Err(_)) => bump("fault:proof-after-op:err"),
                            Err(OpFail::Panic(_)) => bump("fault:proof-after-op:panic"),
                        }
                    }
                    Err(OpFail::Err(e)) => {
                        bump(&format!("fault:{}:err", kind(a)));
                        if garbage {
                            self.viol(ctx, hist, true, format!("C13:fault:unneeded-node:{}-failed", kind(a)), "Ok".into(), format!("{}: {} -> {e}", node_desc(), act_name(a)));
                        }
                    }
                    Err(OpFail::Panic(_)) => bump(&format!("fault:{}:panic", kind(a))),
                }
            }
            ctx.fp_of(&("fault", ref_compact(&l.refm), nk));
        }
        ctx.evals(n_exp);
        ctx.outcome("fault:states", 1);
        let do_sample = snap.len() >= 3 && hist.len() >= 2 && self.fault_samples.fetch_add(1, std::sync::atomic::Ordering::Relaxed) < 3;
        if do_sample {
            ctx.sample(json!({
                "fault_enumeration_on": hist_names(hist),
                "stored_nodes_each_hidden_once": snap.len(),
                "experiments": n_exp,
                "outcomes": oc,
            }));
        }
        ctx.outcomes_merge(&oc);
    }
}

impl Model for M {
    type State = St;
    type Action = Act;
    type Key = (Vec<(u8, u8)>, H256, H256, bool);

    fn init(&self) -> St {
        self.state_of(&Live::new(false), vec![])
    }

    fn actions(&self, s: &St) -> Vec<Act> {
        let mut v = alphabet(self.nkeys);
        if s.hist.last() != Some(&Act::Reload) {
            v.push(Act::Reload);
        }
        v
    }

    fn step(&self, s: &St, a: &Act, _path: &[Act], ctx: &Ctx) -> Option<St> {
        let mut h = s.hist.clone();
        h.push(a.clone());
        match replay_hist(&h, false) {
            Ok(l) => {
                ctx.outcome(&format!("transition:{}:{}", if s.reloaded { "on-reloaded-tree" } else { "on-live-tree" }, l.last_class), 1);
                Some(self.state_of(&l, h))
            }
            Err((i, e)) => {
                let tag = if h[..i].contains(&Act::Reload) { "after-reload" } else { "live" };
                self.viol(ctx, &h[..=i], false, format!("C13:op-failed:{}:{tag}", kind(&h[i])), "Ok".into(), e);
                None
            }
        }
    }

    fn key(&self, s: &St) -> Self::Key {
        (s.refc.clone(), s.digest, s.root, s.reloaded)
    }

    fn check(&self, s: &St, _path: &[Act], ctx: &Ctx) {
        self.state_checks(&s.hist, ctx, s.hist.len() <= self.fault_depth);
        // second fault pass: never-reloaded states of that depth whose values are all "a"
        // (which node is missing matters through the tree's shape, i.e. the keys)
        if s.hist.len() == self.collect_depth && !s.reloaded && s.refc.len() == self.collect_depth && s.refc.iter().all(|(_, v)| *v == 1) {
            self.collected.lock().unwrap().push(s.hist.clone());
        }
    }
}

fn explore(ctx: &Ctx) {
    self_test();
    ctx.rule(
        "explicit-state BFS over the real sparse::MerkleTree with Reload as an action; states merged on (reference \
         map, SHA-256 of sorted node storage, root, lineage bit); per state: reload/original comparison, load from a \
         deep copy + every further action, load(empty root), load(unknown roots), nodes_from_set+load; single-node \
         fault enumeration on shallow states. Non-trivial = map holds >=1 key; distinct = distinct (map, lineage) \
         plus distinct (map, hidden node) fault experiments.",
    );
    ctx.assume("sha2 crate and the harness compact-SMT reference are correct");
    ctx.assume("SHA-256 of the sorted node-storage contents stands in for the contents in state keys");
    ctx.assume("insert(k, \"\") stores a leaf with value hash H(\"\"); only delete removes a key (see smtmodel.rs)");
    ctx.assume(
        "the tree's whole state is (root node, node storage); trees that went through a load are kept apart from \
         never-reloaded ones by a lineage bit in the state key, not by the position of the reload",
    );
    ctx.set(
        "dont_care",
        json!([
            "which error load/insert/delete/generate_proof return when a node is missing",
            "a panic (instead of Err) under a missing node is counted in the histogram, not flagged",
            "state of tree and storage after an operation returned Err",
            "after a successful action on faulty storage only the proof of the action's own key is compared",
        ]),
    );
    let (nkeys, depth, fault_depth) = ctx.pick((8usize, 4usize, 2usize), (10, 5, 2));
    let collect_depth = ctx.pick(usize::MAX, 3);
    let keys = all_keys();
    ctx.set(
        "alphabet",
        json!({
            "keys": keys[..nkeys].iter().map(hex::encode).collect::<Vec<_>>(),
            "values": VALUE_NAMES,
            "actions": alphabet(nkeys).len() + 1,
            "query_keys_extra": absent_neighbours().iter().map(hex::encode).collect::<Vec<_>>(),
        }),
    );
    let further_depth = ctx.pick(3usize, usize::MAX);
    ctx.set("load_plus_every_further_action_on_states_up_to_depth", json!(if further_depth == usize::MAX { depth } else { further_depth }));
    let m = M::new(nkeys, fault_depth, collect_depth, further_depth);
    let st = bfs::bfs(&m, depth, 3_000_000, ctx);
    ctx.set(
        "bfs",
        json!({"depth_bound": depth, "completed_depth": st.completed_depth, "states": st.states, "transitions": st.transitions, "per_depth": st.per_depth, "capped": st.capped, "wall_s": ctx.elapsed()}),
    );
    let mut fault_info = json!({"level": "every single stored node hidden, on every never-reloaded state", "complete_up_to_depth": fault_depth});
    // second pass (thorough): faults on the collected deeper states, until the budget ends
    let mut todo = std::mem::take(&mut *m.collected.lock().unwrap());
    todo.sort();
    if !todo.is_empty() {
        let done = std::sync::atomic::AtomicU64::new(0);
        let skipped = std::sync::atomic::AtomicU64::new(0);
        todo.par_iter().for_each(|h| {
            if ctx.out_of_time() {
                skipped.fetch_add(1, std::sync::atomic::Ordering::Relaxed);
                return
            }
            if let Ok(l) = replay_hist(h, false) {
                if let Some(lp) = m.proofs_intact(ctx, h, &l.tree, "live") {
                    m.faults(ctx, h, &l, &lp);
                }
            }
            done.fetch_add(1, std::sync::atomic::Ordering::Relaxed);
        });
        let (d, s) = (done.into_inner(), skipped.into_inner());
        if s > 0 {
            ctx.cap(format!("fault enumeration at depth {collect_depth}: {d} of {} states done when the time budget ended", d + s));
        }
        fault_info["second_pass"] = json!({"depth": collect_depth, "restriction": "3 distinct keys, all values \"a\"", "states": d + s, "done": d});
    }
    ctx.set("fault_enumeration", fault_info);
}

fn replay(case: &Value, ctx: &Ctx) {
    self_test();
    let acts: Vec<Act> = serde_json::from_value(case["actions"].clone()).expect("actions");
    let nkeys = case["nkeys"].as_u64().expect("nkeys") as usize;
    let faults = case["faults"].as_bool().unwrap_or(false);
    // fault enumeration only on the final state of a fault case
    let m = M::new(nkeys, 0, usize::MAX, usize::MAX);
    bfs::replay_path(&m, &acts, ctx);
    if faults {
        if let Ok(l) = replay_hist(&acts, false) {
            if let Some(lp) = m.proofs_intact(ctx, &acts, &l.tree, "live") {
                m.faults(ctx, &acts, &l, &lp);
            }
        }
    }
}

fn main() {
    tune_allocator();
    run_check("C13", Level::ModelChecking, explore, replay)
}
