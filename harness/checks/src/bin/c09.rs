//! C09 — Binary Merkle roots equal the RFC 6962 tree hash.
//!
//! Oracle: `vcore::oracle::mth` (RFC 6962 §2.1 recursive definition, split at the
//! largest power of two smaller than n, leaf = SHA256(0x00||d), node =
//! SHA256(0x01||l||r), MTH({}) = SHA256("")); uses only the `sha2` crate.
//!
//! Implementations compared with it on every enumerated leaf list:
//!   calc_push                `MerkleRootCalculator::{new, push*, root}` (from scratch and
//!                            one long-lived object with `clone().root()` after every push)
//!   calc_root_from_iterator  `MerkleRootCalculator::root_from_iterator`
//!   calc_from_leaf_hashes    `MerkleRootCalculator::new_from_existing_leaves(RFC leaf hashes)`
//!   ephemeral_merkle_root    `fuel_vm::crypto::ephemeral_merkle_root`
//!   inmem                    `binary::in_memory::MerkleTree` (from scratch + incremental)
//!   stored                   `binary::MerkleTree` over the harness node storage (same)
//!   receipts_ctx             `ReceiptsCtx` (From<Vec<Receipt>>, push+root after every
//!                            push, lock()/receipts_mut() pop and edit, clear + refill,
//!                            `Interpreter::receipts_mut` + `compute_receipts_root`);
//!                            leaves = `receipt.to_bytes()`
//!   script_receipts_root     the `receipts_root` field a really executed script ends
//!                            up with (k LOG/LOGD receipts, endings RET / RVRT / panic,
//!                            fresh VM and one reused VM) vs MTH of the encoded receipts
//!   hash primitives          `leaf_sum`, `empty_sum_sha256`, `MerkleTree::empty_root`
//!
//! Spaces (complete enumerations):
//!   T  all leaf sequences of length <= 7 (quick) / 9 (thorough) over the alphabet
//!      {empty, 00, 01, 32 bytes};
//!   D  leaf counts 0..=2100 (quick) / 0..=5000 plus 2^k-1, 2^k, 2^k+1 for k <= 17
//!      (thorough), x 3 content schedules (see binmerkle.rs); calculators from scratch
//!      at every count, the two tree types from scratch for n <= 600 and the sparse
//!      counts and as one long-lived object checked after every push for all counts;
//!   R  receipt lists of every length 0..=300 (quick) / 0..=1500 (thorough) x 3
//!      receipt schedules x 6 ways of getting a root;
//!   X  executed scripts with k = 0..=40 (quick) / 0..=120 (thorough) log receipts
//!      x 3 endings x {fresh VM, reused VM}; plus scripts at the receipt limit: LOG in
//!      a loop until TooManyReceipts, MAX-2 logs then a panic (+ MAX-3 logs then RET in
//!      the thorough tier);
//!   L  ReceiptsCtx at the receipt limit: contexts filled to 65,532 / 65,533 / 65,534 /
//!      65,535 receipts, then every sequence of <= 2 (quick) / <= 3 (thorough) further
//!      push attempts over {Log, Panic, ScriptResult} (accepted or rejected - only
//!      observed, the limit rule itself is C28's); after the sequence root() must be
//!      the MTH of the receipts the context actually holds (`as_ref()`); also through
//!      `Interpreter::receipts_mut` + `compute_receipts_root` for sequences <= 1.

#[path = "../binmerkle.rs"]
mod binmerkle;
use binmerkle::*;

use fuel_asm::{
    op,
    PanicInstruction,
    PanicReason,
    RegId,
};
use fuel_merkle::binary::{
    self,
    in_memory,
    root_calculator::MerkleRootCalculator,
};
use fuel_tx::{
    field::ReceiptsRoot,
    ConsensusParameters,
    Finalizable,
    Receipt,
    Script,
    ScriptExecutionResult,
    TransactionBuilder,
    UtxoId,
};
use fuel_types::canonical::Serialize as _;
use fuel_vm::{
    checked_transaction::IntoChecked,
    interpreter::{
        Interpreter,
        InterpreterParams,
        MemoryInstance,
        ReceiptsCtx,
    },
    storage::MemoryStorage,
    transactor::Transactor,
};
use std::collections::{
    BTreeMap,
    BTreeSet,
    HashSet,
};
use vcore::{
    guard,
    json,
    oracle::{
        self,
        H256,
    },
    run::hash64,
    run_check,
    space,
    Ctx,
    Level,
    Value,
};

// ------------------------------------------------------------------ tree implementations

const SCRATCH_IMPLS: [&str; 6] = [
    "calc_push",
    "calc_root_from_iterator",
    "calc_from_leaf_hashes",
    "ephemeral_merkle_root",
    "inmem",
    "stored",
];
const INCR_IMPLS: [&str; 3] = ["calc_push", "inmem", "stored"];

/// Root of `leaves` by implementation `name`, built from scratch.
fn run_scratch(name: &str, leaves: &[Vec<u8>]) -> Result<H256, String> {
    guard::catch_any(|| -> Result<H256, String> {
        Ok(match name {
            "calc_push" => {
                let mut c = MerkleRootCalculator::new();
                for l in leaves {
                    c.push(l);
                }
                c.root()
            }
            "calc_root_from_iterator" => MerkleRootCalculator::new().root_from_iterator(leaves.iter()),
            "calc_from_leaf_hashes" => {
                // the leaf hashes are the RFC ones (0x00 prefix), computed by the reference
                let hs: Vec<H256> = leaves.iter().map(|l| oracle::leaf_hash(l)).collect();
                MerkleRootCalculator::new_from_existing_leaves(hs.into_iter()).root()
            }
            "ephemeral_merkle_root" => *fuel_vm::crypto::ephemeral_merkle_root(leaves.iter()),
            "inmem" => {
                let mut t = in_memory::MerkleTree::new();
                for l in leaves {
                    t.push(l);
                }
                t.root()
            }
            "stored" => {
                let mut t = Tree::new(Store::new());
                for l in leaves {
                    t.push(l).map_err(|e| format!("push error {e:?}"))?;
                }
                t.root()
            }
            other => panic!("unknown implementation {other}"),
        })
    })
    .map_err(|m| format!("panicked: {m}"))?
}

/// One long-lived object; `at(n, root)` is called with the root after every push
/// (n = leaves so far) for which `want(n)` holds, and once for n = 0.
fn run_incremental(
    name: &str,
    leaves: &[Vec<u8>],
    want: &dyn Fn(u64) -> bool,
    at: &mut dyn FnMut(u64, Result<H256, String>),
) {
    enum Obj {
        Calc(MerkleRootCalculator),
        Inmem(in_memory::MerkleTree),
        Stored(Tree),
    }
    let mut o = match name {
        "calc_push" => Obj::Calc(MerkleRootCalculator::new()),
        "inmem" => Obj::Inmem(in_memory::MerkleTree::new()),
        "stored" => Obj::Stored(Tree::new(Store::new())),
        other => panic!("unknown incremental implementation {other}"),
    };
    let root = |o: &Obj| {
        guard::catch_any(|| match o {
            Obj::Calc(c) => c.clone().root(),
            Obj::Inmem(t) => t.root(),
            Obj::Stored(t) => t.root(),
        })
        .map_err(|m| format!("root panicked: {m}"))
    };
    at(0, root(&o));
    for (k, l) in leaves.iter().enumerate() {
        let n = k as u64 + 1;
        let r = guard::catch_any(|| match &mut o {
            Obj::Calc(c) => {
                c.push(l);
                Ok(())
            }
            Obj::Inmem(t) => {
                t.push(l);
                Ok(())
            }
            Obj::Stored(t) => t.push(l).map_err(|e| format!("push error {e:?}")),
        });
        match r {
            Ok(Ok(())) => {}
            Ok(Err(m)) => return at(n, Err(m)),
            Err(m) => return at(n, Err(format!("push panicked: {m}"))),
        }
        if want(n) {
            at(n, root(&o));
        }
    }
}

// ------------------------------------------------------------------ leaf list specs

const TINY: [&[u8]; 4] = [&[], &[0x00], &[0x01], &[0x5b; 32]];

fn spec_leaves(spec: &Value) -> Vec<Vec<u8>> {
    match spec["kind"].as_str() {
        Some("schedule") => leaves(spec["s"].as_u64().unwrap() as u8, spec["n"].as_u64().unwrap()),
        Some("seq") => spec["letters"]
            .as_array()
            .unwrap()
            .iter()
            .map(|l| TINY[l.as_u64().unwrap() as usize].to_vec())
            .collect(),
        other => panic!("unknown leaf spec {other:?}"),
    }
}

#[derive(Default)]
struct Acc {
    evals: u64,
    hist: BTreeMap<String, u64>,
    fps: HashSet<u64>,
    viols: BTreeMap<String, (String, Value, u64)>,
    samples: Vec<Value>,
}

impl Acc {
    fn viol(&mut self, key: String, what: String, case: Value) {
        let e = self.viols.entry(key).or_insert((what, case, 0));
        e.2 += 1;
    }

    /// Compare one observed root with the reference.
    fn cmp(&mut self, name: &str, mode: &str, n: u64, got: Result<H256, String>, exp: &H256, case: impl Fn() -> Value) {
        self.evals += 1;
        match got {
            Ok(r) if r == *exp => {
                *self.hist.entry(format!("{name}:{mode}:equal")).or_insert(0) += 1;
                if n >= 1 {
                    self.fps.insert(hash64(exp));
                }
            }
            Ok(r) => self.viol(
                format!("C09:root:{name}"),
                format!("{name} ({mode}) over {n} leaves: root {} but RFC 6962 MTH is {}", hx(&r), hx(exp)),
                case(),
            ),
            Err(m) => self.viol(
                format!("C09:root:{name}"),
                format!("{name} ({mode}) over {n} leaves: {m}; RFC 6962 MTH is {}", hx(exp)),
                case(),
            ),
        }
    }

    fn merge_into(self, ctx: &Ctx, totals: &mut BTreeMap<String, u64>) {
        ctx.evals(self.evals);
        ctx.outcomes_merge(&self.hist);
        ctx.fps_merge(self.fps);
        for (k, (w, c, n)) in self.viols {
            *totals.entry(k.clone()).or_insert(0) += n;
            ctx.violation(k, w, c);
        }
        for s in self.samples {
            ctx.sample(s);
        }
    }
}

fn tree_case(name: &str, mode: &str, spec: Value) -> Value {
    json!({"kind": "tree", "impl": name, "mode": mode, "leaves": spec})
}

/// From-scratch trees are rebuilt for every n only up to this count (and at the sparse
/// counts); beyond it the two tree types are covered by the long-lived incremental
/// objects, which execute exactly the same push sequence (root(&self) does not mutate).
const TREE_SCRATCH_DENSE: usize = 600;

/// All from-scratch implementations on one leaf list.
fn check_scratch(ls: &[Vec<u8>], exp: &H256, spec: &Value, trees: bool, acc: &mut Acc) {
    for name in SCRATCH_IMPLS {
        if !trees && (name == "inmem" || name == "stored") {
            continue
        }
        acc.cmp(name, "scratch", ls.len() as u64, run_scratch(name, ls), exp, || tree_case(name, "scratch", spec.clone()));
    }
}

fn check_hash_primitives(acc: &mut Acc) {
    let mut datas: Vec<Vec<u8>> = TINY.iter().map(|d| d.to_vec()).collect();
    for s in 0..3u8 {
        datas.extend(leaves(s, 40));
    }
    for d in datas {
        acc.evals += 1;
        let got = guard::catch_any(|| binary::leaf_sum(&d));
        if got != Ok(oracle::leaf_hash(&d)) {
            acc.viol(
                "C09:hash:leaf_sum".into(),
                format!("leaf_sum({}) = {:?}, expected SHA256(0x00||data) = {}", hx(&d), got.map(|h| hx(&h)), hx(&oracle::leaf_hash(&d))),
                json!({"kind": "leaf_sum", "data": hx(&d)}),
            );
        } else {
            *acc.hist.entry("hash:leaf_sum:equal".into()).or_insert(0) += 1;
        }
    }
    acc.evals += 2;
    let e = oracle::sha256(&[]);
    if *fuel_merkle::common::empty_sum_sha256() != e || *Tree::empty_root() != e {
        acc.viol("C09:hash:empty_sum".into(), "empty_sum_sha256()/empty_root() is not SHA256(\"\")".into(), json!({"kind": "empty_sum"}));
    } else {
        *acc.hist.entry("hash:empty_sum:equal".into()).or_insert(0) += 2;
    }
}

// ------------------------------------------------------------------ receipts

const RECEIPT_SCHEDULES: [&str; 3] = [
    "mixed: p%13 -> Log|LogData|Return|ReturnData|Panic|Revert|Transfer|TransferOut|Call|MessageOut|Mint|Burn|ScriptResult, data length (p/13)%10",
    "all Log with ra = p",
    "all LogData with data length p%40",
];

fn b32(tag: u8, p: u64) -> [u8; 32] {
    let mut b = [tag; 32];
    b[24..].copy_from_slice(&p.to_be_bytes());
    b
}

fn receipt(s: u8, p: u64) -> Receipt {
    let id = b32(0x11, p).into();
    let data = |len: u64| -> Vec<u8> { (0..len).map(|x| (x as u8) ^ (p as u8)).collect() };
    match s {
        0 => {
            let dl = (p / 13) % 10;
            match p % 13 {
                0 => Receipt::log(id, p, 1, u64::MAX, 0, p + 4, 8),
                1 => Receipt::log_data(id, p, 2, 1000 + p, p + 4, 8, data(dl)),
                2 => Receipt::ret(id, p, 12, 16),
                3 => Receipt::return_data(id, 2000 + p, 12, 16, data(dl)),
                4 => Receipt::panic(id, PanicInstruction::error(PanicReason::OutOfGas, 0x4700_0000), p, 4)
                    .with_panic_contract_id(if p % 2 == 0 { Some(b32(0x22, p).into()) } else { None }),
                5 => Receipt::revert(id, p, 4, 8),
                6 => Receipt::transfer(id, b32(0x33, p).into(), p, b32(0x44, p).into(), 4, 8),
                7 => Receipt::transfer_out(id, b32(0x55, p).into(), p, b32(0x44, p).into(), 4, 8),
                8 => Receipt::call(id, b32(0x66, p).into(), p, b32(0x44, p).into(), 5, 6, 7, 8, 9),
                9 => Receipt::message_out(&b32(0x77, p).into(), p, b32(0x88, p).into(), b32(0x99, p).into(), p, data(dl)),
                10 => Receipt::mint(b32(0xaa, p).into(), id, p, 4, 8),
                11 => Receipt::burn(b32(0xbb, p).into(), id, p, 4, 8),
                _ => Receipt::script_result(ScriptExecutionResult::Success, p),
            }
        }
        1 => Receipt::log(Default::default(), p, 0, 0, 0, 4 * p, 0),
        _ => Receipt::log_data(id, 0, 0, p, 0, 0, data(p % 40)),
    }
}

const RECEIPT_OPS: [&str; 6] = ["from_vec", "push_root_each", "lock_pop", "lock_edit", "clear_refill", "interpreter"];

/// (observed root, the receipt list the root must commit to) for one (schedule, k, op).
fn receipts_op(s: u8, k: u64, op: &str) -> (Result<H256, String>, Vec<Receipt>) {
    let list: Vec<Receipt> = (0..k).map(|p| receipt(s, p)).collect();
    let mut expect_list = list.clone();
    let got = guard::catch_any(|| -> Result<H256, String> {
        let push = |c: &mut ReceiptsCtx, r: Receipt| c.push(r).map_err(|e| format!("push failed: {e:?}"));
        Ok(match op {
            "from_vec" => *ReceiptsCtx::from(list.clone()).root(),
            "push_root_each" => {
                // the per-step roots are checked by the explorer through smaller k; here
                // the root is also *called* after every push on the same object
                let mut c = ReceiptsCtx::default();
                let mut last = *c.root();
                for r in &list {
                    push(&mut c, r.clone())?;
                    last = *c.root();
                }
                last
            }
            "lock_pop" => {
                let mut c = ReceiptsCtx::from(list.clone());
                push(&mut c, receipt(s, k))?;
                {
                    let mut l = c.lock();
                    l.receipts_mut().pop();
                }
                *c.root()
            }
            "lock_edit" => {
                let mut c = ReceiptsCtx::from(list.clone());
                if k > 0 {
                    let mut l = c.lock();
                    l.receipts_mut()[0] = receipt(s, 100_000 + k);
                    drop(l);
                    expect_list[0] = receipt(s, 100_000 + k);
                }
                *c.root()
            }
            "clear_refill" => {
                let mut c = ReceiptsCtx::from(list.clone());
                c.clear();
                expect_list = list[..(k / 2) as usize].to_vec();
                for r in &expect_list {
                    push(&mut c, r.clone())?;
                }
                *c.root()
            }
            "interpreter" => {
                let mut vm = Interpreter::<MemoryInstance, MemoryStorage, Script>::with_memory_storage();
                for r in &list {
                    push(vm.receipts_mut(), r.clone())?;
                }
                *vm.compute_receipts_root()
            }
            other => panic!("unknown receipts op {other}"),
        })
    })
    .map_err(|m| format!("panicked: {m}"))
    .and_then(|r| r);
    (got, expect_list)
}

fn receipts_mth(list: &[Receipt]) -> H256 {
    let enc: Vec<Vec<u8>> = list.iter().map(|r| r.to_bytes()).collect();
    oracle::mth(&enc)
}

fn check_receipts(s: u8, k: u64, op: &str, acc: &mut Acc) {
    let (got, list) = receipts_op(s, k, op);
    let exp = receipts_mth(&list);
    acc.cmp("receipts_ctx", op, list.len() as u64, got, &exp, || json!({"kind": "receipts", "s": s, "k": k, "op": op}));
}

// ------------------------------------------------------------------ receipts at the limit

const LIMIT_FILLS: [u64; 4] = [65_532, 65_533, 65_534, 65_535];
const LIMIT_ATTEMPTS: [&str; 3] = ["log", "panic", "script_result"];

fn limit_receipt(kind: u64, p: u64) -> Receipt {
    match kind {
        0 => Receipt::log(Default::default(), p, 1, 2, 3, 4, 8),
        1 => Receipt::panic(b32(0x11, p).into(), PanicInstruction::error(PanicReason::TooManyReceipts, 0x4700_0000), p, 4),
        _ => Receipt::script_result(ScriptExecutionResult::Panic, p),
    }
}

/// A context holding `fill` receipts: logs, then (if needed to get that far) a Panic in
/// the second-to-last slot and a ScriptResult in the last. `None` when the context
/// refuses to be filled this way (recorded, not judged).
fn limit_base(fill: u64) -> Option<ReceiptsCtx> {
    let max = ReceiptsCtx::MAX_RECEIPTS as u64;
    guard::catch_any(|| {
        let mut c = ReceiptsCtx::default();
        for p in 0..fill {
            let kind = if p < max - 2 { 0 } else if p == max - 2 { 1 } else { 2 };
            c.push(limit_receipt(kind, p)).ok()?;
        }
        Some(c)
    })
    .ok()
    .flatten()
}

fn limit_case(fill: u64, attempts: &[u64], route: &str) -> Value {
    json!({"kind": "limit", "fill": fill, "attempts": attempts, "route": route})
}

/// Apply the attempts to a copy of `base`, then compare the root with the MTH of the
/// receipts the context holds afterwards.
fn check_limit(base: &ReceiptsCtx, fill: u64, attempts: &[u64], route: &str, acc: &mut Acc) {
    let obs = guard::catch_any(|| {
        let mut outcomes = vec![];
        let mut go = |c: &mut ReceiptsCtx| {
            for (j, a) in attempts.iter().enumerate() {
                let r = c.push(limit_receipt(*a, 1_000_000 + j as u64));
                outcomes.push(format!("{}:{}", LIMIT_ATTEMPTS[*a as usize], if r.is_ok() { "Ok" } else { "Err" }));
            }
        };
        let (root, list) = match route {
            "ctx" => {
                let mut c = base.clone();
                go(&mut c);
                (*c.root(), c.as_ref().clone())
            }
            "interpreter" => {
                let mut vm = Interpreter::<MemoryInstance, MemoryStorage, Script>::with_memory_storage();
                *vm.receipts_mut() = base.clone();
                go(vm.receipts_mut());
                (*vm.compute_receipts_root(), vm.receipts().to_vec())
            }
            other => panic!("unknown limit route {other}"),
        };
        (root, list, outcomes)
    });
    let case = || limit_case(fill, attempts, route);
    match obs {
        Err(m) => {
            acc.evals += 1;
            acc.viol("C09:root:receipts_ctx".into(), format!("limit fill={fill} attempts={attempts:?} ({route}): panicked: {m}"), case());
        }
        Ok((root, list, outcomes)) => {
            *acc.hist.entry(format!("limit:fill={fill}:[{}]:holds={}", outcomes.join(","), list.len())).or_insert(0) += 1;
            let exp = receipts_mth(&list);
            if fill == 65_533 && attempts == [0] && route == "ctx" {
                acc.samples.push(json!({"space": "L", "filled": fill, "attempts": outcomes, "context_holds": list.len(),
                    "root": hx(&root), "rfc6962_mth_of_held_receipts": hx(&exp)}));
            }
            acc.cmp("receipts_ctx", &format!("limit:{route}"), list.len() as u64, Ok(root), &exp, case);
        }
    }
}

// ------------------------------------------------------------------ executed scripts

const ENDINGS: [&str; 3] = ["ret", "rvrt", "panic"];

const LIMIT_SCRIPTS: [&str; 3] = ["loop_until_too_many_receipts", "panic_after_max_minus_2_logs", "ret_after_max_minus_3_logs"];

/// Programs that run into the receipt limit (k is not used for them).
fn limit_prog(ending: &str) -> Option<Vec<fuel_asm::Instruction>> {
    let max = ReceiptsCtx::MAX_RECEIPTS as u32;
    let log = op::log(RegId::ZERO, RegId::ZERO, RegId::ZERO, RegId::ZERO);
    let counted = |n: u32, last: fuel_asm::Instruction| {
        vec![op::movi(0x10, n), log, op::subi(0x10, 0x10, 1), op::jnzb(0x10, RegId::ZERO, 1), last]
    };
    match ending {
        "loop_until_too_many_receipts" => Some(vec![log, op::jmpb(RegId::ZERO, 0)]),
        "panic_after_max_minus_2_logs" => Some(counted(max - 2, op::div(0x10, RegId::ZERO, RegId::ZERO))),
        "ret_after_max_minus_3_logs" => Some(counted(max - 3, op::ret(RegId::ONE))),
        _ => None,
    }
}

fn script_tx(k: u64, ending: &str) -> fuel_vm::checked_transaction::Checked<Script> {
    let mut prog = vec![];
    if let Some(p) = limit_prog(ending) {
        return checked_script(p)
    }
    for j in 0..k {
        prog.push(op::movi(0x10, (j + 1) as u32));
        if j % 2 == 0 {
            prog.push(op::log(0x10, 0x10, RegId::ZERO, RegId::ONE));
        } else {
            // log j+1 bytes starting at address 0
            prog.push(op::logd(0x10, RegId::ZERO, RegId::ZERO, 0x10));
        }
    }
    prog.push(match ending {
        "ret" => op::ret(RegId::ONE),
        "rvrt" => op::rvrt(RegId::ONE),
        "panic" => op::div(0x10, RegId::ONE, RegId::ZERO),
        other => panic!("unknown ending {other}"),
    });
    checked_script(prog)
}

fn checked_script(prog: Vec<fuel_asm::Instruction>) -> fuel_vm::checked_transaction::Checked<Script> {
    let params = ConsensusParameters::standard();
    let secret = fuel_crypto::SecretKey::try_from(fuel_types::Bytes32::from([0x07u8; 32])).expect("secret key");
    TransactionBuilder::script(prog.into_iter().collect(), vec![])
        .max_fee_limit(1000)
        .script_gas_limit(1_000_000)
        .maturity(Default::default())
        .add_unsigned_coin_input(
            secret,
            UtxoId::new([0x31u8; 32].into(), 0),
            1000,
            *params.base_asset_id(),
            Default::default(),
        )
        .finalize()
        .into_checked(Default::default(), &params)
        .expect("harness script transaction must be checkable")
}

type Txor = Transactor<MemoryInstance, MemoryStorage, Script>;

fn new_txor() -> Txor {
    Transactor::new(MemoryInstance::new(), MemoryStorage::default(), InterpreterParams::default())
}

struct ScriptObs {
    committed: H256,
    computed: H256,
    receipts: Vec<Receipt>,
}

fn run_script(t: &mut Txor, k: u64, ending: &str) -> Result<ScriptObs, String> {
    let tx = script_tx(k, ending);
    guard::catch_any(|| {
        t.transact(tx);
        if let Err(e) = t.result() {
            return Err(format!("transact failed: {e:?}"))
        }
        let vm = t.interpreter();
        Ok(ScriptObs {
            committed: **vm.transaction().receipts_root(),
            computed: *vm.compute_receipts_root(),
            receipts: vm.receipts().to_vec(),
        })
    })
    .map_err(|m| format!("panicked: {m}"))
    .and_then(|r| r)
}

fn check_script_obs(k: u64, ending: &str, reused: bool, obs: Result<ScriptObs, String>, acc: &mut Acc) {
    let mode = format!("{ending}:{}", if reused { "reused_vm" } else { "fresh_vm" });
    let case = || json!({"kind": "script", "k": k, "ending": ending, "reused": reused});
    match obs {
        Err(m) => {
            // a panic / error inside the VM while it maintains or commits the receipts tree
            acc.evals += 1;
            acc.viol(
                "C09:root:script_receipts_root".into(),
                format!("script with {k} log receipts, ending {ending}, reused={reused} did not yield a receipts root: {m}"),
                case(),
            );
        }
        Ok(o) => {
            let exp = receipts_mth(&o.receipts);
            let n = o.receipts.len() as u64;
            let last = match o.receipts.last() {
                Some(Receipt::ScriptResult { result, .. }) => format!("{result:?}"),
                other => format!("{other:?}"),
            };
            *acc.hist.entry(format!("script:{ending}:result={last}:receipts=k+{}", n as i64 - k as i64)).or_insert(0) += 1;
            acc.cmp("script_receipts_root", &mode, n, Ok(o.committed), &exp, case);
            acc.cmp("script_receipts_root", &format!("{mode}:compute_receipts_root"), n, Ok(o.computed), &exp, case);
        }
    }
}

// ------------------------------------------------------------------ driver

fn explore(ctx: &Ctx) {
    ctx.rule(
        "every leaf list of the spaces T, D, R, X (see header) is given to every listed implementation and to the \
         reference; a case is non-trivial when the list has >= 1 leaf; distinct = distinct non-empty leaf lists (by reference root), \
         each of which is evaluated by several implementations (see outcome_histogram for per-implementation counts)",
    );
    ctx.assume("sha2 crate and vcore::oracle::{mth, mth_hashed, leaf_hash} are correct");
    ctx.assume("the leaves of a receipts tree are the receipts' canonical encodings `Receipt::to_bytes()` (the encoding itself is C01's subject)");
    ctx.set(
        "dont_care",
        json!([
            "the number/kind of receipts a script produces (only: committed root == MTH of the receipts the VM reports)",
            "whether a push near MAX_RECEIPTS is accepted or rejected (C28); only: root() == MTH of the receipts the context holds afterwards",
            "node storage contents and proofs (C10, C11)",
            "roots of calculators built with new_with_stack from arbitrary stacks"
        ]),
    );
    ctx.set("leaf_schedules", json!(SCHEDULES));
    ctx.set("receipt_schedules", json!(RECEIPT_SCHEDULES));
    ctx.set("implementations", json!({"scratch": SCRATCH_IMPLS, "incremental": INCR_IMPLS, "receipts_ops": RECEIPT_OPS, "script_endings": ENDINGS}));
    let mut totals: BTreeMap<String, u64> = BTreeMap::new();

    // ---- hash primitives
    let mut acc = Acc::default();
    check_hash_primitives(&mut acc);
    acc.merge_into(ctx, &mut totals);

    // ---- T: all short sequences over the tiny alphabet
    let tk = ctx.pick(7u32, 9u32);
    let total = space::seq_count(4, tk);
    space::par_chunks(
        total,
        256,
        Acc::default,
        |idx, acc| {
            let letters = space::seq_at(4, tk, idx);
            let ls: Vec<Vec<u8>> = letters.iter().map(|l| TINY[*l as usize].to_vec()).collect();
            let exp = oracle::mth(&ls);
            let spec = json!({"kind": "seq", "letters": letters});
            check_scratch(&ls, &exp, &spec, true, acc);
            if idx == 27 {
                acc.samples.push(json!({"space": "T", "leaves": spec, "rfc6962_mth": hx(&exp), "implementations": SCRATCH_IMPLS}));
            }
        },
        |acc| acc.merge_into(ctx, &mut totals),
    );
    ctx.set("space_T", json!({"alphabet": ["", "00", "01", "5b*32"], "max_len": tk, "sequences": total, "done_at_s": ctx.elapsed()}));

    // ---- D: dense + sparse counts x content schedules
    let dense = ctx.pick(2100u64, 5000u64);
    let mut counts: BTreeSet<u64> = (0..=dense).collect();
    if ctx.thorough() {
        counts.extend(pow2_neighbours(17));
    }
    let counts: Vec<u64> = counts.into_iter().collect();
    let nmax = *counts.last().unwrap();
    let all: Vec<Vec<Vec<u8>>> = (0..3u8).map(|s| leaves(s, nmax)).collect();
    let lhs: Vec<Vec<H256>> = all.iter().map(|ls| ls.iter().map(|l| oracle::leaf_hash(l)).collect()).collect();
    let mut expected: Vec<BTreeMap<u64, H256>> = vec![BTreeMap::new(); 3];
    let mut completed = 0u64;
    let mut capped = false;
    for slice in counts.chunks(100) {
        if ctx.out_of_time() {
            ctx.cap(format!("space D stopped by the time budget after {completed} of {} counts", counts.len()));
            capped = true;
            break
        }
        space::par_chunks(
            slice.len() as u64 * 3,
            1,
            || (Acc::default(), Vec::<(u8, u64, H256)>::new()),
            |u, (acc, exps)| {
                let (n, s) = (slice[(u / 3) as usize], (u % 3) as u8);
                let ls = &all[s as usize][..n as usize];
                let exp = oracle::mth_hashed(&lhs[s as usize][..n as usize]);
                exps.push((s, n, exp));
                let spec = json!({"kind": "schedule", "s": s, "n": n});
                check_scratch(ls, &exp, &spec, ls.len() <= TREE_SCRATCH_DENSE || n > dense, acc);
                if (n == 5 && s == 0) || (n == 1000 && s == 2) {
                    acc.samples.push(json!({"space": "D", "leaves": spec, "rfc6962_mth": hx(&exp), "implementations": SCRATCH_IMPLS}));
                }
            },
            |(acc, exps)| {
                acc.merge_into(ctx, &mut totals);
                for (s, n, e) in exps {
                    expected[s as usize].insert(n, e);
                }
            },
        );
        completed += slice.len() as u64;
    }
    let done_max = counts[..completed as usize].last().copied().unwrap_or(0);
    // incremental objects: one long-lived object per (implementation, schedule)
    space::par_chunks(
        9,
        1,
        Acc::default,
        |u, acc| {
            let (name, s) = (INCR_IMPLS[(u / 3) as usize], (u % 3) as usize);
            let exp = &expected[s];
            run_incremental(
                name,
                &all[s][..done_max as usize],
                &|n| exp.contains_key(&n),
                &mut |n, got| {
                    acc.cmp(name, "incremental", n, got, &exp[&n], || {
                        tree_case(name, "incremental", json!({"kind": "schedule", "s": s, "n": n}))
                    })
                },
            );
        },
        |acc| acc.merge_into(ctx, &mut totals),
    );
    ctx.set(
        "space_D",
        json!({"dense": format!("0..={dense}"), "sparse": if ctx.thorough() { "2^k-1,2^k,2^k+1 for k<=17" } else { "none (quick)" },
               "tree_types_rebuilt_from_scratch_for": format!("n <= {TREE_SCRATCH_DENSE} and sparse counts; every n via the incremental objects"),
               "counts": counts.len(), "counts_completed": completed, "max_count_completed": done_max, "schedules": 3, "capped": capped, "done_at_s": ctx.elapsed()}),
    );

    // ---- R: receipt lists
    let kmax = ctx.pick(300u64, 1500u64);
    space::par_chunks(
        (kmax + 1) * 3,
        4,
        Acc::default,
        |u, acc| {
            let (k, s) = (u / 3, (u % 3) as u8);
            for op in RECEIPT_OPS {
                if op == "interpreter" && k > 64 && k % 97 != 0 {
                    continue // a VM instance per case is costly; dense to 64, then every 97th
                }
                check_receipts(s, k, op, acc);
            }
            if k == 14 && s == 0 {
                let list: Vec<Receipt> = (0..k).map(|p| receipt(s, p)).collect();
                acc.samples.push(json!({"space": "R", "schedule": s, "k": k, "ops": RECEIPT_OPS,
                    "first_leaf": hx(&list[0].to_bytes()), "rfc6962_mth": hx(&receipts_mth(&list))}));
            }
        },
        |acc| acc.merge_into(ctx, &mut totals),
    );
    ctx.set("space_R", json!({"k": format!("0..={kmax}"), "schedules": 3, "ops": RECEIPT_OPS, "interpreter_op": "k<=64 and multiples of 97", "done_at_s": ctx.elapsed()}));

    // ---- X: executed scripts
    let xk = ctx.pick(40u64, 120u64);
    space::par_chunks(
        3,
        1,
        Acc::default,
        |e, acc| {
            let ending = ENDINGS[e as usize];
            let mut reused = new_txor();
            for k in 0..=xk {
                let mut fresh = new_txor();
                let o = run_script(&mut fresh, k, ending);
                if k == 3 && e == 0 {
                    if let Ok(o) = &o {
                        acc.samples.push(json!({"space": "X", "k": k, "ending": ending,
                            "receipts": o.receipts.iter().map(|r| format!("{r}")).collect::<Vec<_>>(),
                            "committed_receipts_root": hx(&o.committed), "rfc6962_mth": hx(&receipts_mth(&o.receipts))}));
                    }
                }
                check_script_obs(k, ending, false, o, acc);
                let o = run_script(&mut reused, k, ending);
                check_script_obs(k, ending, true, o, acc);
            }
        },
        |acc| acc.merge_into(ctx, &mut totals),
    );
    ctx.set("space_X", json!({"k": format!("0..={xk}"), "endings": ENDINGS, "done_at_s": ctx.elapsed(), "vm": ["fresh per script", "one VM reused for k = 0,1,2,.. in order"],
                              "script": "k x (MOVI r,j+1; LOG r,r,zero,one | LOGD r,zero,zero,r alternating) + ending"}));
    // ---- X at the limit: scripts that run into the receipt limit
    let nls = ctx.pick(2usize, 3usize);
    space::par_chunks(
        nls as u64,
        1,
        Acc::default,
        |e, acc| {
            let ending = LIMIT_SCRIPTS[e as usize];
            let mut t = new_txor();
            let o = run_script(&mut t, 0, ending);
            check_script_obs(0, ending, false, o, acc);
        },
        |acc| acc.merge_into(ctx, &mut totals),
    );
    ctx.set("space_X_limit", json!({"scripts": &LIMIT_SCRIPTS[..nls], "done_at_s": ctx.elapsed()}));

    // ---- L: ReceiptsCtx at the limit
    let lk = ctx.pick(2u32, 3u32);
    let nseq = space::seq_count(3, lk);
    let bases: Vec<Option<ReceiptsCtx>> = LIMIT_FILLS.iter().map(|f| limit_base(*f)).collect();
    for (f, b) in LIMIT_FILLS.iter().zip(&bases) {
        if b.is_none() {
            ctx.outcome(&format!("limit:fill={f}:not_reachable_by_logs+panic+script_result"), 1);
        }
    }
    space::par_chunks(
        4 * nseq,
        1,
        Acc::default,
        |u, acc| {
            let (fi, si) = ((u / nseq) as usize, u % nseq);
            let Some(base) = &bases[fi] else { return };
            let attempts = space::seq_at(3, lk, si);
            check_limit(base, LIMIT_FILLS[fi], &attempts, "ctx", acc);
            if attempts.len() <= 1 {
                check_limit(base, LIMIT_FILLS[fi], &attempts, "interpreter", acc);
            }
        },
        |acc| acc.merge_into(ctx, &mut totals),
    );
    ctx.set("space_L", json!({"fills": LIMIT_FILLS, "attempt_alphabet": LIMIT_ATTEMPTS, "max_attempts": lk, "sequences_per_fill": nseq,
                              "routes": {"ctx": "all sequences", "interpreter": "sequences of length <= 1"}, "done_at_s": ctx.elapsed()}));
    if !totals.is_empty() {
        ctx.set("violation_counts", json!(totals));
    }
}

fn replay(case: &Value, ctx: &Ctx) {
    let mut acc = Acc::default();
    match case["kind"].as_str() {
        Some("tree") => {
            let name = case["impl"].as_str().expect("impl").to_string();
            let ls = spec_leaves(&case["leaves"]);
            let n = ls.len() as u64;
            match case["mode"].as_str() {
                Some("scratch") => {
                    let exp = oracle::mth(&ls);
                    acc.cmp(&name, "scratch", n, run_scratch(&name, &ls), &exp, || case.clone());
                }
                Some("incremental") => {
                    let mut obs = vec![];
                    run_incremental(&name, &ls, &|_| true, &mut |k, got| obs.push((k, got)));
                    for (k, got) in obs {
                        let exp = oracle::mth(&ls[..k as usize]);
                        acc.cmp(&name, "incremental", k, got, &exp, || case.clone());
                    }
                }
                other => panic!("unknown mode {other:?}"),
            }
        }
        Some("receipts") => check_receipts(
            case["s"].as_u64().expect("s") as u8,
            case["k"].as_u64().expect("k"),
            case["op"].as_str().expect("op"),
            &mut acc,
        ),
        Some("script") => {
            let k = case["k"].as_u64().expect("k");
            let ending = case["ending"].as_str().expect("ending").to_string();
            let reused = case["reused"].as_bool().expect("reused");
            let mut t = new_txor();
            if reused {
                for j in 0..k {
                    let _ = run_script(&mut t, j, &ending);
                }
            }
            let o = run_script(&mut t, k, &ending);
            check_script_obs(k, &ending, reused, o, &mut acc);
        }
        Some("limit") => {
            let fill = case["fill"].as_u64().expect("fill");
            let attempts: Vec<u64> = case["attempts"].as_array().expect("attempts").iter().map(|a| a.as_u64().unwrap()).collect();
            let base = limit_base(fill).expect("limit base");
            check_limit(&base, fill, &attempts, case["route"].as_str().expect("route"), &mut acc);
        }
        Some("leaf_sum") | Some("empty_sum") => check_hash_primitives(&mut acc),
        other => panic!("unknown case kind {other:?}"),
    }
    let mut totals = BTreeMap::new();
    acc.merge_into(ctx, &mut totals);
}

fn main() {
    run_check("C09", Level::Exploration, explore, replay)
}
